------------------------------ MODULE HttpStack ------------------------------
(* The HTTP middleware stack in front of the RPC layer, one action per layer a request passes (extends C19's front door     *)
(* to the layers the library ships):                                                                                        *)
(*    ProxyGetRequest (server/src/middleware/http/proxy_get_request.rs)  - GET <registered path> becomes a POST of a         *)
(*                       call of the mapped method with id 0 and no params; the answer is unwrapped on the way back         *)
(*    HostFilter      (server/src/middleware/http/host_filter.rs)        - 403 unless the authority is allow-listed,        *)
(*                       400 when the request names none                                                                    *)
(*    Dispatch        (server/src/server.rs:1042-1148)                   - by the upgrade headers and the server's mode     *)
(*                       (both / http_only / ws_only): WebSocket handshake, the HTTP gate below, or 403                    *)
(*    Gate            (server/src/transport/http.rs)                     - 405 / 415                                       *)
(*    Rpc             (the service itself)                                                                                  *)
(* The stack is configured by the application: each of the two layers present or not, in either order.                     *)
(* A request travels inwards (`at` = index of the next layer), is answered by the first layer that refuses it or by Rpc,   *)
(* and the answer travels outwards through the layers it passed (only the proxy changes it).                                *)
EXTENDS Naturals, Integers, Sequences, FiniteSets, TLC, Json

CONSTANTS EmitCases

Methods == {"GET", "POST", "HEAD", "PUT"}
(* paths: registered ones by the method they are mapped to, spellings of a registered one, and unregistered ones *)
RegPaths == {"ok", "nullres", "strres", "fail", "failData", "missing", "sub", "panic", "tooBig", "errLooksOk"}
Paths == RegPaths \cup {"okQuery", "okSlash", "okUpper", "unreg", "root"}
Hosts == {"allowed", "denied", "none"}
CTs == {"json", "text", "none"}
Bodies == {"call", "garbage", "none"}
Layers == {<<>>, <<"proxy">>, <<"filter">>, <<"proxy", "filter">>, <<"filter", "proxy">>}      \* outermost first
Modes == {"both", "httpOnly", "wsOnly"}
(* upgrade headers: none; a complete WebSocket handshake; `Connection: upgrade` + `Upgrade: websocket` without a key *)
Upgrades == {"no", "good", "noKey"}
Requests == {r \in [method : Methods, path : Paths, host : Hosts, ct : CTs, body : Bodies, upg : Upgrades] :
                r.upg # "no" => r.body = "none" /\ r.ct = "none"}                   \* a handshake carries no body

(* proxy_get_request.rs:147-148: the lookup is by `uri.path()` - exact, case-sensitive, the query is not part of it *)
Mapped(p) == IF p \in RegPaths THEN p ELSE IF p = "okQuery" THEN "ok" ELSE "none"

(* what the RPC layer answers to a call of the mapped method without params (over HTTP: no subscriptions) *)
RpcOf(m) == CASE m \in {"ok", "nullres", "strres"} -> [k |-> "result", code |-> 0, ran |-> TRUE]
              [] m = "errLooksOk" -> [k |-> "error", code |-> 8, ran |-> TRUE]          \* an error whose data has a member "result"
              [] m = "fail"       -> [k |-> "error", code |-> 7, ran |-> TRUE]
              [] m = "failData"   -> [k |-> "error", code |-> 9, ran |-> TRUE]
              [] m = "panic"      -> [k |-> "error", code |-> -32603, ran |-> TRUE]
              [] m = "tooBig"     -> [k |-> "error", code |-> -32008, ran |-> TRUE]       \* result above max_response_body_size
              [] m = "missing"    -> [k |-> "error", code |-> -32601, ran |-> FALSE]
              [] m = "sub"        -> [k |-> "error", code |-> -32603, ran |-> FALSE]      \* rpc.rs:115-118

VARIABLES mode,       \* what the server serves
          cfg,        \* the layers, outermost first
          orig,       \* the request as the peer sent it
          req,        \* the request as the next layer sees it
          at,         \* travelling inwards: index of the next layer (Len(cfg)+1 = gate, +2 = rpc); outwards: index of the layer to pass next
          dir,        \* "in" | "out" | "done"
          proxied,    \* the proxy layer rewrote the request
          ans,        \* the answer so far
          ran         \* handler invocations: sequence of [m, params]
vars == <<mode, cfg, orig, req, at, dir, proxied, ans, ran>>

NoAns == [status |-> 0, k |-> "none", code |-> 0]
Init == /\ cfg \in Layers /\ mode \in Modes
        /\ orig \in Requests
        /\ req = orig /\ at = 1 /\ dir = "in" /\ proxied = FALSE /\ ans = NoAns /\ ran = <<>>

Refuse(status) == /\ ans' = [status |-> status, k |-> "text", code |-> 0]
                  /\ dir' = "out" /\ at' = at - 1 /\ UNCHANGED <<mode, cfg, orig, req, proxied, ran>>

(* response::malformed(): status 400 whose body is a JSON-RPC error envelope (-32700, id null) - the one refusal that is JSON *)
RefuseMalformed == /\ ans' = [status |-> 400, k |-> "envError", code |-> -32700]
                   /\ dir' = "out" /\ at' = at - 1 /\ UNCHANGED <<mode, cfg, orig, req, proxied, ran>>

ProxyIn == /\ dir = "in" /\ at <= Len(cfg) /\ cfg[at] = "proxy"
           /\ IF req.method = "GET" /\ Mapped(req.path) # "none"
              THEN /\ req' = [req EXCEPT !.method = "POST", !.ct = "json", !.body = Mapped(req.path), !.path = "root"]
                   /\ proxied' = TRUE
              ELSE UNCHANGED <<req, proxied>>
           /\ at' = at + 1 /\ UNCHANGED <<mode, cfg, orig, dir, ans, ran>>

FilterIn == /\ dir = "in" /\ at <= Len(cfg) /\ cfg[at] = "filter"
            /\ CASE req.host = "none"   -> RefuseMalformed             \* host_filter.rs:129-131 -> response::malformed()
                 [] req.host = "denied" -> Refuse(403)
                 [] OTHER -> at' = at + 1 /\ UNCHANGED <<mode, cfg, orig, req, dir, proxied, ans, ran>>

(* server.rs:1042-1148.  `is_upgrade_request` looks at the two headers only - not at the method, and the proxy's rewrite      *)
(* leaves them in place.  A handshake the server accepts is answered 101 (the connection's task then waits for the            *)
(* transport's upgrade); one it cannot accept is answered by a text with status 200 (`HttpResponse::new`) - as the tree does. *)
EnableWs == mode # "httpOnly"
EnableHttp == mode # "wsOnly"
Gate == /\ dir = "in" /\ at = Len(cfg) + 1
        /\ IF EnableWs /\ req.upg # "no"
             THEN /\ ans' = IF req.upg = "good" THEN [status |-> 101, k |-> "upgrade", code |-> 0] ELSE [status |-> 200, k |-> "text", code |-> 0]
                  /\ dir' = "out" /\ at' = at - 1 /\ UNCHANGED <<mode, cfg, orig, req, proxied, ran>>
           ELSE IF ~(EnableHttp /\ req.upg = "no") THEN Refuse(403)
           ELSE IF req.method # "POST" THEN Refuse(405)
           ELSE IF req.ct # "json" THEN Refuse(415)
           ELSE at' = at + 1 /\ UNCHANGED <<mode, cfg, orig, req, dir, proxied, ans, ran>>

(* the body is either what the peer sent or the call the proxy put there (a method class of RegPaths) *)
Rpc == /\ dir = "in" /\ at = Len(cfg) + 2
       /\ LET b == req.body IN
          CASE b = "call"    -> ans' = [status |-> 200, k |-> "envResult", code |-> 0] /\ ran' = Append(ran, [m |-> "echo", params |-> "given"])
            [] b \in {"garbage", "none"} -> ans' = [status |-> 400, k |-> "envError", code |-> -32700] /\ ran' = ran   \* http.rs: malformed()
            [] OTHER -> LET o == RpcOf(b) IN
                        /\ ans' = [status |-> 200, k |-> IF o.k = "result" THEN "envResult" ELSE "envError", code |-> o.code]
                        /\ ran' = IF o.ran THEN Append(ran, [m |-> b, params |-> "absent"]) ELSE ran
       /\ dir' = "out" /\ at' = Len(cfg) /\ UNCHANGED <<mode, cfg, orig, req, proxied>>

(* on the way out only the proxy touches the answer, and only of a request it rewrote (proxy_get_request.rs:172-199): a     *)
(* member "result" at the top level -> 200 with its value as the whole body; otherwise 500 with the error object, or with   *)
(* -32603 when there is none (a refusal by an inner layer is not JSON)                                                      *)
PassOut == /\ dir = "out" /\ at >= 1
           /\ IF cfg[at] = "proxy" /\ proxied
              THEN ans' = CASE ans.k = "envResult" -> [status |-> 200, k |-> "bareResult", code |-> 0]
                            [] ans.k = "envError"  -> [status |-> 500, k |-> "bareError", code |-> ans.code]
                            [] OTHER               -> [status |-> 500, k |-> "bareError", code |-> -32603]
              ELSE UNCHANGED ans
           /\ at' = at - 1 /\ UNCHANGED <<mode, cfg, orig, req, dir, proxied, ran>>
Deliver == dir = "out" /\ at = 0 /\ dir' = "done" /\ UNCHANGED <<mode, cfg, orig, req, at, proxied, ans, ran>>

Next == ProxyIn \/ FilterIn \/ Gate \/ Rpc \/ PassOut \/ Deliver
Spec == Init /\ [][Next]_vars

(* ---- what the stack guarantees ---- *)
TypeOK == /\ cfg \in Layers /\ mode \in Modes /\ at \in 0..4 /\ dir \in {"in", "out", "done"} /\ proxied \in BOOLEAN /\ Len(ran) <= 1
(* C19 with the shipped layers: a handler runs only for a request that reached the gate as a JSON POST - which the peer      *)
(* sent as such, or which is the proxy's rewrite of a GET of a registered path                                              *)
Inv_OnlyJsonPostReachesRpc ==
  ran # <<>> => /\ req.method = "POST" /\ req.ct = "json" /\ req.upg = "no"
                /\ \/ ~proxied /\ orig.method = "POST" /\ orig.ct = "json"
                   \/ proxied /\ orig.method = "GET" /\ Mapped(orig.path) # "none" /\ "proxy" \in {cfg[i] : i \in 1..Len(cfg)}
(* the proxy calls the mapped method and nothing else, with no params *)
Inv_ProxyCallsMapped == proxied /\ ran # <<>> => ran = <<[m |-> Mapped(orig.path), params |-> "absent"]>>
(* a refusal runs nothing; the filter's verdict does not depend on the layer order *)
Inv_RefusedRunsNothing == dir = "done" /\ ans.status \in {400, 403, 405, 415, 101} => ran = <<>>
(* a server that serves one protocol only never runs a handler for a request of the other kind *)
Inv_ModeRespected == ran # <<>> => EnableHttp /\ req.upg = "no"
Inv_FilterAlwaysDecides ==
  dir = "done" /\ "filter" \in {cfg[i] : i \in 1..Len(cfg)} /\ orig.host # "allowed" /\ ~proxied
      => ans.status = IF orig.host = "none" THEN 400 ELSE 403
(* a proxied request is answered bare: 200 + the result value, or 500 + an error object - never an envelope *)
Inv_ProxiedAnswerIsBare == dir = "done" /\ proxied => ans.k \in {"bareResult", "bareError"} /\ (ans.status = 200) = (ans.k = "bareResult")
Inv_UnproxiedAnswerUntouched == dir = "done" /\ ~proxied => ans.k \in {"text", "envResult", "envError", "upgrade"} /\ ans.status \in {101, 200, 400, 403, 405, 415}

Emit == (EmitCases /\ dir = "done") =>
          PrintT(<<"REPLAY", ToJson([cfg |-> cfg, mode |-> mode, req |-> orig, proxied |-> proxied, ans |-> ans, ran |-> ran])>>)
=============================================================================
