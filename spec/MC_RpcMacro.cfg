\* C17 quick: all 31 flag vectors (0..4 params) x {array,map} x 3 namespace forms = 186 shapes; every handler kind,
\* every presence vector, the six encoding variants: 20 850 calls, exhaustive.
CONSTANTS
  MaxParams = 4
  Kinds <- All_Kinds
  Variants <- Quick_Variants
  EmitCases = TRUE
INIT Init
NEXT Next
INVARIANTS Inv_ArgsEqual Inv_MissingRequiredIsError Inv_SameHandlerUnderAliasAndNamespace Inv_StubIsTotal Inv_TypeOK Emit
CHECK_DEADLOCK FALSE
