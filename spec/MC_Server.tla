---- MODULE MC_Server ----
EXTENDS Server
Cn4 == {1, 2, 3, 4}
K4 == [c \in Cn4 |-> IF c <= 2 THEN "http" ELSE "ws"]
CnW2 == {1, 2}
KW2 == [c \in CnW2 |-> "ws"]
NoCalls == {}
NoConnOf == [q \in {} |-> 1]
Cn2 == {1, 2}
K2 == [c \in Cn2 |-> IF c = 1 THEN "ws" ELSE "http"]
Q3 == {1, 2, 3}
CO3 == [q \in Q3 |-> IF q = 3 THEN 2 ELSE 1]
====
