------------------------------ MODULE MC_Client ------------------------------
EXTENDS Client
(* model values for the operation sets of the bounded configs *)
Ops3 == {"a", "b", "c"}
Ops2 == {"a", "b"}
Ops1 == {"a"}
K_3calls == [h \in Ops3 |-> "call"]
K_2calls1sub == [h \in Ops3 |-> IF h = "c" THEN "sub" ELSE "call"]
K_1call1sub == [h \in Ops2 |-> IF h = "b" THEN "sub" ELSE "call"]
K_2subs == [h \in Ops2 |-> "sub"]
K_1sub == [h \in Ops1 |-> "sub"]
K_2bat1call == [h \in Ops3 |-> IF h = "c" THEN "call" ELSE "batch"]
K_2bat == [h \in Ops2 |-> "batch"]
N_2 == [h \in Ops3 |-> 2]
N_32 == [h \in Ops3 |-> IF h = "a" THEN 3 ELSE 2]
N2_32 == [h \in Ops2 |-> IF h = "a" THEN 3 ELSE 2]
N2_2 == [h \in Ops2 |-> 2]
N1 == [h \in Ops1 |-> 1]
RS_ok == {[ok |-> TRUE, sub |-> -1]}
RS_okerr == {[ok |-> TRUE, sub |-> -1], [ok |-> FALSE, sub |-> -1]}
RS_sub1 == {[ok |-> TRUE, sub |-> 1], [ok |-> FALSE, sub |-> -1]}
RS_sub12 == {[ok |-> TRUE, sub |-> 1], [ok |-> TRUE, sub |-> 2], [ok |-> FALSE, sub |-> -1], [ok |-> TRUE, sub |-> -1]}
AllDone == \A h \in Ops : fe[h].st \in {"done"}
=============================================================================
