\* C18 thorough (MaxPeer 5; MaxPeer 6 is 74 M states and 18 min - too close to any time limit on a loaded machine): 1 call + 1 subscription through every end path (accepted, refused, malformed id, unsubscribe, drop, server close, lag)
CONSTANTS
  Ops <- Ops2
  Kind <- K_1call1sub
  BatchN <- N2_2
  MaxQueue = 2
  BufCap = 1
  SubIds = {1}
  Dev = {}
  PeerMenu = {"resp", "notif", "close"}
  MaxPeer = 5
  MaxPush = 2
  Faults = {}
  MaxFaults = 1
  RespShapes <- RS_sub12
  Abandon = FALSE
  MaxArr = 1
  ArrMenu = {}
INIT Init
NEXT Next
VIEW View
INVARIANTS Inv_Route Inv_IdsUnique Inv_EndsOnClose Inv_Positional Inv_StreamOrdered Inv_LaggedEnds Inv_UnsubAtMostOnce Inv_NoPlaceholder Inv_SameCause Inv_NoPanic Inv_DisconnectedAfterFailure Inv_QuiescentEmpty Inv_IndexConsistent
CHECK_DEADLOCK FALSE
