------------------------------ MODULE HttpClient ------------------------------
(* The HTTP client's single calls and notifications (client/http-client/src/client.rs:414-456, transport.rs:350-385) - the      *)
(* third client of the library, next to the async client of Client.tla and the batch path of ClientBatch.tla.                  *)
(* One HTTP exchange carries one request; the model is sequential: one action per front-end call, the peer's reply chosen from *)
(* a class alphabet.  What C03 asks of a client - a call completes with the response bearing its own id, and with nothing      *)
(* else - reads here: `Ok(v)` only when the reply is a success response with the call's own id whose result decodes, and       *)
(* then v is that result; an error object is handed to the caller as it is; everything else is an error of the client.         *)
EXTENDS Integers, Sequences, FiniteSets, TLC, Json

CONSTANTS MaxCalls, EmitCases

Kinds == {"call", "notif"}
(* reply classes: status 200 with a body ... *)
OkBodies == {"okOwn",            \* success response, the call's own id, a result that decodes
             "okForeign",        \* ... another request's id (own id + 1)
             "okPrevious",       \* ... the id of the previous call of this client (own id - 1)
             "okNullId",         \* ... id null
             "okOtherType",      \* ... the digits of the own id in the other JSON type ("7" for 7): another id
             "okUndecodable",    \* ... own id, a result that is not an R
             "okUndecodableForeign",
             "errOwn", "errForeign", "errNull",     \* error responses
             "both", "neither",  \* objects that are no response: result and error, or none of them
             "notJson", "empty", "arrayOfOwn"}
(* ... or no 2xx status, or a body above max_response_size *)
Replies == OkBodies \cup {"status500", "status404", "tooLarge"}

VARIABLES nextId,      \* the id the next call will use (notifications use none)
          hist,        \* sequence of [kind, reply, id, out]
          phase
vars == <<nextId, hist, phase>>

(* what the front-end call returns *)
OutcomeCall(r) ==
  CASE r = "okOwn" -> [k |-> "ok"]
    [] r \in {"okForeign", "okPrevious", "okNullId", "okOtherType"} -> [k |-> "invalidId"]          \* client.rs:454
    [] r \in {"okUndecodable", "okUndecodableForeign"} -> [k |-> "parse"]                            \* :453 (decoded before the id is looked at)
    [] r \in {"errOwn", "errForeign", "errNull"} -> [k |-> "callError"]                              \* :451 - the exchange's answer, whatever id it names
    [] r \in {"both", "neither", "arrayOfOwn"} -> [k |-> "parse"]
    [] r \in {"notJson", "empty"} -> [k |-> "transport"]          \* refused while the body is read (http_helpers::read_body: malformed)
    [] r \in {"status500", "status404", "tooLarge"} -> [k |-> "transport"]
(* a notification expects no answer: any 2xx is fine whatever the body (:414-428) *)
OutcomeNotif(r) == IF r \in {"status500", "status404"} THEN [k |-> "transport"] ELSE [k |-> "ok"]

(* the loosest reading of the property: which outcomes are acceptable for a reply class.  `Ok` only for the own id's          *)
(* decodable result; an error object of the own id (or of no id) reaches the caller as it is; for everything else the call    *)
(* fails with an error of the client's own, whichever (`Outcome*` above is what the tree does; a difference inside the        *)
(* allowed set is reported as drift, not as a violation)                                                                      *)
ClientErrors == {"parse", "invalidId", "transport"}
Allowed(kind, r) ==
  IF kind = "notif" THEN (IF r \in {"status500", "status404"} THEN {"transport"} ELSE IF r = "tooLarge" THEN {"ok", "transport"} ELSE {"ok"})
  ELSE CASE r = "okOwn" -> {"ok"}
         [] r \in {"errOwn", "errNull"} -> {"callError"}
         [] r = "errForeign" -> {"callError"} \cup ClientErrors
         [] OTHER -> ClientErrors

Init == nextId = 0 /\ hist = <<>> /\ phase = "open"
Call(kind, r) ==
  /\ phase = "open" /\ Len(hist) < MaxCalls
  /\ hist' = Append(hist, [kind |-> kind, reply |-> r, id |-> IF kind = "call" THEN nextId ELSE -1,
                           out |-> IF kind = "call" THEN OutcomeCall(r) ELSE OutcomeNotif(r),
                           allowed |-> Allowed(kind, r)])
  /\ nextId' = IF kind = "call" THEN nextId + 1 ELSE nextId            \* an id is used up whether or not the call succeeds
  /\ UNCHANGED phase
Finish == phase = "open" /\ hist # <<>> /\ phase' = "done" /\ UNCHANGED <<nextId, hist>>
Next == (\E kind \in Kinds, r \in Replies : Call(kind, r)) \/ Finish

(* ---- the property on the model ---- *)
Inv_OkOnlyForOwnId == \A i \in 1..Len(hist) : hist[i].kind = "call" /\ hist[i].out.k = "ok" => hist[i].reply = "okOwn"
Inv_OutcomeAllowed == \A i \in 1..Len(hist) : hist[i].out.k \in hist[i].allowed
Inv_IdsDistinct == \A i, j \in 1..Len(hist) : i # j /\ hist[i].kind = "call" /\ hist[j].kind = "call" => hist[i].id # hist[j].id
Inv_ErrorObjectDelivered == \A i \in 1..Len(hist) : hist[i].kind = "call" /\ hist[i].reply \in {"errOwn", "errNull"} => hist[i].out.k = "callError"

Emit == (EmitCases /\ phase = "done") => PrintT(<<"REPLAY", ToJson([calls |-> hist])>>)
=============================================================================
