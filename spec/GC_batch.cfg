\* script generation, scenario group "batch" (constants equal TC_batch.cfg's; the peer and the faults are switched on)
CONSTANTS
  Ops <- G_batch_Ops
  Kind <- G_batch_Kind
  BatchN <- G_batch_N
  MaxQueue = 4
  BufCap = 1
  SubIds = {1, 2, 101, 102}
  Dev = {}
  PeerMenu = {"resp", "notif", "close", "mnotif", "array", "foreign"}
  MaxPeer = 14
  MaxPush = 6
  Faults = {"sendErr", "recvErr", "peerClose"}
  MaxFaults = 2
  RespShapes <- RS_gen
  Abandon = FALSE
  MaxArr = 3
  ArrMenu = {"resp", "notif", "close"}
  ScriptLen = 18
  HoldGate = 30
  AbandonGate = 10
  FaultGate = 40
INIT GInit
NEXT GNext
CHECK_DEADLOCK FALSE
