CONSTANTS Mode = "gate" EmitCases = TRUE FirstFrameDecides = FALSE
INIT Init
NEXT Next
INVARIANTS Emit
CHECK_DEADLOCK FALSE
