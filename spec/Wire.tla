------------------------------ MODULE Wire ------------------------------
(* C01 / C02 - classification of one inbound text and the reply the server owes it.                          *)
(* Transcribes server/src/server.rs:1264-1329 (handle_rpc_call), core/src/server/helpers.rs:123             *)
(* (prepare_error), server/src/middleware/rpc.rs:82-188 (dispatch, batch), the serde shapes of Request /     *)
(* Notification / InvalidRequest (types/src/request.rs) and Id (types/src/params.rs:365-376), the sniffing   *)
(* of ws.rs:154-163 and http_helpers.rs:156-170, over an alphabet of member CLASSES.  The harness turns each  *)
(* class into concrete bytes (several per class, seeded) and projects replies back.                          *)
EXTENDS Integers, Sequences, FiniteSets, TLC, Json

JsonrpcCls == {"absent", "v2", "otherStr", "nonStr"}
IdCls      == {"absent", "null", "num", "str", "bad"}          \* bad = outside {null, u64, string}: -1, 1.5, 2^64, true, {}, []
MethodCls  == {"absent", "nonStr", "unknown", "sync", "async", "blocking", "boom", "sub", "unsub", "syncEsc"}
ParamsCls  == {"absent", "arrOk", "arrBad", "objOk", "objBad", "scalar", "null"}
SyntaxCls  == {"ok", "truncated", "trailing"}
Transports == {"http", "ws"}

Objects == [jsonrpc : JsonrpcCls, id : IdCls, method : MethodCls, params : ParamsCls, extra : BOOLEAN, syntax : SyntaxCls]
NonObjects == {[text |-> t] : t \in {"garbage", "blank", "empty", "number", "string", "true", "nullLit", "brokenUtf8"}}

IdInDomain(o) == o.id \in {"null", "num", "str"}
MethodIsStr(o) == o.method \notin {"absent", "nonStr"}

(* serde: Request needs jsonrpc = "2.0", an id in the domain, a string method; params any JSON or absent; unknown members ignored *)
ParsesAsRequest(o) == o.syntax = "ok" /\ o.jsonrpc = "v2" /\ IdInDomain(o) /\ MethodIsStr(o)
(* Notification has no id member: any `id` is an unknown member and ignored *)
ParsesAsNotif(o)   == o.syntax = "ok" /\ o.jsonrpc = "v2" /\ MethodIsStr(o)
(* InvalidRequest { id } *)
IdRecoverable(o)   == o.syntax = "ok" /\ IdInDomain(o)

Kind(o) == IF ParsesAsRequest(o) THEN "call"
           ELSE IF ParsesAsNotif(o) THEN "notification"
           ELSE IF IdRecoverable(o) THEN "invalidWithId" ELSE "unparseable"

HandlerOf(m) == CASE m \in {"sync", "syncEsc"} -> "echo" [] m = "async" -> "echo_async" [] m = "blocking" -> "echo_blocking"
                  [] m = "boom" -> "boom" [] m = "sub" -> "sub" [] OTHER -> "none"

None == [n |-> 0]
Err(code, idk) == [n |-> 1, kind |-> "error", code |-> code, id |-> idk]      \* idk: "own" = the message's id, "null"
Ok(what) == [n |-> 1, kind |-> "result", what |-> what, id |-> "own"]

(* reply to a call once dispatched: server/src/middleware/rpc.rs:82-149 *)
CallReply(o, tr) ==
  CASE o.method = "unknown" -> Err(-32601, "own")
    [] o.method \in {"sync", "syncEsc", "async", "blocking"} ->
         IF o.params \in {"arrBad", "objBad"} THEN Err(-32602, "own") ELSE Ok("echo")
    [] o.method = "boom" -> Err(-32603, "own")                       \* the library reports the failed handler
    [] o.method = "sub"   -> IF tr = "http" THEN Err(-32603, "own") ELSE Ok("subId")
    [] o.method = "unsub" -> IF tr = "http" THEN Err(-32603, "own") ELSE Ok("false")

Reply(o, tr) ==
  CASE Kind(o) = "call" -> CallReply(o, tr)
    [] Kind(o) = "notification" -> None
    [] Kind(o) = "invalidWithId" -> Err(-32600, "own")
    [] Kind(o) = "unparseable" -> Err(-32700, "null")

HandlerRuns(o, tr) ==     \* which registered handler is invoked, if any
  IF Kind(o) = "call" /\ ~(o.method \in {"sub"} /\ tr = "http") THEN HandlerOf(o.method) ELSE "none"

(* an object whose method string is not valid UTF-8: the id may or may not be recoverable (the property allows both) *)
NonObjectReply(t) == IF t = "brokenUtf8" THEN [n |-> 1, kind |-> "error", code |-> -32600, id |-> "own", alt |-> TRUE]
                     ELSE Err(-32700, "null")

-------------------------------------------------------------------------
(* C02: batches.  server.rs:1290-1329 + middleware/rpc.rs:151-188 *)
EntryCls == {"callOk", "callUnknown", "callBadParams", "notif", "notifBadId", "invalidWithId", "invalidNoId", "nonObject",
             "dupIdCall", "subCall", "unsubCall"}
BatchCfgs == {"Disabled", "Limit1", "Limit2", "Unlimited"}

IsNotifEntry(e) == e \in {"notif", "notifBadId"}
EntryReply(e, tr) ==
  CASE e \in {"callOk", "dupIdCall"} -> Ok("echo")
    [] e = "callUnknown" -> Err(-32601, "own")
    [] e = "callBadParams" -> Err(-32602, "own")
    [] e = "invalidWithId" -> Err(-32600, "own")
    [] e \in {"invalidNoId", "nonObject"} -> Err(-32600, "null")
    [] e = "subCall" -> IF tr = "http" THEN Err(-32603, "own") ELSE Ok("subId")
    [] e = "unsubCall" -> IF tr = "http" THEN Err(-32603, "own") ELSE Ok("false")

MaxLenOf(cfg) == CASE cfg = "Limit1" -> 1 [] cfg = "Limit2" -> 2 [] OTHER -> 1000

(* [k |-> "single", reply] : one error object, nothing executed; "none"; "array" with one element per non-notification *)
BatchReply(cfg, entries, tr) ==
  IF cfg = "Disabled" THEN [k |-> "single", code |-> -32005, executed |-> FALSE]
  ELSE IF Len(entries) > MaxLenOf(cfg) THEN [k |-> "single", code |-> -32010, executed |-> FALSE]
  ELSE IF Len(entries) = 0 THEN [k |-> "single", code |-> -32600, executed |-> FALSE]
  ELSE IF \A i \in 1..Len(entries) : IsNotifEntry(entries[i]) THEN [k |-> "none", executed |-> TRUE]
  ELSE [k |-> "array", executed |-> TRUE,
        elems |-> [i \in 1..Len(entries) |-> IF IsNotifEntry(entries[i]) THEN None ELSE EntryReply(entries[i], tr)]]
=========================================================================
