---- MODULE MC_ServerSubs ----
EXTENDS ServerSubs
C2 == {1, 2}
C1 == {1}
S4 == {1, 2, 3, 4}
S3 == {1, 2, 3}
S2 == {1, 2}
ConnOf4 == [k \in S4 |-> IF k = 4 THEN 2 ELSE 1]
ConnOf3 == [k \in S3 |-> IF k = 3 THEN 2 ELSE 1]
ConnOf2 == [k \in S2 |-> 1]
====
