\* C16 thorough: arrays of length <= 2 over all 12 element classes, every pair of reads (14 x 14) at every position,
\* plus (second run, MC_ParamsSeq_thorough3.cfg) length 3 over 9 classes with the reduced second-op set.
CONSTANTS
  EClass <- Full_EClass
  MaxLen = 2
  SecondOps <- ReadOps
  EmitCases = TRUE
INIT Init
NEXT Next
INVARIANTS Inv_NeverWrongPosition Inv_AfterFailureOnlyErrOrAbsent Inv_PosBounded Emit
CHECK_DEADLOCK FALSE
