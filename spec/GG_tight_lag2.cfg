\* goal-directed script generation, group "tight": the same subscription id lags twice
CONSTANTS
  Ops <- G_tight_Ops
  Kind <- G_tight_Kind
  BatchN <- G_tight_N
  MaxQueue = 1
  BufCap = 1
  SubIds = {1}
  Dev = {}
  PeerMenu = {}
  MaxPeer = 6
  MaxPush = 4
  Faults = {}
  MaxFaults = 1
  RespShapes <- RS_gen
  Abandon = FALSE
  MaxArr = 3
  ArrMenu = {}
  ScriptLen = 10
  HoldGate = 1
  AbandonGate = 1
  FaultGate = 1
  StartOps = {"a", "b"}
  Want = {"lagTwiceSameId"}
  EnvAbandon = FALSE
  EnvHold = FALSE
INIT DInit
NEXT DNext
VIEW GView
CONSTRAINT Prune
INVARIANTS G_LagTwiceSameId
CHECK_DEADLOCK FALSE
