\* C15: all member sequences of length <= 5 over 9 member classes (66430)
CONSTANTS Mode = "members" MaxMembers = 5 EmitCases = TRUE BusyMapped = TRUE
INIT Init
NEXT Next
INVARIANTS Inv_ExactlyOnePayload Emit
CHECK_DEADLOCK FALSE
