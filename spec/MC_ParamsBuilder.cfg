\* C20 quick design config: all insert / failing-insert sequences of length <= 4, both builders, all constructors.
CONSTANTS MaxOps = 4
          TruncateOnError = TRUE
          EmitCases = TRUE
INIT Init
NEXT Next
INVARIANTS Inv_BuildNeverPanics Inv_BuildMeansInserted Inv_EmptyMeansNoParams Inv_FailedInsertKeepsItems Emit
CHECK_DEADLOCK FALSE
