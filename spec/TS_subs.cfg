\* trace validation of concurrent subscription scenarios (harness/src/c04_subs_conc.rs): 2 connections, subscribe calls 1,2 on
\* connection 1 and 3 on connection 2, message_buffer_capacity 2
CONSTANTS
  Conns <- C2
  SubOps <- S3
  ConnOf <- ConnOf3
  Caps = {1, 2, 3}
  MaxClones = 2
  MaxDepth = 0
  QueueCap = 2
  MaxSends = 100
  Dev = {}
  EmitCases = FALSE
  MaxSilent = 10
INIT TInit
NEXT TNext
VIEW TView
CONSTRAINT Progress
POSTCONDITION Accepted
INVARIANTS Inv_Cap Inv_PermitConservation Inv_TableExact Inv_ResponseBeforeNotifs Inv_PerSubFifo Inv_OwnConnection Inv_CloseAtMostOnceAndOnlyIfAccepted Inv_NoNotifsUnlessAccepted
CHECK_DEADLOCK FALSE
