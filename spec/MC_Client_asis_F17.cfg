\* as-is F17: the subscribe caller has given up when the accept arrives - the unsubscribe built by the read task is refused by the send task
CONSTANTS
  Ops <- Ops2
  Kind <- K_1call1sub
  BatchN <- N2_2
  MaxQueue = 2
  BufCap = 1
  SubIds = {1}
  Dev = {"F17"}
  PeerMenu = {"resp", "notif", "close"}
  MaxPeer = 4
  MaxPush = 1
  Faults = {}
  MaxFaults = 1
  RespShapes <- RS_sub12
  Abandon = TRUE
  MaxArr = 1
  ArrMenu = {}
INIT Init
NEXT Next
VIEW View
INVARIANTS Inv_QuiescentEmpty
CHECK_DEADLOCK FALSE
