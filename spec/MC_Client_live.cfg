\* C09 liveness: under weak fairness of the background tasks and the front end, once both tasks are gone every started
\* operation finishes (1 call + 1 subscription, one peer text, each fault kind)
CONSTANTS
  Ops <- Ops2
  Kind <- K_1call1sub
  BatchN <- N2_2
  MaxQueue = 2
  BufCap = 1
  SubIds = {1}
  Dev = {}
  PeerMenu = {"resp", "garbage"}
  MaxPeer = 1
  MaxPush = 0
  Faults = {"sendErr", "recvErr", "peerClose"}
  MaxFaults = 1
  RespShapes <- RS_sub1
  Abandon = FALSE
  MaxArr = 1
  ArrMenu = {}
SPECIFICATION FairSpec
PROPERTIES Live_AllFinish Live_FaultLeadsToDisconnect
CHECK_DEADLOCK FALSE
