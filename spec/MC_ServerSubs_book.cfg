\* C06 quick: 2 connections, 3 subscribe calls (two on connection 1, one on connection 2), caps 0..2, one extra sink clone,
\* every call sequence of length <= MaxDepth; queue not modelled (bookkeeping only)
CONSTANTS
  Conns <- C2
  SubOps <- S3
  ConnOf <- ConnOf3
  Caps = {0, 1, 2}
  MaxClones = 1
  MaxDepth = 6
  QueueCap = 0
  MaxSends = 0
  Dev = {}
  EmitCases = TRUE
INIT Init
NEXT Next
VIEW View
INVARIANTS Inv_Cap Inv_PermitConservation Inv_TableExact Inv_AnsweredMeansActive
CHECK_DEADLOCK FALSE
