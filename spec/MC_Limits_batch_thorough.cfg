CONSTANTS Mode = "batch" EmitCases = TRUE MaxEntries = 6 UseRespLimitForWsConnect = FALSE
INIT Init
NEXT Next
INVARIANTS Inv_NoOversizeOnWire Inv_FitsIsSentUnchanged Inv_ReqOutcomeIgnoresRespLimit Emit
CHECK_DEADLOCK FALSE
