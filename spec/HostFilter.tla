------------------------------ MODULE HostFilter ------------------------------
(* C14 - host filtering (server/src/middleware/http/host_filter.rs:118-182, authority.rs:70-124, 157-164).            *)
(* This module is the independent matcher the property asks for: hosts are label sequences, a pattern label "*"        *)
(* matches one or more labels (the router's documented glob), ports are classes.  Entries and request authorities      *)
(* are abstract; the harness spells them in several concrete ways (scheme + default port, bare host:port, ...).       *)
EXTENDS Naturals, Sequences, FiniteSets, TLC, Json

CONSTANTS MaxList, EmitCases

Labels == {"a", "b", "evil"}
Patterns == {<<"a">>, <<"a", "b">>, <<"*", "a">>, <<"a", "*">>, <<"*">>, <<"b", "*", "a">>}
Hosts == {<<"a">>, <<"b">>, <<"evil">>, <<"a", "b">>, <<"evil", "a">>, <<"a", "evil">>, <<"b", "evil", "a">>, <<"b", "a", "evil", "a">>}
EntryPorts == {"default", "any", "f80", "f443", "f8080"}
ReqPorts == {"default", "f80", "f443", "f8080"}
Entries == [host : Patterns, port : EntryPorts]

(* does pattern p (from index i) match host h (from index j): "*" consumes one or more labels *)
RECURSIVE M(_, _, _, _)
M(p, i, h, j) ==
  IF i > Len(p) THEN j > Len(h)
  ELSE IF j > Len(h) THEN FALSE
  ELSE IF p[i] = "*" THEN \E k \in j..Len(h) : M(p, i + 1, h, k + 1)
  ELSE p[i] = h[j] /\ M(p, i + 1, h, j + 1)
HostMatches(p, h) == M(p, 1, h, 1)

(* port: equal, both default, or entry port * *)
PortMatches(ep, rp) == ep = "any" \/ ep = rp
EntryMatches(e, a) == HostMatches(e.host, a.host) /\ PortMatches(e.port, a.port)

(* request forms.  form: how the Host header spells the authority; uri: the request-target's authority *)
Forms == {"plain", "userinfo", "upper", "trailingDot", "zeroPort"}
UriKinds == {"absent", "equal", "otherHost", "otherPort", "onlyUri"}
Malformed == {"extraColon", "badPort", "emptyPort", "nonAscii", "withPath", "emptyHost", "twoHostHeaders", "starPort"}
Requests == [k : {"ok"}, host : Hosts, port : ReqPorts, form : {"plain"}, uri : UriKinds, why : {"none"}]
            \cup [k : {"ok"}, host : Hosts, port : ReqPorts, form : Forms \ {"plain"}, uri : {"absent"}, why : {"none"}]
            \cup [k : {"bad"}, why : Malformed, uri : {"absent", "valid"}, host : {<<"a">>}, port : {"default"}, form : {"plain"}]

Lists == {{e} : e \in Entries}
         \cup (IF MaxList >= 2 THEN {{e1, e2} : e1 \in Entries, e2 \in Entries} ELSE {})
         \cup (IF MaxList >= 3 THEN {{e1, e2, e3} : e1 \in Entries, e2 \in Entries, e3 \in Entries} ELSE {})

(* the single authority of a request, or "none" (400) *)
NoAuthority == [host |-> <<>>, port |-> "none"]
Determined(r) ==
  IF r.k = "bad" THEN (IF r.uri = "valid" THEN [host |-> r.host, port |-> r.port] ELSE NoAuthority)
  ELSE IF r.uri \in {"otherHost", "otherPort"} THEN NoAuthority
  ELSE [host |-> r.host, port |-> r.port]

(* allowed verdicts.  Soundness is unconditional; completeness is demanded for singleton lists and for lists in which   *)
(* only one host pattern matches the host (the router picks ONE pattern; with several matching patterns either verdict  *)
(* is accepted).  Lexically odd spellings may additionally be denied.                                                  *)
Verdicts(l, r) ==
  LET a == Determined(r) IN
  \* a request whose port is the wildcard `*` names no port at all: it may only ever be admitted by an entry that admits every port
  IF r.k = "bad" /\ r.why = "starPort" /\ r.uri = "absent"
    THEN (IF \E e \in l : HostMatches(e.host, r.host) /\ e.port = "any" THEN {"pass", "403", "400"} ELSE {"403", "400"})
  ELSE IF a = NoAuthority THEN {"400"}
  \* `h:*` next to a valid request-target authority: the two may be found to disagree (400), or the target decides
  ELSE IF r.k = "bad" /\ r.why = "starPort"
    THEN {"400", "403"} \cup (IF \E e \in l : EntryMatches(e, a) THEN {"pass"} ELSE {})
  ELSE LET hm == {e \in l : HostMatches(e.host, a.host)}
           full == {e \in hm : PortMatches(e.port, a.port)}
           pats == {e.host : e \in hm}
           odd == r.k = "ok" /\ r.form \in {"upper", "trailingDot", "userinfo"}
       IN  IF full = {} THEN (IF odd THEN {"403", "400"} ELSE {"403"})
           ELSE IF odd \/ Cardinality(pats) > 1 THEN {"pass", "403"} \cup (IF odd THEN {"400"} ELSE {})
           ELSE {"pass"}

VARIABLES l, phase
vars == <<l, phase>>
Init == l \in Lists /\ phase = "new"
Eval == phase = "new" /\ phase' = "done" /\ l' = l
Next == Eval

(* meta-properties of the matcher itself *)
Meta_Soundness == \A r \in Requests : "pass" \in Verdicts(l, r) =>
                     IF r.k = "bad" /\ r.why = "starPort" /\ r.uri = "absent"
                       THEN \E e \in l : HostMatches(e.host, r.host) /\ e.port = "any"
                       ELSE Determined(r) # NoAuthority /\ \E e \in l : EntryMatches(e, Determined(r))
Meta_SingletonCompleteness ==
  Cardinality(l) = 1 => \A r \in Requests : (r.k = "ok" /\ r.form = "plain" /\ r.uri \in {"absent", "equal", "onlyUri"}
                                               /\ \E e \in l : EntryMatches(e, [host |-> r.host, port |-> r.port]))
                                              => Verdicts(l, r) = {"pass"}
Meta_StarNeedsALabel == ~HostMatches(<<"*", "a">>, <<"a">>) /\ HostMatches(<<"*", "a">>, <<"b", "evil", "a">>) /\ ~HostMatches(<<"a", "*">>, <<"a">>)

Emit == (EmitCases /\ phase = "done") =>
  PrintT(<<"REPLAY", ToJson([list |-> l, reqs |-> {[r |-> r, v |-> Verdicts(l, r)] : r \in Requests}])>>)
=============================================================================
