------------------------------ MODULE MC_Wire ------------------------------
(* One-step "evaluate case" machines over Wire.tla so that TLC enumerates the abstract domain exhaustively,   *)
(* checks the meta-properties of the transcription, and prints each case with its expected outcome.          *)
EXTENDS Wire
CONSTANTS Mode, MaxBatch, EmitCases
VARIABLES c, phase
vars == <<c, phase>>

BatchCases == [cfg : BatchCfgs, entries : UNION {[1..n -> EntryCls] : n \in 0..MaxBatch}]

Init == /\ phase = "new"
        /\ CASE Mode = "single" -> c \in Objects \cup NonObjects
             [] Mode = "batch" -> c \in BatchCases
Eval == phase = "new" /\ phase' = "done" /\ c' = c
Next == Eval

IsObj == "jsonrpc" \in DOMAIN c

(* --- meta-properties of the transcription (the property's own sentences) --- *)
Meta_AtMostOneReply == Mode = "single" /\ IsObj => \A tr \in Transports : Reply(c, tr).n <= 1
Meta_SilentOnlyIfNotification ==
  Mode = "single" /\ IsObj => \A tr \in Transports : (Reply(c, tr).n = 0 <=> (c.syntax = "ok" /\ c.jsonrpc = "v2" /\ MethodIsStr(c) /\ ~IdInDomain(c)))
Meta_OwnIdWheneverRecoverable ==
  Mode = "single" /\ IsObj => \A tr \in Transports : Reply(c, tr).n = 1 /\ Reply(c, tr).id = "null" => ~IdRecoverable(c)
Meta_SameOnBothTransports ==
  Mode = "single" /\ IsObj /\ c.method \notin {"sub", "unsub"} => Reply(c, "http") = Reply(c, "ws")
Meta_HandlerOnlyForValidCall ==
  Mode = "single" /\ IsObj => \A tr \in Transports : HandlerRuns(c, tr) # "none" => ParsesAsRequest(c) /\ HandlerOf(c.method) = HandlerRuns(c, tr)
Meta_BatchOnePerNonNotification ==
  Mode = "batch" => \A tr \in Transports : LET r == BatchReply(c.cfg, c.entries, tr) IN
      r.k = "array" => \A i \in 1..Len(c.entries) : (r.elems[i].n = 0) <=> IsNotifEntry(c.entries[i])
Meta_BatchRefusalExecutesNothing ==
  Mode = "batch" => \A tr \in Transports : LET r == BatchReply(c.cfg, c.entries, tr) IN r.k = "single" => ~r.executed

Emit == (EmitCases /\ phase = "done") =>
  PrintT(<<"REPLAY", ToJson(
    IF Mode = "single" THEN
       IF IsObj THEN [case |-> c, kind |-> Kind(c), http |-> Reply(c, "http"), ws |-> Reply(c, "ws"),
                      hhttp |-> HandlerRuns(c, "http"), hws |-> HandlerRuns(c, "ws")]
       ELSE [case |-> c, kind |-> "nonobject", http |-> NonObjectReply(c.text), ws |-> NonObjectReply(c.text), hhttp |-> "none", hws |-> "none"]
    ELSE [case |-> c, http |-> BatchReply(c.cfg, c.entries, "http"), ws |-> BatchReply(c.cfg, c.entries, "ws")])>>)
=============================================================================
