\* C10 liveness: after stop(), `stopped` eventually resolves whatever the peers do (fairness only on the server's own steps)
CONSTANTS
  Conns <- Cn2
  KindOf <- K2
  Calls <- Q3
  ConnOfCall <- CO3
  Limits = {2}
  MaxDepth = 0
  EmitCases = FALSE
  Hows = {"respond", "reset", "clientClose", "serverClose"}
  Dev = {}
SPECIFICATION FairStop
PROPERTY Live_StopCompletes
CHECK_DEADLOCK FALSE
