CONSTANTS
  EClass <- Thorough_EClass
  MaxLen = 3
  SecondOps <- Quick_Second
  EmitCases = TRUE
INIT Init
NEXT Next
INVARIANTS Inv_NeverWrongPosition Inv_AfterFailureOnlyErrOrAbsent Inv_PosBounded Emit
CHECK_DEADLOCK FALSE
