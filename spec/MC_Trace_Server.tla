---- MODULE MC_Trace_Server ----
EXTENDS Trace_Server
Cn3 == {1, 2, 3}
K3 == [c \in Cn3 |-> IF c = 3 THEN "http" ELSE "ws"]
Q5 == {1, 2, 3, 4, 5}
CO5 == [q \in Q5 |-> CASE q \in {1, 2} -> 1 [] q \in {3, 4} -> 2 [] OTHER -> 3]
\* a third call on connection 1 (call 6: the subscribe call of the back-pressure scenario)
Q6 == {1, 2, 3, 4, 5, 6}
CO6 == [q \in Q6 |-> CASE q \in {1, 2, 6} -> 1 [] q \in {3, 4} -> 2 [] OTHER -> 3]
====
