\* trace validation of graceful-stop scenarios (harness/src/c10_stop.rs): WebSocket connections 1 and 2 with calls {1,2} and {3,4},
\* HTTP connection 3 with call 5; call 6 is a third call on connection 1 (back-pressure scenario)
CONSTANTS
  Conns <- Cn3
  KindOf <- K3
  Calls <- Q6
  ConnOfCall <- CO6
  Limits = {10}
  MaxDepth = 0
  EmitCases = FALSE
  Hows = {"respond", "reset", "clientClose", "serverClose"}
  Dev = {}
  MaxSilent = 12
INIT TInit
NEXT TNext
VIEW TView
CONSTRAINT Progress
POSTCONDITION Accepted
INVARIANTS Inv_Bound Inv_Conservation Inv_StoppedImpliesAnswered Inv_StoppedImpliesAllConnTasksDone Inv_NothingExecutesAfterStopped
CHECK_DEADLOCK FALSE
