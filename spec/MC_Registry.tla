---- MODULE MC_Registry ----
EXTENDS Registry
====
