----------------------------- MODULE Goals_Client -----------------------------
(* Goal-directed scripts: instead of sampling behaviours (Gen_Client), TLC searches the bounded model breadth-first for     *)
(* states that satisfy a named coverage goal - a corner of the design that random drivers reach only by luck - and prints     *)
(* the environment script of the (shortest, via the VIEW) behaviour leading there.  The environment is kept small: it acts    *)
(* only when the client has no step of its own left, the peer answers what is waiting, pushes for live or given-up            *)
(* subscriptions and closes live ones.  The scripts are run against the real client and the recorded executions validated     *)
(* against Trace_Client.tla like all others.                                                                                  *)
EXTENDS Gen_Client

CONSTANTS StartOps,    \* operations the application may start in this search
          EnvAbandon,  \* may it give futures up
          EnvHold,     \* may the transport exert back-pressure
          Want         \* the goals this search is after (a state in which one of them holds is not expanded further)

SubReqs == {i \in Waiting : req[i].k = "psub"}
CallReqs == {i \in Waiting : req[i].k = "call"}
DTexts == {Resp(i, TRUE, s) : i \in SubReqs, s \in SubIds}
          \cup {Resp(i, TRUE, NoId) : i \in CallReqs}
          \cup {Notif(s) : s \in {x \in LiveSubs \cup LostDrops : pushed[x] < MaxPush}}
          \cup {CloseN(s) : s \in LiveSubs}
DStep ==
  \/ (FeNext \/ StreamInt \/ RtRecv \/ RtForward \/ OtherShut) /\ UNCHANGED held
  \/ SendTaskStep
  \/ /\ ~Busy
     /\ \/ (\E h \in StartOps : FeAlloc(h)) /\ UNCHANGED held
        \/ StreamPoll /\ UNCHANGED held
        \/ StreamLeave /\ UNCHANGED held
        \/ EnvAbandon /\ (\E h \in Ops : fe[h].st \in {"sent", "ready"} /\ FeAbandon(h)) /\ UNCHANGED held
        \/ FaultNext /\ UNCHANGED held
        \/ rt = "run" /\ (\E m \in DTexts : PeerSend(m)) /\ UNCHANGED held
        \/ EnvHold /\ held = "no" /\ st = "run" /\ held' = "armed" /\ UNCHANGED vars
  \/ held = "stuck" /\ held' = "no" /\ UNCHANGED vars
DNext == /\ Len(script) < ScriptLen
         /\ DStep
         /\ script' = script \o Lbl
GView == <<View, held>>
NotifAfterP(i, s) == \E j \in (i + 1)..Len(script) : script[j].op = "peer" /\ script[j].m.t = "notif" /\ script[j].m.sub = s
Consumed0 == inq = <<>> /\ fwd = <<>> /\ toBack = <<>> /\ held = "no"
DInit == GInit /\ \A i \in 11..18 : TLCSet(i, 0)
(* a state in which a goal holds is not expanded further *)
LagTwice == \E h, g \in Subs : h # g /\ stream[h].lagged /\ stream[g].lagged /\ stream[h].sub # NoId /\ stream[g].sub = stream[h].sub
                                 /\ unsubSent[stream[h].sub] >= 2
GoalHolds ==
  \/ ("lostDropThenPush" \in Want /\ Consumed0 /\ \E h \in Subs : \E i \in 1..Len(script) : script[i].op = "drop" /\ script[i].h = h /\ script[i].lost /\ NotifAfterP(i, stream[h].sub))
  \/ ("lagged" \in Want /\ Consumed0 /\ \E h \in Subs : stream[h].lagged /\ stream[h].sub # NoId /\ unsubSent[stream[h].sub] >= 1)
  \/ ("abandonThenAccept" \in Want /\ Consumed0 /\ \E h \in Subs : fe[h].st = "abandoned" /\ stream[h].sub # NoId /\ unsubSent[stream[h].sub] >= 1)
  \/ ("duplicateSubId" \in Want /\ Consumed0 /\ \E h \in Subs : fe[h].res = [k |-> "fail", why |-> "invalidSubId"])
  \/ ("lagTwiceSameId" \in Want /\ Consumed0 /\ LagTwice)
Prune == ~GoalHolds

(* each goal is emitted a few times only (a TLC register per goal and worker counts them), for different states reaching it *)
GoalNo(name) == CASE name = "lostDropThenPush" -> 11 [] name = "lagged" -> 12 [] name = "abandonThenAccept" -> 13
                  [] name = "sendErrOnUnsub" -> 14 [] name = "closeThenLeave" -> 15 [] name = "duplicateSubId" -> 16 [] name = "reuseThenDropEnded" -> 17
                  [] name = "lagTwiceSameId" -> 18
PerGoal == 3
Emit(name) == IF TLCGet(GoalNo(name)) < PerGoal
                THEN TLCSet(GoalNo(name), TLCGet(GoalNo(name)) + 1) /\ PrintT(<<"REPLAY", ToJson([goal |-> name, script |-> script])>>)
                ELSE TRUE
Consumed == inq = <<>> /\ fwd = <<>> /\ toBack = <<>> /\ held = "no"
NotifAfter(i, s) == \E j \in (i + 1)..Len(script) : script[j].op = "peer" /\ script[j].m.t = "notif" /\ script[j].m.sub = s
(* a stream dropped while the front->back queue was full (the close request is lost), and a later push for it consumed *)
G_LostDropThenPush ==
  (Consumed /\ \E h \in Subs : \E i \in 1..Len(script) :
      script[i].op = "drop" /\ script[i].h = h /\ script[i].lost /\ NotifAfter(i, stream[h].sub)) => Emit("lostDropThenPush")
(* a consumer that fell behind: the stream is closed as lagged and the unsubscribe is written *)
G_Lagged == (Consumed /\ \E h \in Subs : stream[h].lagged /\ stream[h].sub # NoId /\ unsubSent[stream[h].sub] >= 1) => Emit("lagged")
(* the subscribe caller gave up before the accept arrived, and the subscription was cancelled again *)
G_AbandonThenAccept == (Consumed /\ \E h \in Subs : fe[h].st = "abandoned" /\ stream[h].sub # NoId /\ unsubSent[stream[h].sub] >= 1) => Emit("abandonThenAccept")
(* the transport fails exactly when an unsubscribe is written *)
G_SendErrOnUnsub == (st = "done" /\ rt = "done" /\ ~mgrAlive /\ stRes = [k |-> "err", e |-> "sendErr"] /\ (\A x \in seen : x.k # "unsub")
                     /\ \E i \in 1..Len(script) : /\ script[i].op = "fault" /\ script[i].f = "sendErr"
                                                  /\ \E j \in (i + 1)..Len(script) : script[j].op \in {"drop", "unsub"}
                                                  /\ \A j \in (i + 1)..Len(script) : script[j].op # "start") => Emit("sendErrOnUnsub")
(* the server closes a subscription the application then unsubscribes / drops: no unsubscribe for an id that is gone *)
G_CloseThenLeave == (Consumed /\ \E h \in Subs : h \in closeSeen /\ stream[h].rx \in {"dropped", "ended", "gone"} /\ stream[h].sub # NoId
                     /\ \E i \in 1..Len(script) : script[i].op \in {"drop", "unsub"} /\ script[i].h = h) => Emit("closeThenLeave")
(* the server closes a subscription and gives its id to the next one; then the application lets go of the ended handle *)
G_ReuseThenDropEnded == (Consumed /\ \E h, g \in Subs : h # g /\ stream[h].rx = "gone" /\ stream[g].sub = stream[h].sub /\ stream[g].tx
                         /\ \E i \in 1..Len(script) : script[i].op = "dropEnded" /\ script[i].h = h
                                /\ \E j \in 1..(i - 1) : script[j].op = "peer" /\ script[j].m.t = "resp" /\ script[j].m.sub = stream[h].sub /\ script[j].m.id = fe[g].id)
                        => Emit("reuseThenDropEnded")
(* the server gives the id of a subscription that was closed for lagging to the next one, and that one falls behind too: the  *)
(* client writes an unsubscribe for each of them                                                                              *)
G_LagTwiceSameId == (Consumed /\ LagTwice) => Emit("lagTwiceSameId")
(* two subscriptions are given the same id by the server *)
G_DuplicateSubId == (Consumed /\ \E h \in Subs : fe[h].res = [k |-> "fail", why |-> "invalidSubId"]) => Emit("duplicateSubId")
=============================================================================
