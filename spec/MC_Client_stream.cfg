\* C05 quick: one subscription, buffer 1, pushes singly and in arrays of <= 2 (notifications, closes), consumer next/unsubscribe/drop anywhere
CONSTANTS
  Ops <- Ops1
  Kind <- K_1sub
  BatchN <- N1
  MaxQueue = 2
  BufCap = 1
  SubIds = {1}
  Dev = {}
  PeerMenu = {"resp", "notif", "close", "array"}
  MaxPeer = 5
  MaxPush = 3
  Faults = {}
  MaxFaults = 1
  RespShapes <- RS_sub1
  Abandon = FALSE
  MaxArr = 2
  ArrMenu = {"notif", "close"}
INIT Init
NEXT Next
VIEW View
INVARIANTS Inv_Route Inv_IdsUnique Inv_EndsOnClose Inv_Positional Inv_StreamOrdered Inv_LaggedEnds Inv_UnsubAtMostOnce Inv_NoPlaceholder Inv_SameCause Inv_NoPanic Inv_DisconnectedAfterFailure Inv_QuiescentEmpty Inv_IndexConsistent
CHECK_DEADLOCK FALSE
