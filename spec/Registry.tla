------------------------------ MODULE Registry ------------------------------
(* C13 - RpcModule / Methods as a map from names to handlers (core/src/server/rpc_module.rs:213-278, 575-1052). *)
(* mods[m][n] is the handler tag bound to name n in module value m, or NoH.  A tag names the registration that  *)
(* created the handler: [k |-> kind, n |-> name it was registered under, o |-> module it was registered on].     *)
(* One action per public call; every failing call must leave `mods` unchanged (atomicity), every call on module *)
(* m must leave every other module value unchanged (clone isolation).                                            *)
EXTENDS Naturals, Sequences, FiniteSets, TLC, Json

CONSTANTS Names, Mods, Active, MaxDepth, EmitCases
\* Mods: module slots; Active \subseteq Mods: slots that receive register/remove/alias calls (the others are clone targets)
NoH == [k |-> "none", n |-> "", o |-> 0, g |-> 0]
Tag(k, n, o) == [k |-> k, n |-> n, o |-> o, g |-> 0]

VARIABLES mods, path
vars == <<mods, path>>
View == mods

Init == mods = [m \in Mods |-> [n \in Names |-> NoH]] /\ path = <<>>

Bound(m) == {n \in Names : mods[m][n] # NoH}

Emit(op, res) ==
  EmitCases => PrintT(<<"REPLAY", ToJson([path |-> path, op |-> op, res |-> res, post |-> mods'])>>)

Do(op, res, newmods) ==
  /\ Len(path) <= MaxDepth
  /\ mods' = newmods
  /\ path' = Append(path, [op |-> op, res |-> res, post |-> newmods])
  /\ Emit(op, res)                                \* one case per transition: a shortest path to the pre-state + this call

(* register_method / register_async_method / register_blocking_method : rpc_module.rs:575-684 -> verify_and_insert :235-244 *)
RegMethod(m, n) ==
  LET op == [o |-> "reg", m |-> m, n |-> n] IN
  IF n \in Bound(m) THEN Do(op, "err", mods)
  ELSE Do(op, "ok", [mods EXCEPT ![m][n] = Tag("method", n, m)])

(* register_subscription(_raw) : rpc_module.rs:780-957 -> verify_and_register_unsubscribe :979-1033 *)
RegSub(m, s, u) ==
  LET op == [o |-> "sub", m |-> m, n |-> s, u |-> u] IN
  IF s = u \/ s \in Bound(m) \/ u \in Bound(m) THEN Do(op, "err", mods)
  ELSE LET gen == Cardinality({i \in 1..Len(path) : path[i].op.o = "sub" /\ path[i].res = "ok" /\ path[i].op.n = s /\ path[i].op.m = m})
       IN  \* the two halves of one registration share a subscriber table: `g` tells re-registrations of the same name apart
           Do(op, "ok", [mods EXCEPT ![m][s] = [Tag("sub", s, m) EXCEPT !.g = gen], ![m][u] = [Tag("unsub", s, m) EXCEPT !.g = gen]])

(* register_alias : rpc_module.rs:1036-1052 *)
Alias(m, a, e) ==
  LET op == [o |-> "alias", m |-> m, n |-> a, u |-> e] IN
  IF a \in Bound(m) \/ e \notin Bound(m) THEN Do(op, "err", mods)
  ELSE Do(op, "ok", [mods EXCEPT ![m][a] = mods[m][e]])

(* Methods::merge : rpc_module.rs:253-267 (the argument is a clone of module o, so o itself stays) *)
Merge(m, o) ==
  LET op == [o |-> "merge", m |-> m, u |-> o] IN
  IF Bound(m) \cap Bound(o) # {} THEN Do(op, "err", mods)
  ELSE Do(op, "ok", [mods EXCEPT ![m] = [n \in Names |-> IF n \in Bound(o) THEN mods[o][n] ELSE mods[m][n]]])

(* remove_method : rpc_module.rs:599-601 *)
Remove(m, n) ==
  LET op == [o |-> "remove", m |-> m, n |-> n] IN
  IF n \in Bound(m) THEN Do(op, "some", [mods EXCEPT ![m][n] = NoH]) ELSE Do(op, "none", mods)

(* Clone: slot t is overwritten by a clone of m *)
CloneTo(m, t) == Do([o |-> "clone", m |-> m, u |-> t], "ok", [mods EXCEPT ![t] = mods[m]])

Next == \/ \E m \in Active, n \in Names : RegMethod(m, n) \/ Remove(m, n)
        \/ \E m \in Active, s, u \in Names : RegSub(m, s, u) \/ Alias(m, s, u)
        \/ \E m \in Active, o \in Mods : m # o /\ Merge(m, o)
        \/ \E m \in Active, t \in Mods \ Active : CloneTo(m, t)
Spec == Init /\ [][Next]_vars

-----------------------------------------------------------------------------
LastStep == path[Len(path)]
Prev == IF Len(path) = 1 THEN [m \in Mods |-> [n \in Names |-> NoH]] ELSE path[Len(path) - 1].post
(* these are checked on every state as predicates over the last recorded step *)
Inv_FailedOpIsNoOp == path # <<>> /\ LastStep.res \in {"err", "none"} => LastStep.post = Prev
Inv_OnlyTargetChanges ==
  path # <<>> => \A m \in Mods : (m # (IF LastStep.op.o = "clone" THEN LastStep.op.u ELSE LastStep.op.m)) => LastStep.post[m] = Prev[m]
Inv_SuccessAddsExactly ==
  path # <<>> /\ LastStep.res = "ok" /\ LastStep.op.o \in {"reg", "sub", "alias"} =>
     LET m == LastStep.op.m
         added == {n \in Names : LastStep.post[m][n] # Prev[m][n]}
     IN  /\ added = (IF LastStep.op.o = "sub" THEN {LastStep.op.n, LastStep.op.u} ELSE {LastStep.op.n})
         /\ \A n \in added : Prev[m][n] = NoH
Inv_UnsubNeverWithoutOrigin ==   \* an unsubscribe handler only ever exists next to, or after, the registration that created it
  \A m \in Mods, n \in Names : mods[m][n].k \in {"method", "sub", "unsub", "none"}
=============================================================================
