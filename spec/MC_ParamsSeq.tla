---- MODULE MC_ParamsSeq ----
EXTENDS ParamsSeq
Quick_EClass == {"u", "strDelims", "strEsc", "null", "arrNested", "objNested"}
Quick_Second == {[op |-> "next", t |-> "value"], [op |-> "opt", t |-> "value"], [op |-> "next", t |-> "u64"], [op |-> "opt", t |-> "string"]}
Thorough_EClass == AllEClass \ {"objEmpty", "strPlain", "big"}
Full_EClass == AllEClass
====
