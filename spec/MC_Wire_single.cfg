\* C01: every object over the member-class alphabet (4 x 5 x 10 x 7 x 2 x 3 = 8400) + non-object texts.
CONSTANTS Mode = "single"  MaxBatch = 0  EmitCases = TRUE
INIT Init
NEXT Next
INVARIANTS Meta_AtMostOneReply Meta_SilentOnlyIfNotification Meta_OwnIdWheneverRecoverable Meta_SameOnBothTransports Meta_HandlerOnlyForValidCall Emit
CHECK_DEADLOCK FALSE
