--------------------------- MODULE Trace_ServerSubs ---------------------------
(* Trace validation of the real server's subscription machinery against ServerSubs.tla (C04).                          *)
(* Handlers run concurrently on a multi-threaded runtime; the harness logs, under one mutex, what it does and sees:     *)
(*   peer side : SendSub{k}  SendUnsub{c,k}  Recv{c,f}  PeerClose{c}  Stop{c}  Eof{c}                                 *)
(*   handlers  : HStart{k}  HAcceptStart/End{k,ok}  HReject{k}  HDropPending{k}  HSendStart/End{k,n,ok}               *)
(*               HClone{k}  HDropSink{k}  HIsClosed{k,b}  HReturn{k,closing}                                          *)
(* State changes inside library code without a lock visible to the harness (the permit acquisition, accept's enqueue   *)
(* and table insert, send's check and enqueue, the unsubscribe callback, the writer, the server noticing a closed      *)
(* connection) are silent actions placed between the logged start and end of the call that causes them.               *)
EXTENDS ServerSubs, IOUtils

CONSTANTS MaxSilent
Rec == ndJsonDeserialize(IOEnv.TRACE)

VARIABLES l, silent,
          asked,     \* subscribe calls the peer has sent
          accw,      \* [SubOps -> {"no","open","done"}] accept call in progress
          sendw,     \* [SubOps -> {"no","open","done"}] send call in progress, and its result
          sendr,     \* [SubOps -> result of the send performed inside the window]
          unsubq,    \* multiset (sequence) of unsubscribe calls sent by the peer, not yet executed: <<c, k>>
          closing,   \* connections whose peer has closed / that were told to stop, not yet noticed by the server
          recvd,     \* [Conns -> Nat] frames of wire[c] the peer has received
          retq,      \* handlers that returned a closing value whose notification is not yet enqueued
          rejq,      \* handlers that have called reject(): the error answer and the permit follow
          dropq,     \* handlers that are dropping their pending sink
          errq,      \* answers decided but not yet handed to their connection's queue: set of [c, m]
          acq,       \* subscribe calls whose permit was taken (rpc.rs:107-132) while the handler has not logged its start yet
          stoppedC,  \* connections for which `stopped()` has resolved
          dropw      \* [SubOps -> Nat] sinks whose drop was announced (the log line precedes the drop) and has not taken effect yet
tvars == <<vars, l, silent, asked, accw, sendw, sendr, unsubq, closing, recvd, retq, rejq, dropq, errq, acq, dropw, stoppedC>>
aux == <<asked, accw, sendw, sendr, unsubq, closing, recvd, retq, rejq, dropq, errq, acq, dropw, stoppedC>>

Ev(name) == l <= Len(Rec) /\ Rec[l].ev = name /\ l' = l + 1 /\ silent' = 0
E == Rec[l]

TInit == /\ Init /\ l = 1 /\ silent = 0 /\ asked = {} /\ accw = [k \in SubOps |-> "no"] /\ sendw = [k \in SubOps |-> "no"]
         /\ sendr = [k \in SubOps |-> "none"] /\ unsubq = <<>> /\ closing = {} /\ recvd = [c \in Conns |-> 0] /\ retq = {} /\ rejq = {} /\ dropq = {} /\ errq = {} /\ acq = {} /\ dropw = [k \in SubOps |-> 0] /\ stoppedC = {}
         /\ TLCSet(1, 0)

T_Reset == /\ Ev("Reset")
           /\ cap' = E.cap /\ permits' = [c \in Conns |-> E.cap] /\ sub' = [k \in SubOps |-> NoSub] /\ table' = {}
           /\ open' = [c \in Conns |-> TRUE] /\ queue' = [c \in Conns |-> <<>>] /\ wire' = [c \in Conns |-> <<>>] /\ path' = <<>>
           /\ asked' = {} /\ accw' = [k \in SubOps |-> "no"] /\ sendw' = [k \in SubOps |-> "no"] /\ sendr' = [k \in SubOps |-> "none"]
           /\ unsubq' = <<>> /\ closing' = {} /\ recvd' = [c \in Conns |-> 0] /\ retq' = {} /\ rejq' = {} /\ dropq' = {} /\ errq' = {} /\ acq' = {} /\ dropw' = [k \in SubOps |-> 0] /\ stoppedC' = {}

Stutter == UNCHANGED vars
T_SendSub == Ev("SendSub") /\ asked' = asked \cup {E.k} /\ Stutter /\ UNCHANGED <<accw, sendw, sendr, unsubq, closing, recvd, retq, rejq, dropq, errq, acq, dropw, stoppedC>>
T_SendUnsub == Ev("SendUnsub") /\ unsubq' = Append(unsubq, <<E.c, E.k>>) /\ Stutter /\ UNCHANGED <<asked, accw, sendw, sendr, closing, recvd, retq, rejq, dropq, errq, acq, dropw, stoppedC>>
T_PeerClose == (Ev("PeerClose") \/ Ev("Stop")) /\ closing' = closing \cup {E.c} /\ Stutter /\ UNCHANGED <<asked, accw, sendw, sendr, unsubq, recvd, retq, rejq, dropq, errq, acq, dropw, stoppedC>>

(* the handler of k logs its start.  Its permit was taken before, in the middleware (rpc.rs:107-132), possibly a while ago: *)
(* another subscribe on the connection can be refused in between (S_Acquire below).                                         *)
T_HStart == /\ Ev("HStart") /\ E.k \in asked
            /\ \/ /\ E.k \in acq /\ Stutter /\ acq' = acq \ {E.k}
               \/ /\ E.k \notin acq /\ Subscribe(E.k) /\ sub'[E.k].st = "pending" /\ UNCHANGED acq
            /\ UNCHANGED <<asked, accw, sendw, sendr, unsubq, closing, recvd, retq, rejq, dropq, errq, dropw, stoppedC>>

T_HAcceptStart == Ev("HAcceptStart") /\ accw[E.k] = "no" /\ accw' = [accw EXCEPT ![E.k] = "open"] /\ Stutter
                  /\ UNCHANGED <<asked, sendw, sendr, unsubq, closing, recvd, retq, rejq, dropq, errq, acq, dropw, stoppedC>>
T_HAcceptEnd == /\ Ev("HAcceptEnd") /\ accw[E.k] = "done" /\ accw' = [accw EXCEPT ![E.k] = "closed"] /\ Stutter
                /\ (E.ok <=> sub[E.k].st = "accepted")
                /\ UNCHANGED <<asked, sendw, sendr, unsubq, closing, recvd, retq, rejq, dropq, errq, acq, dropw, stoppedC>>
T_HReject == Ev("HReject") /\ sub[E.k].st = "pending" /\ E.k \notin rejq /\ rejq' = rejq \cup {E.k} /\ Stutter
             /\ UNCHANGED <<asked, accw, sendw, sendr, unsubq, closing, recvd, retq, dropq, errq, acq, dropw, stoppedC>>
T_HDropPending == Ev("HDropPending") /\ sub[E.k].st = "pending" /\ dropq' = dropq \cup {E.k} /\ Stutter
                  /\ UNCHANGED <<asked, accw, sendw, sendr, unsubq, closing, recvd, retq, rejq, errq, acq, dropw, stoppedC>>

T_HSendStart == Ev("HSendStart") /\ sendw[E.k] \in {"no"} /\ sendw' = [sendw EXCEPT ![E.k] = "open"] /\ Stutter
                /\ UNCHANGED <<asked, accw, sendr, unsubq, closing, recvd, retq, rejq, dropq, errq, acq, dropw, stoppedC>>
T_HSendEnd == /\ Ev("HSendEnd") /\ sendw[E.k] = "done" /\ sendw' = [sendw EXCEPT ![E.k] = "no"] /\ Stutter
              /\ sendr[E.k] = (IF E.ok THEN "ok" ELSE "err")
              /\ UNCHANGED <<asked, accw, sendr, unsubq, closing, recvd, retq, rejq, dropq, errq, acq, dropw, stoppedC>>
T_HClone == Ev("HClone") /\ SinkClone(E.k) /\ UNCHANGED aux
(* the harness logs a sink drop BEFORE it drops (afterwards would be too late: the table may change at once); the effect -  *)
(* entry removed, permit back - follows as a silent step                                                                 *)
T_HDropSink == /\ Ev("HDropSink") /\ Stutter /\ dropw' = [dropw EXCEPT ![E.k] = @ + 1]
               /\ UNCHANGED <<asked, accw, sendw, sendr, unsubq, closing, recvd, retq, rejq, dropq, errq, acq, stoppedC>>
(* is_closed is a racy read: it may lag behind a close that is in flight, but it may never report closed when nothing closed it *)
(* `stopped()` of the connection's stop handle has resolved: the connection is over *)
T_ConnStopped == /\ Ev("ConnStopped") /\ Stutter /\ ~open[E.c] /\ stoppedC' = stoppedC \cup {E.c}
                 /\ UNCHANGED <<asked, accw, sendw, sendr, unsubq, closing, recvd, retq, rejq, dropq, errq, acq, dropw>>
(* a send that was not refused as closed although the connection has been reported stopped: never explainable *)
T_HIsClosed == /\ Ev("HIsClosed") /\ Stutter /\ UNCHANGED aux
               /\ (ConnOf[E.k] \in stoppedC => E.b)         \* once `stopped` has resolved the sink must say closed - no lag allowed any more
               /\ (E.b => Closed(E.k) \/ ConnOf[E.k] \in closing \/ \E i \in 1..Len(unsubq) : unsubq[i][2] = E.k)
               /\ (~E.b => ~Closed(E.k) \/ TRUE)
T_HReturn == /\ Ev("HReturn") /\ HandlerReturnNoEnq(E.k) /\ retq' = IF E.closing THEN retq \cup {E.k} ELSE retq
             /\ UNCHANGED <<asked, accw, sendw, sendr, unsubq, closing, recvd, rejq, dropq, errq, acq, dropw, stoppedC>>

(* a frame arrives at the peer: it is the next one the writer put on that connection's wire *)
FrameMatches(w, f) ==
  CASE f.t = "resp" -> w.t = "resp" /\ w.k = f.k
    [] f.t = "err" -> w.t = "err" /\ w.k = f.k /\ w.code = f.code
    [] f.t = "notif" -> w.t = "notif" /\ w.k = f.k /\ w.n = f.n
    [] f.t = "close" -> w.t = "close" /\ w.k = f.k
    [] f.t = "unsubResp" -> w.t = "unsubResp" /\ w.k = f.k /\ w.v = f.v
    [] OTHER -> FALSE
T_Recv == /\ Ev("Recv") /\ Stutter
          /\ recvd[E.c] < Len(wire[E.c]) /\ FrameMatches(wire[E.c][recvd[E.c] + 1], E.f)
          /\ recvd' = [recvd EXCEPT ![E.c] = @ + 1]
          /\ UNCHANGED <<asked, accw, sendw, sendr, unsubq, closing, retq, rejq, dropq, errq, acq, dropw, stoppedC>>
(* end of stream at the peer: everything the writer sent has been received *)
T_Eof == Ev("Eof") /\ Stutter /\ ~open[E.c] /\ recvd[E.c] = Len(wire[E.c]) /\ UNCHANGED aux
T_EofPeerClosed == Ev("EofPeerClosed") /\ Stutter /\ UNCHANGED aux     \* the peer hung up itself: it may not have read everything
T_End == Ev("End") /\ Stutter /\ UNCHANGED aux /\ \A k \in SubOps : sendw[k] = "no" /\ accw[k] \in {"no", "closed"} /\ dropw[k] = 0

(* ---- silent steps ---- *)
RemoveAt(s, i) == [j \in 1..(Len(s) - 1) |-> IF j < i THEN s[j] ELSE s[j + 1]]
S_Acquire == \E k \in asked \ acq : /\ Subscribe(k) /\ sub'[k].st = "pending" /\ acq' = acq \cup {k}
                                    /\ UNCHANGED <<asked, accw, sendw, sendr, unsubq, closing, recvd, retq, rejq, dropq, errq, dropw, stoppedC>>
S_SinkDrop == \E k \in SubOps : /\ dropw[k] > 0 /\ SinkDrop(k) /\ dropw' = [dropw EXCEPT ![k] = @ - 1]
                                /\ UNCHANGED <<asked, accw, sendw, sendr, unsubq, closing, recvd, retq, rejq, dropq, errq, acq, stoppedC>>
S_Refuse == \E k \in asked : /\ SubscribeRefuseNoEnq(k)
                              /\ errq' = errq \cup {[c |-> ConnOf[k], m |-> [t |-> "err", k |-> k, code |-> -32006]]}
                              /\ UNCHANGED <<asked, accw, sendw, sendr, unsubq, closing, recvd, retq, rejq, dropq, acq, dropw, stoppedC>>
S_Accept == \E k \in SubOps : /\ accw[k] = "open" /\ Accept(k) /\ accw' = [accw EXCEPT ![k] = "done"]
                              /\ UNCHANGED <<asked, sendw, sendr, unsubq, closing, recvd, retq, rejq, dropq, errq, acq, dropw, stoppedC>>
S_AcceptInsert == \E k \in SubOps : AcceptInsert(k) /\ UNCHANGED aux
S_SendCheck == \E k \in SubOps : /\ sendw[k] = "open" /\ SendCheck(k)
                                 /\ IF sub'[k].chk = "passed" THEN sendw' = [sendw EXCEPT ![k] = "checked"] /\ UNCHANGED sendr
                                    ELSE sendw' = [sendw EXCEPT ![k] = "done"] /\ sendr' = [sendr EXCEPT ![k] = "err"]
                                 /\ UNCHANGED <<asked, accw, unsubq, closing, recvd, retq, rejq, dropq, errq, acq, dropw, stoppedC>>
S_SendEnq == \E k \in SubOps : /\ sendw[k] = "checked" /\ SendEnqueue(k) /\ sendw' = [sendw EXCEPT ![k] = "done"]
                               /\ sendr' = [sendr EXCEPT ![k] = path'[Len(path')].res]
                               /\ UNCHANGED <<asked, accw, unsubq, closing, recvd, retq, rejq, dropq, errq, acq, dropw, stoppedC>>
S_Unsub == \E i \in 1..Len(unsubq) :
             LET c == unsubq[i][1]  k == unsubq[i][2]  hit == k \in table /\ ConnOf[k] = c IN
             /\ UnsubNoEnq(c, k) /\ unsubq' = RemoveAt(unsubq, i)
             /\ errq' = errq \cup {[c |-> c, m |-> [t |-> "unsubResp", k |-> k, v |-> hit]]}
             /\ UNCHANGED <<asked, accw, sendw, sendr, closing, recvd, retq, rejq, dropq, acq, dropw, stoppedC>>
S_ConnClose == \E c \in closing : ConnCloseKeepQueue(c) /\ closing' = closing \ {c} /\ UNCHANGED <<asked, accw, sendw, sendr, unsubq, recvd, retq, rejq, dropq, errq, acq, dropw, stoppedC>>
S_Writer == \E c \in Conns : WriterSend(c) /\ UNCHANGED aux
S_CloseNotif == \E k \in retq : /\ CloseEnqueue(k) /\ retq' = retq \ {k} /\ UNCHANGED <<asked, accw, sendw, sendr, unsubq, closing, recvd, rejq, dropq, errq, acq, dropw, stoppedC>>
S_Reject == \E k \in rejq : RejectEnqueue(k) /\ UNCHANGED aux
S_RejectRelease == \E k \in rejq : RejectRelease(k) /\ rejq' = rejq \ {k} /\ UNCHANGED <<asked, accw, sendw, sendr, unsubq, closing, recvd, retq, dropq, errq, acq, dropw, stoppedC>>
S_DropPending == \E k \in dropq : DropPendingNoEnq(k) /\ dropq' = dropq \ {k}
                                   /\ errq' = errq \cup {[c |-> ConnOf[k], m |-> [t |-> "err", k |-> k, code |-> -32603]]}
                                   /\ UNCHANGED <<asked, accw, sendw, sendr, unsubq, closing, recvd, retq, rejq, acq, dropw, stoppedC>>
S_ErrEnq == \E r \in errq : ReplyEnqueue(r.c, r.m) /\ errq' = errq \ {r} /\ UNCHANGED <<asked, accw, sendw, sendr, unsubq, closing, recvd, retq, rejq, dropq, acq, dropw, stoppedC>>
Silent == /\ silent < MaxSilent /\ silent' = silent + 1 /\ l' = l /\ l <= Len(Rec)
          /\ (S_Acquire \/ S_SinkDrop \/ S_Refuse \/ S_Accept \/ S_AcceptInsert \/ S_SendCheck \/ S_SendEnq \/ S_Unsub \/ S_ConnClose \/ S_Writer \/ S_CloseNotif \/ S_Reject \/ S_RejectRelease \/ S_DropPending \/ S_ErrEnq)

TNext == T_Reset \/ T_SendSub \/ T_SendUnsub \/ T_PeerClose \/ T_HStart \/ T_HAcceptStart \/ T_HAcceptEnd \/ T_HReject \/ T_HDropPending
         \/ T_ConnStopped \/ T_HSendStart \/ T_HSendEnd \/ T_HClone \/ T_HDropSink \/ T_HIsClosed \/ T_HReturn \/ T_Recv \/ T_Eof \/ T_EofPeerClosed \/ T_End \/ Silent

Progress == TLCSet(1, IF l > TLCGet(1) THEN l ELSE TLCGet(1))
Accepted == IF TLCGet(1) = Len(Rec) + 1 THEN TRUE
            ELSE /\ PrintT(<<"UNMATCHED", TLCGet(1), ToJson(Rec[TLCGet(1)])>>) /\ FALSE
TView == <<View, l, silent, asked, accw, sendw, sendr, unsubq, closing, recvd, retq, rejq, dropq, errq, acq, dropw, stoppedC>>
=============================================================================
