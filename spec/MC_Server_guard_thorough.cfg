\* C11 thorough: 2 HTTP requests and 2 WebSocket sessions against limits 0..3; every driver-step sequence of length <= 7
CONSTANTS
  Conns <- Cn4
  KindOf <- K4
  Calls <- NoCalls
  ConnOfCall <- NoConnOf
  Limits = {0, 1, 2, 3}
  MaxDepth = 8
  EmitCases = TRUE
  Hows = {"respond", "reset", "clientClose", "serverClose"}
  Dev = {}
INIT Init
NEXT NextGuard
VIEW View
INVARIANTS Inv_Bound Inv_Conservation
CHECK_DEADLOCK FALSE
