\* C12: every reply of length <= 4 over the ids S-1..S+n for batches of n <= 3
CONSTANTS MaxN = 3 MaxReply = 4 EmitCases = TRUE
INIT Init
NEXT Next
INVARIANTS Inv_StrictIsAcceptable Emit
CHECK_DEADLOCK FALSE
