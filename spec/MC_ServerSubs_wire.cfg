\* C04 serialised replay: 2 connections, 3 subscribe calls, caps 1..2, one extra sink clone, <= 2 notifications per subscription,
\* every driver-call sequence of length <= MaxDepth taken when the writers have drained; the frames each peer must have received
\* are emitted with every case
CONSTANTS
  Conns <- C2
  SubOps <- S3
  ConnOf <- ConnOf3
  Caps = {1, 2}
  MaxClones = 1
  MaxDepth = 5
  QueueCap = 8
  MaxSends = 2
  Dev = {}
  EmitCases = TRUE
INIT Init
NEXT NextSerial
VIEW View
INVARIANTS Inv_Cap Inv_PermitConservation Inv_TableExact Inv_ResponseBeforeNotifs Inv_PerSubFifo Inv_OwnConnection Inv_CloseAtMostOnceAndOnlyIfAccepted Inv_NoNotifsUnlessAccepted
CHECK_DEADLOCK FALSE
