----------------------------- MODULE ClientGroups -----------------------------
(* operation sets of the scenario groups of harness/src/client_scen.rs - one source for the trace-validation      *)
(* configs (MC_Trace_Client / TC_*.cfg) and for the script generator (Gen_Client / GC_*.cfg)                      *)
G_route_Ops == {"a", "b", "c", "d"}
G_route_Kind == [h \in G_route_Ops |-> IF h = "d" THEN "sub" ELSE "call"]
G_route_N == [h \in G_route_Ops |-> 1]
G_stream_Ops == {"a", "b", "c"}
G_stream_Kind == [h \in G_stream_Ops |-> IF h = "c" THEN "call" ELSE "sub"]
G_stream_N == [h \in G_stream_Ops |-> 1]
G_tight_Ops == {"a", "b", "c", "d"}
G_tight_Kind == [h \in G_tight_Ops |-> IF h \in {"a", "b"} THEN "sub" ELSE "call"]
G_tight_N == [h \in G_tight_Ops |-> 1]
G_batch_Ops == {"a", "b", "c"}
G_batch_Kind == [h \in G_batch_Ops |-> IF h = "c" THEN "call" ELSE "batch"]
G_batch_N == [h \in G_batch_Ops |-> IF h = "a" THEN 3 ELSE 2]
G_mixed_Ops == {"a", "b", "c", "d"}
G_mixed_Kind == [h \in G_mixed_Ops |-> CASE h = "a" -> "call" [] h = "c" -> "batch" [] OTHER -> "sub"]
G_mixed_N == [h \in G_mixed_Ops |-> 2]
G_faulty_Ops == {"a", "b", "c", "d"}
G_faulty_Kind == [h \in G_faulty_Ops |-> CASE h = "b" -> "sub" [] h = "c" -> "batch" [] OTHER -> "call"]
G_faulty_N == [h \in G_faulty_Ops |-> 2]
=============================================================================
