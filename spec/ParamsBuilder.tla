------------------------------ MODULE ParamsBuilder ------------------------------
(* C20 - ArrayParams / ObjectParams / BatchRequestBuilder and the one-shot ToRpcParams constructors.       *)
(* Code: core/src/params.rs:55-127 (ParamsBuilder: maybe_initialize, insert, insert_named, build),        *)
(*       core/src/params.rs:130-259 (wrappers, batch builder), core/src/traits.rs:82-140 (blanket impls), *)
(*       core/src/client/mod.rs:216-235 (rpc_params!).                                                    *)
(* One action per public call.  `buf` abstracts the byte buffer: "empty" (no bytes), "clean" (start token  *)
(* followed by complete `value,` groups), "junk" (ends in bytes of a value whose serialisation failed).   *)
EXTENDS Naturals, Sequences, TLC, Json

CONSTANTS MaxOps,            \* bound on the number of insert calls of one behaviour
          TruncateOnError,   \* TRUE: design (a failed insert restores the buffer); FALSE: tree before the F15 fix
          EmitCases          \* TRUE: print one REPLAY line per finished behaviour

VClass == {"scalar", "str", "nested", "emptyc"}   \* values that serialise
FClass == {"f0", "fmid", "fend"}                  \* Serialize impls that fail after 0 / some / all-but-the-closing bytes
Kinds  == {"array", "object"}
Ctors  == {"tuple", "vec", "slice", "array", "map", "macro", "batch"}
MaxArity == 16

VARIABLES kind, items, buf, attempted, hist, phase, out
vars == <<kind, items, buf, attempted, hist, phase, out>>

None == [k |-> "none"]
Some(s) == [k |-> "some", items |-> s]
Panic == [k |-> "panic"]

InitBuilder == /\ kind \in Kinds /\ items = <<>> /\ buf = "empty" /\ attempted = FALSE
               /\ hist = <<>> /\ phase = "open" /\ out = None

(* one-shot constructors: n values of one class each, serialised in one go; expected result stated directly *)
(* `after`: what the calling thread did just before - nothing, or a one-shot conversion (tuple / Vec / slice / array) whose    *)
(* Serialize failed after 0 / some / all-but-the-closing bytes.  The constructors are stateless by design: the failed one      *)
(* reports an error, the measured one is not affected.                                                                        *)
Afters == {<<>>} \cup {<<c, f>> : c \in {"tuple", "vec", "slice", "array"}, f \in FClass}
CtorCases == [c : Ctors \ {"tuple"}, n : 0..3, after : Afters] \cup [c : {"tuple"}, n : 1..MaxArity, after : {<<>>}]
             \cup [c : {"tuple"}, n : 1..3, after : Afters]
InitCtor == /\ kind = "ctor" /\ buf = "clean" /\ attempted = FALSE /\ phase = "built"
            /\ \E cc \in CtorCases :
                 /\ hist = <<[op |-> "ctor", c |-> cc.c, n |-> cc.n, after |-> cc.after]>>
                 /\ items = [i \in 1..cc.n |-> "scalar"]
                 /\ out = CASE cc.c = "macro" /\ cc.n = 0 -> None                  \* rpc_params![] = empty builder
                            [] cc.c = "batch" /\ cc.n = 0 -> [k |-> "emptybatch"]  \* EmptyBatchRequest
                            [] OTHER -> Some([i \in 1..cc.n |-> "scalar"])

Init == InitBuilder \/ InitCtor

(* core/src/params.rs:100-108 (insert) and :88-98 (insert_named) - success path *)
(* Named inserts also choose the member name: "fresh" - a name not used before in this history, "again" - the name of the   *)
(* history's first insert (so three inserts can hit one name).  The statement asks for "the same key/value pairs"; for a      *)
(* repeated name the tree writes both members, another reading keeps the last - every reading agrees on what the object is    *)
(* when parsed as a map (the last successfully inserted value of each name), and that is what the replay demands.             *)
Names(k) == IF k = "object" /\ hist # <<>> THEN {"fresh", "again"} ELSE {"fresh"}
Insert(v, nm) ==
  /\ phase = "open" /\ Len(hist) < MaxOps /\ nm \in Names(kind)
  /\ attempted' = TRUE
  /\ IF buf = "junk"
       THEN /\ buf' = "junk" /\ items' = items     \* bytes appended after junk; nothing meaningful can be said
       ELSE /\ buf' = "clean" /\ items' = Append(items, v)
  /\ hist' = Append(hist, [op |-> "ins", v |-> v, res |-> "ok", nm |-> nm])
  /\ UNCHANGED <<kind, phase, out>>

(* the same calls when `to_writer` returns Err after having written part of the value *)
InsertFails(f, nm) ==
  /\ phase = "open" /\ Len(hist) < MaxOps /\ nm \in Names(kind)
  /\ attempted' = TRUE
  /\ items' = items
  /\ buf' = IF TruncateOnError THEN buf
            ELSE IF f = "f0" /\ kind = "array" THEN (IF buf = "empty" THEN "clean" ELSE buf)
            ELSE "junk"                                             \* object: the key and ':' are already there
  /\ hist' = Append(hist, [op |-> "fail", v |-> f, res |-> "err", nm |-> nm])
  /\ UNCHANGED <<kind, phase, out>>

(* the builders are Clone (a half-filled builder used as a template): the application goes on with the copy.  A copy is the same  *)
(* builder - no state of the model changes; the step exists so that the replay clones at every position of a history            *)
CloneBuilder ==
  /\ phase = "open" /\ Len(hist) < MaxOps /\ hist # <<>> /\ hist[Len(hist)].op # "clone"
  /\ hist' = Append(hist, [op |-> "clone", v |-> "none", res |-> "ok", nm |-> "fresh"])
  /\ UNCHANGED <<kind, items, buf, attempted, phase, out>>

(* core/src/params.rs:110-126 *)
Build ==
  /\ phase = "open"
  /\ phase' = "built"
  /\ out' = IF buf = "junk" THEN Panic ELSE IF buf = "empty" THEN None ELSE Some(items)
  /\ UNCHANGED <<kind, items, buf, attempted, hist>>

Next == \/ \E v \in VClass, nm \in {"fresh", "again"} : Insert(v, nm)
        \/ \E f \in FClass, nm \in {"fresh", "again"} : InsertFails(f, nm)
        \/ CloneBuilder
        \/ Build

Spec == Init /\ [][Next]_vars

-----------------------------------------------------------------------------------
(* What the harness must observe for a finished behaviour.  When every insert failed the property leaves   *)
(* open whether the builder means 'no params' or the empty container ("noneOrEmpty").                      *)
Expected ==
  IF kind = "ctor" THEN out
  ELSE IF items = <<>> THEN (IF attempted THEN [k |-> "noneOrEmpty"] ELSE None)
  ELSE Some(items)

Inv_BuildNeverPanics == phase = "built" => out # Panic
Inv_BuildMeansInserted ==
  phase = "built" /\ kind # "ctor" =>
      \/ out = Some(items)
      \/ (items = <<>> /\ out = None)
Inv_EmptyMeansNoParams == phase = "built" /\ kind # "ctor" /\ ~attempted => out = None
Inv_FailedInsertKeepsItems ==   \* action property as a state predicate over hist: #ok inserts = Len(items) unless junk
  kind # "ctor" /\ buf # "junk" =>
      Len(items) = Len(SelectSeq(hist, LAMBDA h : h.res = "ok" /\ h.op # "clone"))

Emit == (EmitCases /\ phase = "built") =>
          PrintT(<<"REPLAY", ToJson([kind |-> kind, ops |-> hist, expect |-> Expected])>>)
===================================================================================
