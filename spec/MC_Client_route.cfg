\* C03 quick: 3 concurrent calls, the peer answers seen / foreign ids in any order with duplicates and omissions (<= 4 texts)
CONSTANTS
  Ops <- Ops3
  Kind <- K_3calls
  BatchN <- N_2
  MaxQueue = 2
  BufCap = 1
  SubIds = {1}
  Dev = {}
  PeerMenu = {"resp", "foreign"}
  MaxPeer = 4
  MaxPush = 0
  Faults = {}
  MaxFaults = 1
  RespShapes <- RS_ok
  Abandon = FALSE
  MaxArr = 1
  ArrMenu = {}
INIT Init
NEXT Next
VIEW View
INVARIANTS Inv_Route Inv_IdsUnique Inv_NoPlaceholder Inv_SameCause Inv_NoPanic Inv_IndexConsistent Inv_QuiescentEmpty
CHECK_DEADLOCK FALSE
