\* C18 quick: 1 call + 1 subscription through every end path (accepted, refused, malformed id, unsubscribe, drop, server close, lag)
CONSTANTS
  Ops <- Ops2
  Kind <- K_1call1sub
  BatchN <- N2_2
  MaxQueue = 2
  BufCap = 1
  SubIds = {1}
  Dev = {"F13c"}
  PeerMenu = {"resp", "notif", "close"}
  MaxPeer = 4
  MaxPush = 2
  Faults = {}
  MaxFaults = 1
  RespShapes <- RS_sub12
  Abandon = FALSE
  MaxArr = 1
  ArrMenu = {}
INIT Init
NEXT Next
VIEW View
INVARIANTS Inv_QuiescentEmpty
CHECK_DEADLOCK FALSE
