\* C11: server-side close for ping inactivity while a call is executing - 2 WebSocket sessions, limit 1 and 2, short sequences
CONSTANTS
  Conns <- CnW2
  KindOf <- KW2
  Calls <- NoCalls
  ConnOfCall <- NoConnOf
  Limits = {1, 2}
  MaxDepth = 4
  EmitCases = TRUE
  Hows = {"inactive", "clientClose"}
  Dev = {}
INIT Init
NEXT NextGuard
VIEW View
INVARIANTS Inv_Bound Inv_Conservation
CHECK_DEADLOCK FALSE
