\* vacuity guard of MC_Server_live.cfg: must violate Live_StopCompletes
CONSTANTS
  Conns <- Cn2
  KindOf <- K2
  Calls <- Q3
  ConnOfCall <- CO3
  Limits = {2}
  MaxDepth = 0
  EmitCases = FALSE
  Hows = {"respond", "reset", "clientClose", "serverClose"}
  Dev = {}
SPECIFICATION UnfairStop
PROPERTY Live_StopCompletes
CHECK_DEADLOCK FALSE
