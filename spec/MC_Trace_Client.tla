--------------------------- MODULE MC_Trace_Client ---------------------------
(* operation sets of the scenario groups of harness/src/client_scen.rs *)
EXTENDS Trace_Client, ClientGroups
NoShapes == {}
=============================================================================
