------------------------------ MODULE HttpGate ------------------------------
(* C19 - the HTTP front door: method / content-type gate (server/src/transport/http.rs:16-31, 90-119) and body     *)
(* accumulation (core/src/http_helpers.rs:127-195).  The body reader is modelled as the state machine it is:      *)
(* one Frame action per body chunk, then Finish.  The property is that the verdict is a function of the           *)
(* concatenation only: `sniff` (single / batch / malformed) is decided by the first significant byte of the       *)
(* concatenated body wherever chunk boundaries fall.                                                              *)
EXTENDS Naturals, Sequences, FiniteSets, TLC, Json

CONSTANTS Mode, EmitCases,
          FirstFrameDecides   \* FALSE: design; TRUE: the tree before the F14 fix (the first frame decides even when it is blank)

Methods == {"POST", "GET", "PUT", "DELETE", "OPTIONS", "HEAD", "PATCH", "TRACE"}
(* content-type classes: "accepted" - one of the six documented spellings in any letter case; "notJson" - missing, empty, *)
(* another media type, near-misses; "jsonOther" - a JSON media type with other parameters / joined duplicates (either     *)
(* verdict allowed, but never a handler run unless RPC is reached)                                                       *)
CTypes == [cls : {"accepted"}, spelling : 1..6, casing : {"lower", "upper", "mixed"}]
          \cup [cls : {"notJson"}, form : {"missing", "empty", "textPlain", "textJson", "appXml", "jsonrequest", "leadingBlank", "trailingBlank", "jsonSuffix"}]
          \cup [cls : {"jsonOther"}, form : {"utf16", "extraParam", "commaJoined", "twoHeadersSame"}]

Gate(m, ct) == IF m # "POST" THEN {"405"}
               ELSE CASE ct.cls = "accepted" -> {"rpc"} [] ct.cls = "notJson" -> {"415"} [] OTHER -> {"415", "rpc"}

(* ---- body chunking ---- *)
(* A body is a sequence of segments; a segment is "ws" (whitespace only) or "sig" (starts with a significant byte).      *)
(* Bodies: what the concatenation is.  first = the first significant byte class of the whole body.                       *)
Bodies == {"call", "notif", "batch", "wsCall", "invalid", "garbage"}
FirstSig(b) == CASE b \in {"call", "notif", "wsCall", "invalid"} -> "{" [] b = "batch" -> "[" [] b = "garbage" -> "x"
AnswerOfBody(b) == CASE b \in {"call", "wsCall"} -> "result" [] b = "notif" -> "ack" [] b = "batch" -> "array"
                     [] b = "invalid" -> "e32600" [] b = "garbage" -> "e32700"
LeadingWs(b) == b = "wsCall"

CutSets == {s \in SUBSET (1..5) : Cardinality(s) <= 3}
Inserts == {[k |-> "none", at |-> 0]} \cup [k : {"empty", "ws"}, at : 0..4]
ChunkCases == [body : Bodies, cuts : CutSets, ins : Inserts, cl : BOOLEAN]
(* what the refused request carries: the verdict 405 / 415 must not depend on it (a body the RPC layer itself would refuse -  *)
(* not JSON, empty, blank, above the size limit - and with or without a Content-Length)                                        *)
GateBodies == {"call", "garbage", "empty", "blank", "oversize"}
GateCases == {x \in [method : Methods, ct : CTypes, body : GateBodies, cl : BOOLEAN] :
                 \/ x.body = "call" /\ x.cl                                      \* the plain case: every method and content type
                 \/ x.body # "call" /\ "rpc" \notin Gate(x.method, x.ct)}        \* refusals: every body class, both framings

VARIABLES c, phase, chunkIdx, sniff, seenSig
vars == <<c, phase, chunkIdx, sniff, seenSig>>

(* the frame sequence of a chunk case: 1 + |cuts| body pieces with the insert placed at position `at` (clamped) *)
NPieces(cc) == 1 + Cardinality(cc.cuts)
At(cc) == IF cc.ins.at > NPieces(cc) THEN NPieces(cc) ELSE cc.ins.at
Frames(cc) ==
  LET n == NPieces(cc)
      piece(i) == [k |-> "piece", i |-> i,
                   \* piece 1 of a body with leading whitespace may be whitespace-only when the first cut is the ws boundary
                   wsOnly |-> (LeadingWs(cc.body) /\ i = 1 /\ 1 \in cc.cuts)]
      base == [i \in 1..n |-> piece(i)]
  IN IF cc.ins.k = "none" THEN base
     ELSE LET a == At(cc) IN
          [i \in 1..(n + 1) |-> IF i <= a THEN base[i] ELSE IF i = a + 1 THEN [k |-> cc.ins.k, i |-> 0, wsOnly |-> TRUE] ELSE base[i - 1]]

Init == /\ phase = "new" /\ chunkIdx = 0 /\ sniff = "undecided" /\ seenSig = FALSE
        /\ CASE Mode = "gate" -> c \in GateCases [] Mode = "chunks" -> c \in ChunkCases

(* http_helpers.rs:150-176, design: whitespace-only and empty frames before the first significant byte do not decide *)
Frame == /\ Mode = "chunks" /\ phase \in {"new", "reading"} /\ chunkIdx < Len(Frames(c))
         /\ chunkIdx' = chunkIdx + 1
         /\ phase' = "reading"
         /\ LET f == Frames(c)[chunkIdx + 1] IN
            IF seenSig \/ (f.wsOnly /\ ~FirstFrameDecides) THEN UNCHANGED <<sniff, seenSig>>
            ELSE IF f.wsOnly THEN seenSig' = TRUE /\ sniff' = "malformed"
            ELSE /\ seenSig' = TRUE
                 /\ sniff' = CASE FirstSig(c.body) = "{" -> "single" [] FirstSig(c.body) = "[" -> "batch" [] OTHER -> "malformed"
         /\ UNCHANGED c
Finish == /\ Mode = "chunks" /\ phase = "reading" /\ chunkIdx = Len(Frames(c)) /\ phase' = "done" /\ UNCHANGED <<c, chunkIdx, sniff, seenSig>>
EvalGate == Mode = "gate" /\ phase = "new" /\ phase' = "done" /\ UNCHANGED <<c, chunkIdx, sniff, seenSig>>
Next == Frame \/ Finish \/ EvalGate

(* the property on the model: the sniffing verdict is that of the concatenation, whatever the framing *)
Inv_SniffIsFunctionOfBody ==
  Mode = "chunks" /\ phase = "done" =>
     sniff = (CASE FirstSig(c.body) = "{" -> "single" [] FirstSig(c.body) = "[" -> "batch" [] OTHER -> "malformed")

(* ws inserted strictly inside the body changes the concatenation: then only the differential oracle applies *)
AbsKnown(cc) == cc.ins.k # "ws" \/ At(cc) = 0 \/ At(cc) = NPieces(cc)
Emit == (EmitCases /\ phase = "done") =>
  PrintT(<<"REPLAY", ToJson(
     IF Mode = "gate" THEN [case |-> c, allowed |-> Gate(c.method, c.ct)]
     ELSE [case |-> [body |-> c.body, cuts |-> c.cuts, ins |-> c.ins, cl |-> c.cl], frames |-> Frames(c),
           answer |-> IF AbsKnown(c) THEN AnswerOfBody(c.body) ELSE "differential"])>>)
=============================================================================
