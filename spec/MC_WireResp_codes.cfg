CONSTANTS Mode = "codes" MaxMembers = 0 EmitCases = TRUE BusyMapped = TRUE
INIT Init
NEXT Next
INVARIANTS Inv_CodeRoundTrip Inv_KindRoundTrip Inv_TableInjective Emit
CHECK_DEADLOCK FALSE
