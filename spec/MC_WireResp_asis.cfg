\* documents F11: without the -32009 arm the kind round trip fails for ServerIsBusy
CONSTANTS Mode = "codes" MaxMembers = 0 EmitCases = FALSE BusyMapped = FALSE
INIT Init
NEXT Next
INVARIANTS Inv_KindRoundTrip
CHECK_DEADLOCK FALSE
