\* C04 quick design config: 1 connection, 2 subscriptions, <= 2 sends each, queue capacity 2, unsubscribe / connection close anywhere,
\* all interleavings of handlers, the writer and the peer (driver steps bounded by MaxDepth)
CONSTANTS
  Conns <- C1
  SubOps <- S2
  ConnOf <- ConnOf2
  Caps = {2}
  MaxClones = 0
  MaxDepth = 9
  QueueCap = 2
  MaxSends = 2
  Dev = {}
  EmitCases = FALSE
INIT Init
NEXT Next
VIEW View
INVARIANTS Inv_Cap Inv_PermitConservation Inv_TableExact Inv_ResponseBeforeNotifs Inv_PerSubFifo Inv_OwnConnection Inv_CloseAtMostOnceAndOnlyIfAccepted Inv_NoNotifsUnlessAccepted
CHECK_DEADLOCK FALSE
