------------------------------ MODULE ParamsSeq ------------------------------
(* C16 - Params / ParamsSequence (types/src/params.rs:84-257).                                             *)
(* The reader is a cursor over the params text.  Abstract state: the array's element classes `elems`, the   *)
(* number of elements consumed `pos`, and `poisoned` (params.rs:197-200: after a failed read the rest is    *)
(* dropped).  One action per public call: Next(T) = ParamsSequence::next::<T>, OptNext(T) = optional_next,   *)
(* Parse(T) = Params::parse::<T>, One(T) = Params::one::<T>.  Whitespace and concrete values do not occur    *)
(* here on purpose: the property says they must not matter; the harness varies them per case.               *)
EXTENDS Naturals, Sequences, FiniteSets, TLC, Json

CONSTANTS EClass,      \* element classes used by this config (subset of AllEClass)
          MaxLen,      \* arrays of length 0..MaxLen
          SecondOps,   \* ops allowed as the second free read
          EmitCases

AllEClass == {"u", "neg", "big", "strPlain", "strDelims", "strEsc", "null", "true", "arrEmpty", "arrNested", "objEmpty", "objNested"}
Types == {"u64", "i64", "string", "strref", "bool", "value", "vec"}
Modes == {"array", "object", "scalar", "absent"}
ASSUME EClass \subseteq AllEClass

(* does a JSON value of class e deserialise into Rust type t *)
Fits(t, e) ==
  CASE t = "u64"    -> e = "u"
    [] t = "i64"    -> e \in {"u", "neg"}
    [] t = "string" -> e \in {"strPlain", "strDelims", "strEsc"}
    [] t = "strref" -> e \in {"strPlain", "strDelims"}          \* a borrowed &str cannot hold an escaped string
    [] t = "bool"   -> e = "true"
    [] t = "value"  -> TRUE
    [] t = "vec"    -> e \in {"arrEmpty", "arrNested"}

ReadOps == [op : {"next", "opt"}, t : Types]
WholeOps == [op : {"parse"}, t : {"value", "vec", "optvec"}] \cup [op : {"one"}, t : Types]

VARIABLES mode, elems, pos, poisoned, free, hist
vars == <<mode, elems, pos, poisoned, free, hist>>

Arrays == UNION {[1..n -> EClass] : n \in 0..MaxLen}

Init == /\ mode \in Modes
        /\ elems \in (IF mode = "array" THEN Arrays ELSE {<<>>})
        /\ pos = 0 /\ poisoned = FALSE /\ free = 2 /\ hist = <<>>

Err == [r |-> "err"]
Absent == [r |-> "absent"]
Elem(i) == [r |-> "elem", idx |-> i]

(* result and successor state of next::<t>()  (params.rs:172-203, 226-233) *)
NextRes(t) ==
  IF mode # "array" THEN Err                        \* object / scalar: "Expected one of '[' ..."; absent: "No more params"
  ELSE IF poisoned THEN Err
  ELSE IF pos = Len(elems) THEN Err                 \* exhaustion is reported as invalid params
  ELSE IF Fits(t, elems[pos + 1]) THEN Elem(pos + 1) ELSE Err

(* optional_next::<t>()  (params.rs:249-257) *)
OptRes(t) ==
  IF mode \in {"object", "scalar"} THEN Err
  ELSE IF mode = "absent" THEN Absent
  ELSE IF poisoned THEN [r |-> "errOrAbsent"]       \* the property allows either after a failed read
  ELSE IF pos = Len(elems) THEN Absent
  ELSE IF elems[pos + 1] = "null" THEN Absent
  ELSE IF Fits(t, elems[pos + 1]) THEN Elem(pos + 1) ELSE Err

Advances(res) == res.r = "elem"
Step(op, res) ==
  /\ hist' = Append(hist, [op |-> op.op, t |-> op.t, res |-> res])
  /\ IF mode = "array" /\ ~poisoned /\ pos < Len(elems)
       THEN IF Advances(res) \/ (op.op = "opt" /\ elems[pos + 1] = "null")
              THEN pos' = pos + 1 /\ poisoned' = FALSE
              ELSE pos' = pos /\ poisoned' = TRUE              \* a failed read drops the remaining text
       ELSE UNCHANGED <<pos, poisoned>>
  /\ UNCHANGED <<mode, elems>>

(* deterministic prefix: reach cursor position p by successful next::<Value>() reads *)
Advance == /\ free = 2 /\ mode = "array" /\ pos < Len(elems)
           /\ Step([op |-> "next", t |-> "value"], NextRes("value"))
           /\ UNCHANGED free

Read(op) == /\ free > 0
            /\ (free = 1 => op \in SecondOps)
            /\ free' = free - 1
            /\ Step(op, IF op.op = "next" THEN NextRes(op.t) ELSE OptRes(op.t))

(* Params::parse / Params::one do not touch a cursor; they are only taken on a fresh reader *)
WholeRes(op) ==
  IF op.op = "parse" THEN
     CASE op.t = "value"  -> [r |-> "whole"]                                      \* equals the plain parse (absent = null)
       [] op.t = "vec"    -> IF mode = "array" THEN [r |-> "whole"] ELSE Err
       [] op.t = "optvec" -> IF mode = "array" THEN [r |-> "whole"] ELSE IF mode = "absent" THEN Absent ELSE Err
  ELSE IF mode = "array" /\ Len(elems) = 1 /\ Fits(op.t, elems[1]) THEN Elem(1) ELSE Err

Whole(op) == /\ free = 2 /\ hist = <<>>
             /\ free' = 0
             /\ hist' = <<[op |-> op.op, t |-> op.t, res |-> WholeRes(op)]>>
             /\ UNCHANGED <<mode, elems, pos, poisoned>>

Next == Advance \/ (\E op \in ReadOps : Read(op)) \/ (\E op \in WholeOps : Whole(op))
Spec == Init /\ [][Next]_vars

-----------------------------------------------------------------------------
(* design properties of the reader itself *)
Inv_NeverWrongPosition ==   \* every element ever returned is the one at the cursor, in order, no skips, no repeats
  \A i \in 1..Len(hist) : hist[i].res.r = "elem" /\ hist[i].op \in {"next", "opt"} =>
      hist[i].res.idx = 1 + Cardinality({j \in 1..(i - 1) : hist[j].res.r = "elem" \/
                                              (hist[j].op = "opt" /\ hist[j].res.r = "absent" /\ ~poisoned /\ j <= pos)})
Inv_AfterFailureOnlyErrOrAbsent ==
  \A i, j \in 1..Len(hist) : i < j /\ hist[i].op \in {"next", "opt"} /\ hist[i].res.r = "err" /\ mode = "array"
      => hist[j].res.r \in {"err", "absent", "errOrAbsent"}
Inv_PosBounded == pos <= Len(elems)

Emit == (EmitCases /\ free = 0) =>
          PrintT(<<"REPLAY", ToJson([mode |-> mode, elems |-> elems, ops |-> hist])>>)
=============================================================================
