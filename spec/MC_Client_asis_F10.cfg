\* C12 quick: two batches (3 and 2 entries) in flight, replies as arrays of <= 3 responses over the ids seen
CONSTANTS
  Ops <- Ops2
  Kind <- K_2bat
  BatchN <- N2_32
  MaxQueue = 2
  BufCap = 1
  SubIds = {1}
  Dev = {"F10"}
  PeerMenu = {"resp", "array"}
  MaxPeer = 2
  MaxPush = 0
  Faults = {}
  MaxFaults = 1
  RespShapes <- RS_ok
  Abandon = FALSE
  MaxArr = 3
  ArrMenu = {"resp"}
INIT Init
NEXT Next
VIEW View
INVARIANTS Inv_IdsUnique
CHECK_DEADLOCK FALSE
