----------------------------- MODULE Trace_Client -----------------------------
(* Trace validation of the real async client against Client.tla (DESIGN.md 2.1 step 4, appendix A.4).            *)
(* The trace (ndjson, one event per line, recorded by harness/src/client_scen.rs) is read from the file named by  *)
(* the environment variable TRACE.  Every event is bound to the Client action it witnesses, with its logged        *)
(* arguments; steps the harness cannot see (id allocation, queue hand-over, the shutdown hand-over, forwarding of  *)
(* close requests) are silent actions, at most MaxSilent between two events.  All invariants of Client.tla are     *)
(* evaluated on every state of the validation run.                                                                 *)
EXTENDS Client, Json, IOUtils

CONSTANTS MaxSilent

Rec == ndJsonDeserialize(IOEnv.TRACE)

VARIABLES l,        \* next line of the trace
          silent,   \* silent steps taken since the last event
          started   \* operations whose future the driver has spawned, in spawn order
tvars == <<vars, l, silent, started>>

Ev(name) == l <= Len(Rec) /\ Rec[l].ev = name /\ l' = l + 1 /\ silent' = 0
E == Rec[l]

SS == {started[i] : i \in DOMAIN started}
TInit == Init /\ l = 1 /\ silent = 0 /\ started = <<>> /\ TLCSet(1, 0)

(* ---- events ---- *)
T_Reset ==
  /\ Ev("Reset") /\ started' = <<>>
  /\ idCtr' = 0
  /\ fe' = [h \in Ops |-> [st |-> "idle", id |-> NoId, id2 |-> NoId, res |-> None]]
  /\ toBack' = <<>> /\ req' = <<>> /\ subIdx' = <<>> /\ bat' = {}
  /\ stream' = [h \in Ops |-> NoStream]
  /\ seen' = {} /\ unsubSent' = [s \in SubIds |-> 0] /\ inq' = <<>> /\ nPeer' = 0 /\ nTok' = 0
  /\ pushed' = [s \in SubIds |-> 0]
  /\ st' = "run" /\ rt' = "run" /\ wd' = "wait" /\ feOpen' = TRUE /\ closeCh' = <<>> /\ wdAlive' = TRUE
  /\ cause' = None /\ stRes' = None /\ rtRes' = None /\ fault' = {} /\ mgrAlive' = TRUE /\ closeSeen' = {} /\ fwd' = <<>>

T_FeStart == Ev("FeStart") /\ E.h \in Ops /\ E.h \notin SS /\ started' = Append(started, E.h) /\ UNCHANGED vars

T_WireOut ==
  /\ Ev("WireOut") /\ UNCHANGED started
  /\ HeadSends
  /\ LET m == Head(toBack) IN
     CASE E.k = "call"  -> m.t = "call" /\ fe[m.h].id = E.id
       [] E.k = "sub"   -> m.t = "sub" /\ fe[m.h].id = E.id
       [] E.k = "batch" -> m.t = "batch" /\ fe[m.h].id = E.lo /\ fe[m.h].id + BatchN[m.h] = E.hi
       [] E.k = "unsub" -> m.t = "subclosed" /\ m.sub = E.sub /\ req[subIdx[m.sub]].unsub = E.id
       [] OTHER -> FALSE
  /\ StRecv

PushedBy(m, s) == IF m.t = "notif" THEN (IF m.sub = s THEN 1 ELSE 0)
                  ELSE IF m.t = "array" THEN Cardinality({j \in 1..Len(m.elems) : m.elems[j].t = "notif" /\ m.elems[j].sub = s}) ELSE 0
T_PeerSend ==
  /\ Ev("PeerSend") /\ UNCHANGED started
  /\ inq' = Append(inq, E.m)
  /\ nPeer' = nPeer + 1 /\ nTok' = nTok + MaxArr + 1
  /\ pushed' = [s \in SubIds |-> pushed[s] + PushedBy(E.m, s)]
  /\ UNCHANGED <<idCtr, fe, toBack, req, subIdx, bat, stream, seen, unsubSent, fault>> /\ UNCHANGED shutVars

T_WireIn == Ev("WireIn") /\ UNCHANGED started /\ inq # <<>> /\ Head(inq) = E.m /\ (RtRecv \/ RtRecvRejectsWhole)   \* (latitude: Client.tla)

ResMatches(r, e) ==
  /\ r.k = e.k
  /\ CASE e.k \in {"ok", "err"} -> e.tok = -7 \/ r.tok = e.tok          \* -7: the result did not carry the token
       [] e.k = "sub" -> r.sub = e.sub
       [] e.k = "batch" -> Len(e.toks) = Len(r.slots) /\ \A i \in 1..Len(e.toks) : e.toks[i] = -7 \/ r.slots[i].tok = e.toks[i]
       [] e.k = "fail" -> r.why = e.why
       [] e.k = "restart" -> r.cause.e = e.cause
       [] OTHER -> TRUE
T_FeDone == Ev("FeDone") /\ UNCHANGED started /\ E.h \in SS /\ FeObserve(E.h) /\ ResMatches(fe'[E.h].res, E.res)

T_FeAbandon == Ev("FeAbandon") /\ UNCHANGED started /\ E.h \in SS /\ FeAbandon(E.h)
T_SubNext == Ev("SubNext") /\ UNCHANGED started /\ SubNext(E.h) /\ Head(stream[E.h].buf) = E.n
T_SubEnd == Ev("SubEnd") /\ UNCHANGED started /\ SubEnd(E.h) /\ stream[E.h].lagged = E.lagged
T_SubUnsub == Ev("SubUnsub") /\ UNCHANGED started /\ SubUnsubStart(E.h)
T_SubUnsubDone == Ev("SubUnsubDone") /\ UNCHANGED started /\ SubDrained(E.h)
T_SubDrop == Ev("SubDrop") /\ UNCHANGED started /\ SubDrop(E.h)
T_SubDropEnded == Ev("SubDropEnded") /\ UNCHANGED started /\ SubDropEnded(E.h)

T_Fault == /\ Ev("Fault") /\ UNCHANGED started
           /\ fault' = fault \cup {E.f}
           /\ UNCHANGED <<idCtr, fe, toBack, req, subIdx, bat, stream, seen, unsubSent, inq, nPeer, nTok, pushed>> /\ UNCHANGED shutVars
T_SendFault == Ev("SendFault") /\ UNCHANGED started /\ StSendFails
T_RecvFault == Ev("RecvFault") /\ UNCHANGED started /\ RtRecvFailsWith(E.f)

Settled == toBack = <<>> /\ inq = <<>> /\ fwd = <<>> /\ \A h \in SS : fe[h].st # "alloc"
T_Sizes == /\ Ev("Sizes") /\ UNCHANGED <<vars, started>>
           /\ IF E.r = -1 THEN ~mgrAlive
              ELSE /\ mgrAlive /\ (rt # "run" \/ st # "run" \/ Settled)
                   /\ Cardinality(DOMAIN req) = E.r /\ Cardinality(DOMAIN subIdx) = E.s /\ Cardinality(bat) = E.b
T_Connected == Ev("Connected") /\ UNCHANGED <<vars, started>> /\ feOpen = E.b
T_OnDisconnect == /\ Ev("OnDisconnect") /\ UNCHANGED <<vars, started>> /\ ~feOpen
                  /\ IF cause = None THEN E.res.k = "placeholder" ELSE E.res.k = "restart" /\ E.res.cause = cause.e
(* back-pressure on the transport (the send task stays inside one `send().await`) needs no model step: the send task simply *)
(* takes none for a while                                                                                                  *)
T_Noop == (Ev("TransportCloseStart") \/ Ev("TransportCloseEnd") \/ Ev("Hold") \/ Ev("Release")) /\ UNCHANGED <<vars, started>>

(* `Quiet`: the harness has released any back-pressure and granted the client so many scheduler turns that every one of its   *)
(* tasks is parked.  The model must then have no step of the client left either: whatever the design says the client does      *)
(* on its own - forward a close request, write an unsubscribe, complete a call whose response was consumed, notice a fault    *)
(* and run the whole shutdown hand-over - has happened.  This is how the "eventually" parts of C05, C09 and C18 are decided  *)
(* on finite traces.                                                                                                         *)
ClientCanStep ==
  \/ \E h \in SS : ENABLED FeAlloc(h) \/ ENABLED FeEnqueue(h) \/ fe[h].st = "ready"
  \/ ENABLED StRecv \/ ENABLED RtRecv \/ ENABLED RtForward
  \/ \E h \in Subs : ENABLED SubUnsubEnqueue(h) \/ ENABLED SubDrainOne(h)
  \/ ENABLED StSendFails \/ ENABLED RtRecvFails
  \/ ENABLED StNoticeClosed \/ ENABLED RtNoticeClosed \/ ENABLED RtHandOver \/ ENABLED StCloseFront \/ ENABLED StHandOver
  \/ ENABLED StEnd \/ ENABLED WdRecv \/ ENABLED ManagerDrop
T_Quiet == Ev("Quiet") /\ UNCHANGED <<vars, started>> /\ ~ClientCanStep
(* the scenario is over: the connection has ended, so nothing may still be pending *)
T_End == /\ Ev("End") /\ UNCHANGED <<vars, started>>
         /\ \A h \in SS : fe[h].st \in {"done", "abandoned"}
         /\ \A h \in Subs : stream[h].rx \in {"none", "ended", "gone", "dropped"}

(* ---- silent steps ---- *)
(* The first poll of each spawned future happens in spawn order (FIFO run queue of the current_thread runtime), and in that   *)
(* poll the id is taken and - when the front->back channel has room - the message is enqueued without yielding              *)
(* (client.rs: next_request_id(); tx.send(..).await on a channel with a free permit).  So: ids are allocated in FeStart order, *)
(* and allocation + enqueue are one step unless the channel is full or closed.                                              *)
NextIdle == LET idle == {i \in DOMAIN started : fe[started[i]].st = "idle"} IN
            IF idle = {} THEN {} ELSE {started[CHOOSE i \in idle : \A j \in idle : i <= j]}
FeAllocEnq(h) ==
  /\ fe[h].st = "idle" /\ feOpen /\ Len(toBack) < MaxQueue
  /\ LET n == CASE Kind[h] = "call" -> 1 [] Kind[h] = "sub" -> 2 [] Kind[h] = "batch" -> IF "F10" \in Dev THEN 1 ELSE BatchN[h]
     IN /\ idCtr' = idCtr + n
        /\ fe' = [fe EXCEPT ![h] = [@ EXCEPT !.st = "sent", !.id = idCtr, !.id2 = IF Kind[h] = "sub" THEN idCtr + 1 ELSE NoId]]
  /\ toBack' = Append(toBack, [t |-> Kind[h], h |-> h])
  /\ UNCHANGED <<req, subIdx, bat, stream, seen, unsubSent, inq, nPeer, nTok, pushed, fault>> /\ UNCHANGED shutVars
Silent ==
  /\ silent < MaxSilent /\ silent' = silent + 1 /\ l' = l /\ l <= Len(Rec) /\ UNCHANGED started
  /\ \/ \E h \in NextIdle : IF feOpen /\ Len(toBack) < MaxQueue THEN FeAllocEnq(h) ELSE FeAlloc(h)
     \/ \E h \in SS : FeEnqueue(h)
     \/ (~HeadSends /\ StRecv)
     \/ RtForward
     \/ \E h \in Subs : SubUnsubEnqueue(h) \/ SubDrainOne(h)
     \/ \E h \in Subs : LagCloses(h)              \* latitude of C05 (Client.tla): a lagged stream may end at once
     \/ StSkipAbandoned                           \* latitude of C03 / C18: a queued operation nobody waits for need not be sent
     \/ StNoticeClosed \/ RtNoticeClosed \/ RtHandOver \/ StCloseFront \/ StHandOver \/ StEnd \/ WdRecv \/ ManagerDrop

TNext == T_Reset \/ T_FeStart \/ T_WireOut \/ T_PeerSend \/ T_WireIn \/ T_FeDone \/ T_FeAbandon \/ T_SubNext \/ T_SubEnd \/ T_SubUnsub
         \/ T_SubUnsubDone \/ T_SubDrop \/ T_SubDropEnded \/ T_Fault \/ T_SendFault \/ T_RecvFault \/ T_Sizes \/ T_Connected \/ T_OnDisconnect
         \/ T_Noop \/ T_Quiet \/ T_End \/ Silent
TSpec == TInit /\ [][TNext]_tvars

(* ---- acceptance: the highest line reached is kept in a TLC register (needs -workers 1) ---- *)
Progress == TLCSet(1, IF l > TLCGet(1) THEN l ELSE TLCGet(1))
TraceInitReg == TLCSet(1, 0)
Accepted == IF TLCGet(1) = Len(Rec) + 1 THEN TRUE
            ELSE /\ PrintT(<<"UNMATCHED", TLCGet(1), ToJson(Rec[TLCGet(1)])>>) /\ FALSE
TView == <<View, l, silent, started>>
=============================================================================
