------------------------------- MODULE ServerSubs -------------------------------
(* Server-side subscriptions on WebSocket connections: per-connection permits, the subscriber table, pending and     *)
(* accepted sinks with clones, unsubscribe, handler return, connection close, and - for the ordering properties -     *)
(* the per-connection FIFO queue with its single writer.                                                            *)
(* Code: server/src/middleware/rpc.rs:107-146 (permit or -32006; unsubscribe bypasses limits),                       *)
(*       core/src/server/subscription.rs:196-267 (PendingSubscriptionSink: reject / accept / drop),                  *)
(*       :338-420 (SubscriptionSink: send / is_closed / Drop), :468-492 (BoundedSubscriptions),                      *)
(*       core/src/server/rpc_module.rs:780-876 (subscribe callback, close notification), :979-1033 (unsubscribe),    *)
(*       core/src/server/helpers.rs:74-101 (MethodSink), server/src/transport/ws.rs:202-266 (writer).                *)
(* C06 uses the bookkeeping part (driver-serialised behaviours replayed into the real server);                      *)
(* C04 uses the queue part (recorded executions validated against this module).                                     *)
EXTENDS Integers, Sequences, FiniteSets, TLC, Json

CONSTANTS
  Conns,      \* connections
  SubOps,     \* subscribe calls (each made once)
  ConnOf,     \* [SubOps -> Conns]
  Caps,       \* set of max_subscriptions_per_connection values a behaviour may start with
  MaxClones,  \* extra SubscriptionSink clones per subscription
  MaxDepth,   \* bound on the length of emitted call sequences (0 = unbounded, no emission)
  QueueCap,   \* message_buffer_capacity (ordering configs); 0 = queue not modelled
  MaxSends,   \* notifications a handler may send
  Dev,        \* subset of {"F4", "F5"}
  EmitCases

VARIABLES
  cap,        \* the cap of this behaviour
  permits,    \* [Conns -> Nat] free permits of the per-connection semaphore
  sub,        \* [SubOps -> [st, sinks, pend, unsub, sent, ret]]
  table,      \* subscriber table: set of SubOps whose (conn, subscription id) key is present
  open,       \* [Conns -> BOOLEAN] the connection's outbound channel is open
  queue,      \* [Conns -> Seq] per-connection FIFO of outbound messages
  wire,       \* [Conns -> Seq] what the writer has put on the socket
  path        \* history of driver-visible steps (hidden by the VIEW)
vars == <<cap, permits, sub, table, open, queue, wire, path>>
View == <<cap, permits, sub, table, open, queue, wire>>

NoSub == [st |-> "idle", sinks |-> 0, pend |-> FALSE, unsub |-> FALSE, sent |-> 0, ret |-> FALSE, chk |-> "none"]
Init == /\ cap \in Caps
        /\ permits = [c \in Conns |-> cap]
        /\ sub = [k \in SubOps |-> NoSub]
        /\ table = {} /\ open = [c \in Conns |-> TRUE]
        /\ queue = [c \in Conns |-> <<>>] /\ wire = [c \in Conns |-> <<>>]
        /\ path = <<>>

Holds(k) == sub[k].pend \/ sub[k].sinks > 0                 \* the permit lives in the pending sink, then in the Arc shared by all clones
Room(c) == QueueCap = 0 \/ Len(queue[c]) < QueueCap
Enq(c, m) == IF QueueCap = 0 THEN queue ELSE [queue EXCEPT ![c] = Append(@, m)]

Step(op, res) == path' = Append(path, [op |-> op, res |-> res])
Bounded == MaxDepth = 0 \/ Len(path) < MaxDepth

(* ---- the subscribe call reaches RpcService::call: permit or -32006 (rpc.rs:107-132) ---- *)
Subscribe(k) ==
  /\ Bounded /\ sub[k].st = "idle"
  /\ (MaxDepth > 0 => open[ConnOf[k]])        \* the serialised driver (bounded configs) never sends on a connection it has closed;
                                              \* in concurrent runs a message read before the close may start its handler afterwards
  /\ IF permits[ConnOf[k]] > 0
       THEN /\ permits' = [permits EXCEPT ![ConnOf[k]] = @ - 1]
            /\ sub' = [sub EXCEPT ![k] = [@ EXCEPT !.st = "pending", !.pend = TRUE]]
            /\ Step([o |-> "subscribe", k |-> k], "started")
            /\ UNCHANGED queue
       ELSE /\ sub' = [sub EXCEPT ![k].st = "refused"]
            /\ (open[ConnOf[k]] => Room(ConnOf[k]))
            /\ queue' = IF open[ConnOf[k]] THEN Enq(ConnOf[k], [t |-> "err", k |-> k, code |-> -32006]) ELSE queue
            /\ Step([o |-> "subscribe", k |-> k], "e32006")
            /\ UNCHANGED permits
  /\ UNCHANGED <<cap, table, open, wire>>

(* ---- PendingSubscriptionSink::accept (subscription.rs:234-267) ---- *)
(* design: the table entry exists before the response can be seen; tree (F5): response first, insert afterwards      *)
Accept(k) ==
  /\ Bounded /\ sub[k].st = "pending" /\ sub[k].pend
  /\ IF open[ConnOf[k]] /\ Room(ConnOf[k])
       THEN /\ queue' = Enq(ConnOf[k], [t |-> "resp", k |-> k])
            /\ IF "F5" \in Dev
                 THEN /\ sub' = [sub EXCEPT ![k] = [@ EXCEPT !.st = "answered"]] /\ UNCHANGED table
                 ELSE /\ sub' = [sub EXCEPT ![k] = [@ EXCEPT !.st = "accepted", !.pend = FALSE, !.sinks = 1]]
                      /\ table' = table \cup {k}
            /\ Step([o |-> "accept", k |-> k], "ok")
            /\ UNCHANGED permits
       ELSE IF ~open[ConnOf[k]]
         THEN /\ sub' = [sub EXCEPT ![k] = [@ EXCEPT !.st = "acceptFailed", !.pend = FALSE]]     \* Err: the pending sink is consumed
              /\ permits' = [permits EXCEPT ![ConnOf[k]] = @ + 1]
              /\ Step([o |-> "accept", k |-> k], "err")
              /\ UNCHANGED <<queue, table>>
         ELSE FALSE                                                                             \* queue full: accept waits
  /\ UNCHANGED <<cap, open, wire>>
AcceptInsert(k) ==       \* second half of accept in the tree's order (only with F5)
  /\ "F5" \in Dev /\ sub[k].st = "answered"
  /\ sub' = [sub EXCEPT ![k] = [@ EXCEPT !.st = "accepted", !.pend = FALSE, !.sinks = 1]]
  /\ table' = table \cup {k}
  /\ UNCHANGED <<cap, permits, open, queue, wire, path>>

(* ---- reject (subscription.rs:214-222) and dropping the pending sink unanswered ---- *)
Reject(k) ==
  /\ Bounded /\ sub[k].st = "pending" /\ sub[k].pend /\ (Room(ConnOf[k]) \/ ~open[ConnOf[k]])
  /\ sub' = [sub EXCEPT ![k] = [@ EXCEPT !.st = "rejected", !.pend = FALSE]]
  /\ permits' = [permits EXCEPT ![ConnOf[k]] = @ + 1]
  /\ queue' = IF open[ConnOf[k]] THEN Enq(ConnOf[k], [t |-> "err", k |-> k, code |-> 1]) ELSE queue
  /\ Step([o |-> "reject", k |-> k], "ok")
  /\ UNCHANGED <<cap, table, open, wire>>
DropPending(k) ==
  /\ Bounded /\ sub[k].st = "pending" /\ sub[k].pend
  /\ sub' = [sub EXCEPT ![k] = [@ EXCEPT !.st = "droppedPending", !.pend = FALSE]]
  /\ permits' = [permits EXCEPT ![ConnOf[k]] = @ + 1]
  /\ queue' = IF open[ConnOf[k]] THEN Enq(ConnOf[k], [t |-> "err", k |-> k, code |-> -32603]) ELSE queue   \* rpc_module.rs:864
  /\ Step([o |-> "dropPending", k |-> k], "ok")
  /\ UNCHANGED <<cap, table, open, wire>>

(* dropping the pending sink, split for the concurrent trace spec: the permit returns with the drop, the -32603 answer of the *)
(* subscribe call is produced by the call's own future afterwards (rpc_module.rs:855-866, ws.rs:167-176)                    *)
DropPendingNoEnq(k) ==
  /\ sub[k].st = "pending" /\ sub[k].pend
  /\ sub' = [sub EXCEPT ![k] = [@ EXCEPT !.st = "droppedPending", !.pend = FALSE]]
  /\ permits' = [permits EXCEPT ![ConnOf[k]] = @ + 1]
  /\ UNCHANGED <<cap, table, open, queue, wire, path>>
ErrEnqueue(k, code) ==
  /\ IF open[ConnOf[k]] THEN Room(ConnOf[k]) /\ queue' = Enq(ConnOf[k], [t |-> "err", k |-> k, code |-> code]) ELSE UNCHANGED queue
  /\ UNCHANGED <<cap, permits, sub, table, open, wire, path>>

(* For the concurrent trace spec every *answer* is a step of its own: the task that decided it (refusal, unsubscribe result)  *)
(* may be descheduled before it hands the message to the connection queue, so other messages can overtake it.             *)
SubscribeRefuseNoEnq(k) ==
  /\ sub[k].st = "idle" /\ permits[ConnOf[k]] = 0
  /\ sub' = [sub EXCEPT ![k].st = "refused"]
  /\ UNCHANGED <<cap, permits, table, open, queue, wire, path>>
UnsubNoEnq(c, k) ==
  /\ open[c]
  /\ LET hit == k \in table /\ ConnOf[k] = c IN
     /\ table' = IF hit THEN table \ {k} ELSE table
     /\ sub' = IF hit THEN [sub EXCEPT ![k].unsub = TRUE] ELSE sub
  /\ UNCHANGED <<cap, permits, open, queue, wire, path>>
ReplyEnqueue(c, m) ==
  /\ IF open[c] THEN Room(c) /\ queue' = Enq(c, m) ELSE UNCHANGED queue
  /\ UNCHANGED <<cap, permits, sub, table, open, wire, path>>

(* ---- SubscriptionSink clones (subscription.rs:270-285, Drop :414-420) ---- *)
Closed(k) == sub[k].unsub \/ ~open[ConnOf[k]] \/ (k \notin table /\ sub[k].st = "accepted")
SinkClone(k) ==
  /\ Bounded /\ sub[k].sinks > 0 /\ sub[k].sinks <= MaxClones
  /\ sub' = [sub EXCEPT ![k].sinks = @ + 1]
  /\ Step([o |-> "clone", k |-> k], "ok")
  /\ UNCHANGED <<cap, permits, table, open, queue, wire>>
SinkDrop(k) ==
  /\ Bounded /\ sub[k].sinks > 0 /\ (sub[k].sinks = 1 => sub[k].chk = "none")
  /\ sub' = [sub EXCEPT ![k].sinks = @ - 1]
  /\ table' = IF sub[k].sinks = 1 \/ "F4" \in Dev THEN table \ {k} ELSE table      \* design: only the last clone unsubscribes
  /\ permits' = IF sub[k].sinks = 1 THEN [permits EXCEPT ![ConnOf[k]] = @ + 1] ELSE permits
  /\ Step([o |-> "dropSink", k |-> k], "ok")
  /\ UNCHANGED <<cap, open, queue, wire>>

(* the task that owns the sinks panics: every sink it holds is dropped while unwinding - the subscription is over exactly as if  *)
(* the sinks had been dropped one by one (entry gone, slot back)                                                              *)
SinkPanic(k) ==
  /\ Bounded /\ sub[k].sinks > 0 /\ sub[k].chk = "none"
  /\ sub' = [sub EXCEPT ![k].sinks = 0]
  /\ table' = table \ {k}
  /\ permits' = [permits EXCEPT ![ConnOf[k]] = @ + 1]
  /\ Step([o |-> "panic", k |-> k], "ok")
  /\ UNCHANGED <<cap, open, queue, wire>>

(* ---- SubscriptionSink::send (subscription.rs:338-353) is two steps: read the closed state, then an awaited enqueue. ---- *)
(* A send that passed its check before the subscription was closed may still be delivered after the close.              *)
SendCheck(k) ==
  /\ Bounded /\ sub[k].sinks > 0 /\ sub[k].sent < MaxSends /\ sub[k].chk = "none"
  /\ IF Closed(k)
       THEN /\ Step([o |-> "send", k |-> k], "err") /\ UNCHANGED sub
       ELSE /\ sub' = [sub EXCEPT ![k].chk = "passed"] /\ UNCHANGED path
  /\ UNCHANGED <<cap, permits, table, open, queue, wire>>
SendEnqueue(k) ==
  /\ sub[k].chk = "passed"
  /\ IF open[ConnOf[k]]
       THEN /\ Room(ConnOf[k])
            /\ sub' = [sub EXCEPT ![k] = [@ EXCEPT !.sent = @ + 1, !.chk = "none"]]
            /\ queue' = Enq(ConnOf[k], [t |-> "notif", k |-> k, n |-> sub[k].sent + 1])
            /\ Step([o |-> "send", k |-> k], "ok")
       ELSE /\ sub' = [sub EXCEPT ![k].chk = "none"]                      \* the channel closed while the send was waiting
            /\ Step([o |-> "send", k |-> k], "err") /\ UNCHANGED queue
  /\ UNCHANGED <<cap, permits, table, open, wire>>

(* reject() in two steps for the concurrent trace spec: the error answer is enqueued, the permit is released when reject() returns *)
RejectEnqueue(k) ==
  /\ sub[k].st = "pending" /\ sub[k].pend /\ (Room(ConnOf[k]) \/ ~open[ConnOf[k]])
  /\ sub' = [sub EXCEPT ![k].st = "rejected"]
  /\ queue' = IF open[ConnOf[k]] THEN Enq(ConnOf[k], [t |-> "err", k |-> k, code |-> 1]) ELSE queue
  /\ UNCHANGED <<cap, permits, table, open, wire, path>>
RejectRelease(k) ==
  /\ sub[k].st = "rejected" /\ sub[k].pend
  /\ sub' = [sub EXCEPT ![k].pend = FALSE]
  /\ permits' = [permits EXCEPT ![ConnOf[k]] = @ + 1]
  /\ UNCHANGED <<cap, table, open, queue, wire, path>>

(* ---- the unsubscribe call (rpc_module.rs:998-1028): removes the entry under the lock, answers whether it was there ---- *)
Unsub(c, k) ==
  /\ Bounded /\ open[c] /\ Room(c)
  /\ LET hit == k \in table /\ ConnOf[k] = c IN
     /\ table' = IF hit THEN table \ {k} ELSE table
     /\ sub' = IF hit THEN [sub EXCEPT ![k].unsub = TRUE] ELSE sub
     /\ queue' = Enq(c, [t |-> "unsubResp", k |-> k, v |-> hit])
     /\ Step([o |-> "unsub", c |-> c, k |-> k], IF hit THEN "true" ELSE "false")
  /\ UNCHANGED <<cap, permits, open, wire>>

(* ---- the handler future returns with a closing value (rpc_module.rs:833-852): sent iff the subscription was accepted ---- *)
HandlerReturn(k, closing) ==
  \* only an accepted subscription's handler ever returns a value: after reject / drop / failed accept the library cancels
  \* the handler future (try_join with the `accepted` oneshot, rpc_module.rs:836-841) and its closing value is discarded
  \* (sinks may outlive the handler future: moved into other tasks / shared state - the subscription stays active through them)
  /\ Bounded /\ ~sub[k].ret /\ sub[k].st = "accepted"
  /\ sub' = [sub EXCEPT ![k].ret = TRUE]
  /\ queue' = IF closing /\ sub[k].st = "accepted" /\ open[ConnOf[k]] /\ Room(ConnOf[k])
                THEN Enq(ConnOf[k], [t |-> "close", k |-> k]) ELSE queue
  /\ (closing /\ sub[k].st = "accepted" /\ open[ConnOf[k]] => Room(ConnOf[k]))
  /\ Step([o |-> "return", k |-> k, closing |-> closing], "ok")
  /\ UNCHANGED <<cap, permits, table, open, wire>>

(* the same split in two for the concurrent trace spec: the handler returns, the close notification is enqueued a bit later *)
HandlerReturnNoEnq(k) ==
  /\ ~sub[k].ret /\ sub[k].st = "accepted" /\ sub[k].sinks = 0
  /\ sub' = [sub EXCEPT ![k].ret = TRUE]
  /\ UNCHANGED <<cap, permits, table, open, queue, wire, path>>
CloseEnqueue(k) ==
  /\ sub[k].ret
  /\ IF open[ConnOf[k]] THEN Room(ConnOf[k]) /\ queue' = Enq(ConnOf[k], [t |-> "close", k |-> k]) ELSE UNCHANGED queue
  /\ UNCHANGED <<cap, permits, sub, table, open, wire, path>>
(* the writer stops: it closes the socket first and its receiver afterwards (ws.rs:264-265), so what is still queued - and  *)
(* what handlers manage to enqueue in between, with a successful send - is dropped                                         *)
ConnCloseKeepQueue(c) ==
  /\ open[c]
  /\ open' = [open EXCEPT ![c] = FALSE]
  /\ queue' = [queue EXCEPT ![c] = <<>>]
  /\ UNCHANGED <<cap, permits, sub, table, wire, path>>

(* ---- the connection ends (peer gone or server stopped): the writer closes its receiver ---- *)
ConnClose(c) ==
  /\ Bounded /\ open[c]
  /\ open' = [open EXCEPT ![c] = FALSE]
  /\ queue' = [queue EXCEPT ![c] = <<>>]
  /\ Step([o |-> "connClose", c |-> c], "ok")
  /\ UNCHANGED <<cap, permits, sub, table, wire>>

(* ---- the single writer drains the queue in order (ws.rs:202-266) ---- *)
WriterSend(c) ==
  /\ QueueCap > 0 /\ open[c] /\ queue[c] # <<>>
  /\ wire' = [wire EXCEPT ![c] = Append(@, Head(queue[c]))]
  /\ queue' = [queue EXCEPT ![c] = Tail(@)]
  /\ UNCHANGED <<cap, permits, sub, table, open, path>>

Acts == \/ \E k \in SubOps : Subscribe(k) \/ Accept(k) \/ AcceptInsert(k) \/ Reject(k) \/ DropPending(k) \/ SinkClone(k) \/ SinkDrop(k) \/ SinkPanic(k) \/ SendCheck(k) \/ SendEnqueue(k)
        \/ \E k \in SubOps, b \in BOOLEAN : HandlerReturn(k, b)
        \/ \E c \in Conns, k \in SubOps : Unsub(c, k)
        \/ \E c \in Conns : ConnClose(c) \/ WriterSend(c)
(* one replay case per TRANSITION: the (shortest, via the VIEW) call sequence reaching the pre-state plus this call, with *)
(* the spec's observable projection of the post-state                                                                  *)
(* C04's serialised replay (MC_ServerSubs_wire.cfg): the driver takes a step only when every connection's writer has drained   *)
(* its queue, and a send that has passed its closed-check is completed before anything else happens - then the frames a peer      *)
(* receives are exactly the messages enqueued for its connection, in order.                                                     *)
Drained == \A c \in Conns : queue[c] = <<>>
SerialSteps == /\ (path' # path => Drained)
               /\ ((\E k \in SubOps : sub[k].chk = "passed") => \E k \in SubOps : sub[k].chk = "passed" /\ sub'[k].chk = "none")
ClosedP(k) == sub'[k].unsub \/ ~open'[ConnOf[k]] \/ (k \notin table' /\ sub'[k].st = "accepted")
EmitT == (EmitCases /\ path' # path) =>
           PrintT(<<"REPLAY", ToJson([cap |-> cap, connof |-> ConnOf, path |-> path',
                    final |-> [permits |-> permits', table |-> table', closed |-> {k \in SubOps : sub'[k].sinks > 0 /\ ClosedP(k)}],
                    frames |-> IF QueueCap = 0 THEN <<>> ELSE [c \in Conns |-> wire'[c] \o queue'[c]]])>>)
Next == Acts /\ EmitT
NextSerial == Acts /\ SerialSteps /\ EmitT        \* (the filter comes before the emission: TLC evaluates conjuncts in order)
Spec == Init /\ [][Next]_vars

--------------------------------------------------------------------------------
(* C06 *)
OnConn(c) == {k \in SubOps : ConnOf[k] = c}
Inv_Cap == \A c \in Conns : Cardinality({k \in OnConn(c) : Holds(k)}) <= cap
Inv_PermitConservation == \A c \in Conns : permits[c] + Cardinality({k \in OnConn(c) : Holds(k)}) = cap
(* active <=> accepted, not unsubscribed, and the handler still holds a sink (the connection being open is implied for   *)
(* anybody able to ask) ; with F5 the window between the response and the insert is excluded from the left-hand side     *)
ShouldBeActive(k) == sub[k].st = "accepted" /\ ~sub[k].unsub /\ sub[k].sinks > 0
Inv_TableExact == \A k \in SubOps : (k \in table) <=> ShouldBeActive(k)
Inv_AnsweredMeansActive == \A k \in SubOps : sub[k].st = "answered" => FALSE       \* the design never exposes the response before the entry
(* C04 *)
PosOf(c, P(_)) == {i \in 1..Len(wire[c]) : P(wire[c][i])}
Inv_ResponseBeforeNotifs ==
  \A c \in Conns : \A i \in 1..Len(wire[c]) : wire[c][i].t \in {"notif", "close"} =>
      \E j \in 1..(i - 1) : wire[c][j].t = "resp" /\ wire[c][j].k = wire[c][i].k
Inv_PerSubFifo ==
  \A c \in Conns : \A i, j \in 1..Len(wire[c]) :
      i < j /\ wire[c][i].t = "notif" /\ wire[c][j].t = "notif" /\ wire[c][i].k = wire[c][j].k => wire[c][i].n < wire[c][j].n
Inv_OwnConnection == \A c \in Conns : \A i \in 1..Len(wire[c]) : wire[c][i].t = "unsubResp" \/ ConnOf[wire[c][i].k] = c
Inv_CloseAtMostOnceAndOnlyIfAccepted ==
  \A c \in Conns : \A k \in SubOps :
      LET cl == {i \in 1..Len(wire[c]) : wire[c][i].t = "close" /\ wire[c][i].k = k} IN
      Cardinality(cl) <= 1 /\ (cl # {} => sub[k].st = "accepted")
Inv_NoNotifsUnlessAccepted == \A c \in Conns : \A i \in 1..Len(wire[c]) : wire[c][i].t = "notif" => sub[wire[c][i].k].st = "accepted"

================================================================================
