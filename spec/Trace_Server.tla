----------------------------- MODULE Trace_Server -----------------------------
(* Trace validation of graceful shut-down on the real server against Server.tla (C10).                               *)
(* Logged (one mutex): Open{c}  PeerSend{q}  HStart{q}  HFinish{q}  Recv{q}  PeerDrop{c}  Stop  StopAgain{ok}          *)
(*                     StoppedResolved  Eof{c}  End.   Handlers block on gates the driver opens, so "executing" is exact. *)
(* Silent: the reader taking a message, the response being enqueued and written, each part noticing the stop signal,    *)
(* connection tasks ending, the accept loop draining.                                                                  *)
EXTENDS Server, IOUtils

CONSTANTS MaxSilent
Rec == ndJsonDeserialize(IOEnv.TRACE)
VARIABLES l, silent, got,   \* got: calls whose response the peer has received
          noread           \* connections whose peer stopped reading on its own (its automatic pong could not be written any more)
tvars == <<vars, l, silent, got, noread>>
Ev(name) == l <= Len(Rec) /\ Rec[l].ev = name /\ l' = l + 1 /\ silent' = 0
E == Rec[l]
TInit == Init /\ l = 1 /\ silent = 0 /\ got = {} /\ noread = {} /\ TLCSet(1, 0)

T_Reset == /\ Ev("Reset") /\ limit' = E.limit /\ free' = E.limit /\ conn' = [c \in Conns |-> "idle"] /\ call' = [q \in Calls |-> "unsent"]
           /\ stop' = FALSE /\ acceptLoop' = "accepting" /\ stoppedResolved' = FALSE /\ path' = <<>> /\ got' = {} /\ noread' = {}
T_Open == Ev("Open") /\ Open(E.c) /\ conn'[E.c] \in {"open", "inService"} /\ UNCHANGED <<got, noread>>
T_PeerSend == /\ Ev("PeerSend") /\ UNCHANGED <<got, noread>>
              /\ IF conn[ConnOfCall[E.q]] \in {"done", "refused", "idle"}
                   THEN /\ call[E.q] = "unsent" /\ call' = [call EXCEPT ![E.q] = "lost"]            \* written into a connection that is gone
                        /\ UNCHANGED <<limit, free, conn, stop, acceptLoop, stoppedResolved, path>>
                   ELSE PeerSends(E.q)
T_PeerSendFailed == Ev("PeerSendFailed") /\ UNCHANGED <<vars, got, noread>>
T_HStart == Ev("HStart") /\ E.q \in Calls /\ HandlerStarts(E.q) /\ UNCHANGED <<got, noread>>
T_HFinish == Ev("HFinish") /\ HandlerFinishes(E.q) /\ UNCHANGED <<got, noread>>
T_Recv == Ev("Recv") /\ E.q \in Calls /\ call[E.q] = "written" /\ E.q \notin got /\ got' = got \cup {E.q} /\ UNCHANGED <<vars, noread>>
T_PeerDrop == Ev("PeerDrop") /\ Finish(E.c, "reset") /\ UNCHANGED <<got, noread>>
T_Stop == Ev("Stop") /\ Stop /\ UNCHANGED <<got, noread>>
T_StopAgain == Ev("StopAgain") /\ stop /\ UNCHANGED <<vars, got, noread>>
T_StoppedResolved == Ev("StoppedResolved") /\ StoppedResolves /\ UNCHANGED <<got, noread>>
T_Eof == Ev("Eof") /\ conn[E.c] = "done" /\ UNCHANGED <<vars, got, noread>>
T_EofAbort == Ev("EofAbort") /\ noread' = noread \cup {E.c} /\ UNCHANGED <<vars, got>>
(* everything the spec counts as handed to the transport has arrived at a peer that was still reading *)
T_End == /\ Ev("End") /\ UNCHANGED <<vars, got, noread>>
         /\ \A q \in Calls : call[q] = "written" /\ ConnOfCall[q] \notin noread => q \in got
         /\ (stop => stoppedResolved)

Silent == /\ silent < MaxSilent /\ silent' = silent + 1 /\ l' = l /\ l <= Len(Rec) /\ UNCHANGED <<got, noread>>
          /\ \/ \E q \in Calls : ReaderTakes(q) \/ Enqueue(q) \/ WriterSends(q)
             \/ AcceptStops \/ AcceptDone
             \/ \E c \in Conns : ConnNoticesStop(c) \/ ConnDone(c)
TNext == T_Reset \/ T_Open \/ T_PeerSend \/ T_PeerSendFailed \/ T_HStart \/ T_HFinish \/ T_Recv \/ T_PeerDrop \/ T_Stop \/ T_StopAgain \/ T_StoppedResolved
         \/ T_Eof \/ T_EofAbort \/ T_End \/ Silent
Progress == TLCSet(1, IF l > TLCGet(1) THEN l ELSE TLCGet(1))
Accepted == IF TLCGet(1) = Len(Rec) + 1 THEN TRUE
            ELSE /\ PrintT(<<"UNMATCHED", TLCGet(1), ToJson(Rec[TLCGet(1)])>>) /\ FALSE
TView == <<View, l, silent, got, noread>>
=============================================================================
