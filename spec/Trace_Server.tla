----------------------------- MODULE Trace_Server -----------------------------
(* Trace validation of graceful shut-down on the real server against Server.tla (C10).                               *)
(* Logged (one mutex): Open{c}  PeerSend{q}  HStart{q}  HFinish{q}  Recv{q}  PeerDrop{c}  Stop  StopAgain{ok}          *)
(*                     StoppedResolved  Eof{c}  End.   Handlers block on gates the driver opens, so "executing" is exact. *)
(* Silent: the reader taking a message, the response being enqueued and written, each part noticing the stop signal,    *)
(* connection tasks ending, the accept loop draining.                                                                  *)
EXTENDS Server, IOUtils

CONSTANTS MaxSilent
Rec == ndJsonDeserialize(IOEnv.TRACE)
VARIABLES l, silent, got    \* got: calls whose response the peer has received
tvars == <<vars, l, silent, got>>
Ev(name) == l <= Len(Rec) /\ Rec[l].ev = name /\ l' = l + 1 /\ silent' = 0
E == Rec[l]
TInit == Init /\ l = 1 /\ silent = 0 /\ got = {} /\ TLCSet(1, 0)

T_Reset == /\ Ev("Reset") /\ limit' = E.limit /\ free' = E.limit /\ conn' = [c \in Conns |-> "idle"] /\ call' = [q \in Calls |-> "unsent"]
           /\ stop' = FALSE /\ acceptLoop' = "accepting" /\ stoppedResolved' = FALSE /\ path' = <<>> /\ got' = {}
T_Open == Ev("Open") /\ Open(E.c) /\ conn'[E.c] \in {"open", "inService"} /\ UNCHANGED got
T_PeerSend == /\ Ev("PeerSend") /\ UNCHANGED got
              /\ IF conn[ConnOfCall[E.q]] \in {"done", "refused", "idle"}
                   THEN /\ call[E.q] = "unsent" /\ call' = [call EXCEPT ![E.q] = "lost"]            \* written into a connection that is gone
                        /\ UNCHANGED <<limit, free, conn, stop, acceptLoop, stoppedResolved, path>>
                   ELSE PeerSends(E.q)
T_PeerSendFailed == Ev("PeerSendFailed") /\ UNCHANGED <<vars, got>>
T_HStart == Ev("HStart") /\ E.q \in Calls /\ HandlerStarts(E.q) /\ UNCHANGED got
T_HFinish == Ev("HFinish") /\ HandlerFinishes(E.q) /\ UNCHANGED got
T_Recv == Ev("Recv") /\ E.q \in Calls /\ call[E.q] = "written" /\ E.q \notin got /\ got' = got \cup {E.q} /\ UNCHANGED vars
T_PeerDrop == Ev("PeerDrop") /\ Finish(E.c, "reset") /\ UNCHANGED got
T_Stop == Ev("Stop") /\ Stop /\ UNCHANGED got
T_StopAgain == Ev("StopAgain") /\ stop /\ UNCHANGED <<vars, got>>
T_StoppedResolved == Ev("StoppedResolved") /\ StoppedResolves /\ UNCHANGED got
T_Eof == Ev("Eof") /\ conn[E.c] = "done" /\ UNCHANGED <<vars, got>>
(* everything the spec counts as handed to the transport has arrived at a peer that was still reading *)
T_End == /\ Ev("End") /\ UNCHANGED <<vars, got>>
         /\ \A q \in Calls : call[q] = "written" => q \in got
         /\ (stop => stoppedResolved)

Silent == /\ silent < MaxSilent /\ silent' = silent + 1 /\ l' = l /\ l <= Len(Rec) /\ UNCHANGED got
          /\ \/ \E q \in Calls : ReaderTakes(q) \/ Enqueue(q) \/ WriterSends(q)
             \/ AcceptStops \/ AcceptDone
             \/ \E c \in Conns : ConnNoticesStop(c) \/ ConnDone(c)
TNext == T_Reset \/ T_Open \/ T_PeerSend \/ T_PeerSendFailed \/ T_HStart \/ T_HFinish \/ T_Recv \/ T_PeerDrop \/ T_Stop \/ T_StopAgain \/ T_StoppedResolved
         \/ T_Eof \/ T_End \/ Silent
Progress == TLCSet(1, IF l > TLCGet(1) THEN l ELSE TLCGet(1))
Accepted == IF TLCGet(1) = Len(Rec) + 1 THEN TRUE
            ELSE /\ PrintT(<<"UNMATCHED", TLCGet(1), ToJson(Rec[TLCGet(1)])>>) /\ FALSE
TView == <<View, l, silent, got>>
=============================================================================
