\* trace validation, scenario group "tight" (constants must equal the group's in harness/src/client_scen.rs)
CONSTANTS
  Ops <- G_tight_Ops
  Kind <- G_tight_Kind
  BatchN <- G_tight_N
  MaxQueue = 1
  BufCap = 1
  SubIds = {1, 2, 101, 102}
  Dev = {}
  PeerMenu = {}
  MaxPeer = 0
  MaxPush = 0
  Faults = {}
  MaxFaults = 1
  RespShapes <- NoShapes
  Abandon = FALSE
  MaxArr = 3
  ArrMenu = {}
  MaxSilent = 14
INIT TInit
NEXT TNext
VIEW TView
CONSTRAINT Progress
POSTCONDITION Accepted
INVARIANTS Inv_Route Inv_IdsUnique Inv_EndsOnClose Inv_Positional Inv_StreamOrdered Inv_LaggedEnds Inv_UnsubAtMostOnce Inv_NoPlaceholder Inv_SameCause Inv_NoPanic Inv_DisconnectedAfterFailure Inv_QuiescentEmpty Inv_IndexConsistent
CHECK_DEADLOCK FALSE
