------------------------------ MODULE WsConnect ------------------------------
(* Establishing a WebSocket connection with redirections (client/transport/src/ws/mod.rs:355-470, `try_connect_over_tcp`):   *)
(* the client walks from the URL it was given through the redirections the servers answer, at most `max_redirections`        *)
(* handshakes in all.  One action per handshake (one iteration of the outer loop); the server's answer is the nondeterministic  *)
(* input.  Hosts resolve to one socket address each (the replay uses 127.0.0.1 with two ports), so the inner loop over socket   *)
(* addresses has one iteration.                                                                                              *)
(*                                                                                                                          *)
(* Modelled as the tree behaves, and worth knowing: the loop runs `max_redirections` times, so the limit counts HANDSHAKES -  *)
(* with `max_redirections(0)` no connection is ever attempted and the result is `NoAddressFound`; and when the walk is cut    *)
(* off by the limit the error is `NoAddressFound` as well (a redirection does not set the error that is reported).            *)
EXTENDS Naturals, Sequences, FiniteSets, TLC, Json

CONSTANTS MaxMax,          \* max_redirections ranges over 0..MaxMax
          EmitCases

Servers == {"A", "B"}
StartPaths == {"/", "/a/b?q=1"}
AbsPaths == {"/", "/c"}
SlashPaths == {"/c", "/a?z=2"}
Segs == {"d", "e?y=3"}
Responses == {[k |-> "accept"], [k |-> "reject"], [k |-> "bad"], [k |-> "absHttp"]}
             \cup [k : {"abs"}, srv : Servers, path : AbsPaths]
             \cup [k : {"relSlash"}, path : SlashPaths]
             \cup [k : {"relSeg"}, seg : Segs]

(* `location` without a leading slash replaces what follows the last '/' of the current path-and-query (:441-447); the paths  *)
(* of this model have no '/' inside their query                                                                              *)
Dir(p) == CASE p = "/" -> "/" [] p = "/a/b?q=1" -> "/a/" [] p = "/c" -> "/" [] p = "/a?z=2" -> "/"
            [] p \in {"/d", "/e?y=3"} -> "/" [] p \in {"/a/d", "/a/e?y=3"} -> "/a/"
Join(p, seg) == CASE Dir(p) = "/" /\ seg = "d" -> "/d" [] Dir(p) = "/" /\ seg = "e?y=3" -> "/e?y=3"
                  [] Dir(p) = "/a/" /\ seg = "d" -> "/a/d" [] Dir(p) = "/a/" /\ seg = "e?y=3" -> "/a/e?y=3"

VARIABLES max, target, addrs, hop, err, log, outcome
vars == <<max, target, addrs, hop, err, log, outcome>>

None == [k |-> "none"]
Init == /\ max \in 0..MaxMax
        /\ target \in [srv : {"A"}, path : StartPaths]
        /\ addrs = "A"                       \* the socket address that will be tried next ("" = none left)
        /\ hop = 0 /\ err = "none" /\ log = <<>> /\ outcome = None

(* one iteration of the outer loop: take the addresses; if there is one, connect and shake hands *)
Handshake(r) ==
  /\ outcome = None /\ hop < max /\ addrs # ""
  /\ hop' = hop + 1
  /\ log' = Append(log, [conn |-> addrs, host |-> target.srv, path |-> target.path, resp |-> r])
  /\ CASE r.k = "accept"   -> outcome' = [k |-> "connected", srv |-> addrs, path |-> target.path] /\ UNCHANGED <<target, addrs, err>>
       [] r.k = "reject"   -> err' = "rejected" /\ addrs' = "" /\ UNCHANGED <<target, outcome>>
       [] r.k = "bad"      -> err' = "url" /\ addrs' = "" /\ UNCHANGED <<target, outcome>>               \* :455-457
       [] r.k = "absHttp"  -> outcome' = [k |-> "error", e |-> "url"] /\ UNCHANGED <<target, addrs, err>>  \* `?` at :415-418
       [] r.k = "abs"      -> target' = [srv |-> r.srv, path |-> r.path] /\ addrs' = r.srv /\ UNCHANGED <<err, outcome>>
       [] r.k = "relSlash" -> target' = [target EXCEPT !.path = r.path] /\ UNCHANGED <<addrs, err, outcome>>
       [] r.k = "relSeg"   -> target' = [target EXCEPT !.path = Join(target.path, r.seg)] /\ UNCHANGED <<addrs, err, outcome>>
  /\ UNCHANGED max
(* an iteration that finds no address left, and the end of the loop *)
Idle == outcome = None /\ hop < max /\ addrs = "" /\ hop' = hop + 1 /\ UNCHANGED <<max, target, addrs, err, log, outcome>>
GiveUp == /\ outcome = None /\ hop = max
          /\ outcome' = [k |-> "error", e |-> IF err = "none" THEN "noAddress" ELSE err]
          /\ UNCHANGED <<max, target, addrs, hop, err, log>>
Next == (\E r \in Responses : Handshake(r)) \/ Idle \/ GiveUp

(* ---- what a user may rely on ---- *)
Inv_Bounded == Len(log) <= max
Inv_ConnectedWhereLed ==
  outcome.k = "connected" => /\ log # <<>> /\ log[Len(log)].resp.k = "accept"
                             /\ outcome.srv = log[Len(log)].conn /\ outcome.path = log[Len(log)].path
(* every handshake names, in its Host header, the server it is sent to *)
Inv_HostNamesTheServer == \A i \in 1..Len(log) : log[i].host = log[i].conn
(* a handshake follows the previous answer: same server and the resolved path after a relative redirection, the named server *)
(* and path after an absolute one; nothing follows an accept, a reject or an unusable location                                *)
Inv_Walk == \A i \in 2..Len(log) :
              LET p == log[i - 1] IN
              CASE p.resp.k = "abs" -> log[i].conn = p.resp.srv /\ log[i].path = p.resp.path
                [] p.resp.k = "relSlash" -> log[i].conn = p.conn /\ log[i].path = p.resp.path
                [] p.resp.k = "relSeg" -> log[i].conn = p.conn /\ log[i].path = Join(p.path, p.resp.seg)
                [] OTHER -> FALSE

Emit == (EmitCases /\ outcome # None) =>
          PrintT(<<"REPLAY", ToJson([max |-> max, start |-> IF log = <<>> THEN target.path ELSE log[1].path, steps |-> log, outcome |-> outcome])>>)
=============================================================================
