\* C14 thorough: allow-lists of up to 3 entries (4525 lists)
CONSTANTS MaxList = 3 EmitCases = TRUE
INIT Init
NEXT Next
INVARIANTS Meta_Soundness Meta_SingletonCompleteness Meta_StarNeedsALabel Emit
CHECK_DEADLOCK FALSE
