---- MODULE MC_Trace_ServerSubs ----
EXTENDS Trace_ServerSubs
C2 == {1, 2}
S3 == {1, 2, 3}
ConnOf3 == [k \in S3 |-> IF k = 3 THEN 2 ELSE 1]
====
