------------------------------ MODULE WireResp ------------------------------
(* C15 - the response parser's acceptance predicate (types/src/response.rs:206-350) over member SEQUENCES (order and   *)
(* duplication matter to a hand-written visitor), and the error-code <-> kind table (types/src/error.rs:176-268).      *)
EXTENDS Integers, Sequences, FiniteSets, TLC, Json

CONSTANTS Mode, MaxMembers, EmitCases,
          BusyMapped      \* TRUE: design (-32009 maps back to ServerIsBusy); FALSE: tree before the F11 fix

MemberCls == {"j2", "jnull", "jother", "jnonstr", "id", "idbad", "res", "err", "unk"}
Count(s, cl) == Cardinality({i \in 1..Len(s) : s[i] \in cl})

(* accepted exactly when: one id (in the id domain), exactly one of result / error, at most one jsonrpc member and it *)
(* is "2.0" or null; unknown members - repeated or not - are ignored; any duplicate of the four names is rejected      *)
Accepts(s) ==
  /\ Count(s, {"id"}) = 1 /\ Count(s, {"idbad"}) = 0
  /\ Count(s, {"res"}) + Count(s, {"err"}) = 1
  /\ Count(s, {"j2", "jnull", "jother", "jnonstr"}) <= 1
  /\ Count(s, {"jother", "jnonstr"}) = 0

Seqs == UNION {[1..n -> MemberCls] : n \in 0..MaxMembers}

(* ---- code table ---- *)
Kinds == {"ParseError", "OversizedRequest", "InvalidRequest", "MethodNotFound", "ServerIsBusy", "InvalidParams", "InternalError"}
CodeOf(k) == CASE k = "ParseError" -> -32700 [] k = "OversizedRequest" -> -32007 [] k = "InvalidRequest" -> -32600
               [] k = "MethodNotFound" -> -32601 [] k = "ServerIsBusy" -> -32009 [] k = "InvalidParams" -> -32602
               [] k = "InternalError" -> -32603
Named == {CodeOf(k) : k \in Kinds}
KindOf(c) == IF c = -32009 /\ ~BusyMapped THEN "ServerError"
             ELSE IF c \in Named THEN CHOOSE k \in Kinds : CodeOf(k) = c ELSE "ServerError"
CodeOfKind(k, c) == IF k = "ServerError" THEN c ELSE CodeOf(k)      \* ServerError(c) carries its code
ProbeCodes == UNION {{c - 1, c, c + 1} : c \in Named} \cup {0, 1, -1, -32000, -32001, -32099, -32768, 2147483647, -2147483647 - 1}

VARIABLES c, phase
vars == <<c, phase>>
Init == phase = "new" /\ CASE Mode = "members" -> c \in Seqs [] Mode = "codes" -> c \in ProbeCodes
Eval == phase = "new" /\ phase' = "done" /\ c' = c
Next == Eval

Inv_CodeRoundTrip == Mode = "codes" => CodeOfKind(KindOf(c), c) = c
Inv_KindRoundTrip == Mode = "codes" => \A k \in Kinds : KindOf(CodeOf(k)) = k
Inv_TableInjective == Mode = "codes" => \A k1, k2 \in Kinds : CodeOf(k1) = CodeOf(k2) => k1 = k2
Inv_ExactlyOnePayload == Mode = "members" => (Accepts(c) => Count(c, {"res", "err"}) = 1 /\ Count(c, {"id"}) = 1)

Emit == (EmitCases /\ phase = "done") =>
  PrintT(<<"REPLAY", ToJson(IF Mode = "members" THEN [members |-> c, accept |-> Accepts(c)]
                            ELSE [code |-> c, kind |-> KindOf(c), table |-> [k \in Kinds |-> CodeOf(k)]])>>)
=============================================================================
