CONSTANTS Mode = "chunks" EmitCases = TRUE FirstFrameDecides = FALSE
INIT Init
NEXT Next
INVARIANTS Inv_SniffIsFunctionOfBody Emit
CHECK_DEADLOCK FALSE
