\* Documentation of finding F15: with TruncateOnError = FALSE (the tree before the fix) TLC must report
\* Inv_BuildNeverPanics violated.
CONSTANTS MaxOps = 2
          TruncateOnError = FALSE
          EmitCases = FALSE
INIT Init
NEXT Next
INVARIANTS Inv_BuildNeverPanics
CHECK_DEADLOCK FALSE
