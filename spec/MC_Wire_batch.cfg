\* C02 quick: every batch of 0..3 entries over 11 entry classes x 4 batch configs.
CONSTANTS Mode = "batch"  MaxBatch = 3  EmitCases = TRUE
INIT Init
NEXT Next
INVARIANTS Meta_BatchOnePerNonNotification Meta_BatchRefusalExecutesNothing Emit
CHECK_DEADLOCK FALSE
