---- MODULE MC_RpcMacro ----
EXTENDS RpcMacro
(* quick: the six variants named by the property text / DESIGN C17 *)
Quick_Variants == {"stub", "rawPosTailOmitted", "rawPosNulls", "rawNamedOmit", "rawNamedAlias", "missingRequired"}
(* thorough: plus member-order independence and explicit nulls under the declared names *)
Thorough_Variants == AllVariants
All_Kinds == AllKinds
====
