\* C09 quick: 1 call + 1 subscription, each fault kind injected anywhere, all orders of the three tasks and the front end
CONSTANTS
  Ops <- Ops2
  Kind <- K_1call1sub
  BatchN <- N2_2
  MaxQueue = 2
  BufCap = 1
  SubIds = {1}
  Dev = {}
  PeerMenu = {"resp", "notif", "garbage"}
  MaxPeer = 3
  MaxPush = 1
  Faults = {"sendErr", "recvErr", "peerClose"}
  MaxFaults = 2
  RespShapes <- RS_sub1
  Abandon = FALSE
  MaxArr = 1
  ArrMenu = {}
INIT Init
NEXT Next
VIEW View
INVARIANTS Inv_Route Inv_IdsUnique Inv_EndsOnClose Inv_Positional Inv_StreamOrdered Inv_LaggedEnds Inv_UnsubAtMostOnce Inv_NoPlaceholder Inv_SameCause Inv_NoPanic Inv_DisconnectedAfterFailure Inv_QuiescentEmpty Inv_IndexConsistent
CHECK_DEADLOCK FALSE
