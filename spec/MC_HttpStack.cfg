CONSTANTS EmitCases = TRUE
INIT Init
NEXT Next
INVARIANTS TypeOK Inv_OnlyJsonPostReachesRpc Inv_ProxyCallsMapped Inv_RefusedRunsNothing Inv_FilterAlwaysDecides Inv_ModeRespected Inv_ProxiedAnswerIsBare Inv_UnproxiedAnswerUntouched Emit
CHECK_DEADLOCK FALSE
