------------------------------ MODULE Gen_Client ------------------------------
(* Driver scripts for the real client, taken from behaviours of Client.tla (DESIGN.md 2.2, direction B feeding     *)
(* direction A).  TLC simulates the design; a history variable keeps the projection of the behaviour onto the      *)
(* steps the *environment* takes - the application (start an operation, poll / unsubscribe / drop a stream), the   *)
(* peer (one text, with the ids the model's client put on the wire) and the fault injector.  The steps of the       *)
(* client's own tasks are left out: the harness cannot force them, the real client takes them as it likes, and the  *)
(* recorded execution is then validated against Trace_Client.tla like any other.                                   *)
(* TLC's simulator picks uniformly among successor STATES, which would let the peer (hundreds of texts) drown        *)
(* everything else; here every environment group contributes one randomly drawn candidate per step (RandomElement), *)
(* rare steps (faults, giving a stream up) are gated.  Randomness only shapes which behaviours are sampled - every   *)
(* script is a projection of a behaviour of Client!Spec.                                                            *)
EXTENDS Client, ClientGroups, Json

CONSTANTS ScriptLen,   \* emit a script when it has this many steps
          FaultGate,   \* a fault is injected with probability 1/FaultGate per environment step
          HoldGate,    \* likewise for the start of back-pressure on the transport
          AbandonGate  \* likewise for giving a future up before it has returned

VARIABLES script,
          held      \* back-pressure on the transport: "no" | "armed" (the send task may still start one write) | "stuck" (it is inside that write)
gvars == <<vars, script, held>>

Lbl ==
  LET startedNow == {h \in Ops : fe[h].st = "idle" /\ fe'[h].st = "alloc"}
      polled   == {h \in Subs : stream[h].rx = "held" /\ stream'[h].rx = "held" /\ Len(stream'[h].buf) < Len(stream[h].buf)}
      ended    == {h \in Subs : stream[h].rx = "held" /\ stream'[h].rx = "ended"}
      unsubbed == {h \in Subs : stream[h].rx = "held" /\ stream'[h].rx = "unsubbing"}
      dropped  == {h \in Subs : stream[h].rx = "held" /\ stream'[h].rx = "dropped"}
  IN IF startedNow # {} THEN <<[op |-> "start", h |-> CHOOSE h \in startedNow : TRUE]>>
     ELSE IF nPeer' = nPeer + 1 THEN <<[op |-> "peer", m |-> Last(inq')]>>
     ELSE IF polled # {} THEN <<[op |-> "next", h |-> CHOOSE h \in polled : TRUE]>>
     ELSE IF ended # {} THEN <<[op |-> "next", h |-> CHOOSE h \in ended : TRUE]>>
     ELSE IF unsubbed # {} THEN <<[op |-> "unsub", h |-> CHOOSE h \in unsubbed : TRUE]>>
     ELSE IF \E h \in Subs : stream[h].rx = "ended" /\ stream'[h].rx = "gone"
       THEN <<[op |-> "dropEnded", h |-> CHOOSE h \in Subs : stream[h].rx = "ended" /\ stream'[h].rx = "gone"]>>
     ELSE IF dropped # {} THEN <<[op |-> "drop", h |-> CHOOSE h \in dropped : TRUE, lost |-> (toBack' = toBack)]>>    \* lost: try_send found the queue full
     ELSE IF \E h \in Ops : fe[h].st # "abandoned" /\ fe'[h].st = "abandoned"
       THEN <<[op |-> "abandon", h |-> CHOOSE h \in Ops : fe[h].st # "abandoned" /\ fe'[h].st = "abandoned"]>>
     ELSE IF fault' # fault THEN <<[op |-> "fault", f |-> CHOOSE f \in fault' : TRUE]>>
     ELSE IF held = "no" /\ held' = "armed" THEN <<[op |-> "hold"]>>
     ELSE IF held # "no" /\ held' = "no" THEN <<[op |-> "release"]>>
     ELSE <<>>

(* ---- one randomly drawn text of the peer ---- *)
Pick(S) == RandomElement(S)
Gate(n) == RandomElement(1..n) = 1
Waiting == DOMAIN req \cap SeenIds      \* ids of single requests the client waits on (batches are answered by BatchShaped)
LiveSubs == DOMAIN subIdx
OneResp(ids) == {Resp(i, x.ok, x.sub) : i \in {Pick(ids)}, x \in {Pick(RespShapes)}}
OnePush ==            \* a set holding at most one text that is not a response
  LET k == Pick(1..8) IN
  IF k <= 4 /\ LiveSubs # {} THEN {Notif(Pick(LiveSubs))}
  ELSE IF k = 5 THEN {Notif(Pick(SubIds))}                                       \* possibly for nobody
  ELSE IF k = 6 /\ LiveSubs # {} THEN {CloseN(Pick(LiveSubs))}
  ELSE IF k = 7 THEN {CloseN(Pick(SubIds))}
  ELSE {[t |-> "mnotif"]}
OneSingle ==          \* a set holding at most one single text
  LET k == Pick(1..12) IN
  IF k <= 6 THEN (IF Waiting # {} THEN OneResp(Waiting) ELSE OnePush)
  ELSE IF k = 7 THEN (IF ~Gate(4) THEN OnePush                                       \* texts that make the client give up are rare
                      ELSE IF Gate(2) /\ SeenIds # {} THEN OneResp(SeenIds)       \* an id that may have been answered already
                      ELSE OneResp({idCtr + 7}))                                 \* an id nobody sent
  ELSE OnePush
BatchShaped ==        \* an array aimed at one batch in flight: a permutation of its ids, or any arrangement with gaps, repeats, strangers
  IF bat = {} THEN {}
  ELSE LET b == Pick(bat)
           own == b.lo .. (b.hi - 1)
           ids == own \cup (IF Gate(8) THEN {idCtr + 7} ELSE {})
           n == Pick(1..MaxArr)
           p == Pick(Permutations(own))
       IN IF ~Gate(4) THEN {[t |-> "array", elems |-> e] : e \in {[i \in 1..(b.hi - b.lo) |-> Resp(p[b.lo + i - 1], Pick(BOOLEAN), NoId)]}}
          ELSE {[t |-> "array", elems |-> e] : e \in {[i \in 1..n |-> Resp(Pick(ids), Pick(BOOLEAN), NoId)]}}
OneArray ==
  LET n == Pick(1..MaxArr)
      one(i) == LET s == IF Gate(16) THEN OneSingle ELSE OnePush IN IF s = {} THEN [t |-> "mnotif"] ELSE CHOOSE x \in s : TRUE
  IN {[t |-> "array", elems |-> [i \in 1..n |-> one(i)]]}
LostDrops == {stream[h].sub : h \in {g \in Subs : stream[g].rx = "dropped" /\ Has(subIdx, stream[g].sub)}}   \* given up, close request lost or still under way
OneText ==
  LET k == Pick(1..10) IN
  IF LostDrops # {} /\ Gate(2) THEN {Notif(Pick(LostDrops))} ELSE
  IF k <= 5 THEN OneSingle
  ELSE IF k <= 7 THEN (IF bat # {} THEN BatchShaped ELSE OneArray)
  ELSE IF k <= 9 THEN OneArray
  ELSE IF Gate(6) THEN {[t |-> "garbage"]} ELSE OneSingle

(* TLC evaluates function constructors lazily; the random draw inside must be frozen before the text is used twice *)
Frozen(m) == IF m.t = "array" THEN [m EXCEPT !.elems = [i \in 1..Len(m.elems) |-> m.elems[i]]] ELSE m

GInit == Init /\ script = <<>> /\ held = "no"
(* the client still has steps of its own to take (the harness lets it run between two environment steps, so most     *)
(* environment steps are taken from a state where it has none; a few are taken while it is busy)                         *)
Busy == (toBack # <<>> /\ held # "stuck") \/ inq # <<>> \/ fwd # <<>> \/ \E h \in Ops : fe[h].st \in {"alloc", "ready"}
(* the send task under back-pressure: once it has started a write it takes no further step until released *)
SendTaskStep == /\ held # "stuck" /\ (StRecv \/ StSendFails)
                /\ held' = IF held = "armed" /\ HeadSends THEN "stuck" ELSE held
OtherShut == RtRecvFails \/ StNoticeClosed \/ RtNoticeClosed \/ RtHandOver \/ StCloseFront \/ StHandOver \/ StEnd \/ WdRecv \/ ManagerDrop
GStep ==
  \/ (FeNext \/ StreamInt \/ RtRecv \/ RtForward \/ OtherShut) /\ UNCHANGED held
  \/ SendTaskStep
  \/ /\ ~Busy \/ Gate(6)
     /\ \/ AppStart /\ UNCHANGED held
        \/ StreamPoll /\ UNCHANGED held
        \/ (Gate(3) \/ (held = "stuck" /\ Len(toBack) = MaxQueue)) /\ StreamLeave /\ UNCHANGED held     \* the lost-drop corner: try_send into a full queue
        \/ (Gate(FaultGate) \/ (fault # {} /\ Gate(3))) /\ FaultNext /\ UNCHANGED held     \* a second fault tends to follow the first at once
        \/ Gate(AbandonGate) /\ (\E h \in Ops : fe[h].st # "idle" /\ FeAbandon(h)) /\ UNCHANGED held
        \/ rt = "run" /\ (\E m \in OneText : PeerSend(m)) /\ UNCHANGED held
  \/ /\ held = "no" /\ st = "run"
     /\ IF (\E h \in Subs : stream[h].rx = "held") /\ Cardinality({h \in Ops : fe[h].st = "idle"}) > MaxQueue THEN Gate(2) ELSE Gate(HoldGate)
     /\ held' = "armed" /\ UNCHANGED vars
  \/ /\ held # "no"
     /\ IF held = "stuck" /\ Len(toBack) = MaxQueue THEN (Gate(2) /\ ~\E h \in Subs : stream[h].rx = "held") \/ Gate(12)
        ELSE Gate(10)
     /\ held' = "no" /\ UNCHANGED vars
GNext ==
  \/ /\ Len(script) < ScriptLen
     /\ GStep
     /\ script' = script \o Lbl
  \/ /\ Len(script) < ScriptLen /\ ~mgrAlive            \* the client is gone: nothing but late starts is left to script
     /\ script' = Append(script, [op |-> "noop"]) /\ UNCHANGED <<vars, held>>
  \/ /\ Len(script) = ScriptLen                          \* evaluated once, in the state the simulator has chosen
     /\ PrintT(<<"REPLAY", ToJson([script |-> script])>>)
     /\ FALSE /\ UNCHANGED gvars

RS_gen == {[ok |-> TRUE, sub |-> 1], [ok |-> TRUE, sub |-> 2], [ok |-> TRUE, sub |-> 101], [ok |-> FALSE, sub |-> -1], [ok |-> TRUE, sub |-> -1]}
=============================================================================
