CONSTANTS Mode = "single" EmitCases = TRUE MaxEntries = 4 UseRespLimitForWsConnect = FALSE
INIT Init
NEXT Next
INVARIANTS Inv_NoOversizeOnWire Inv_FitsIsSentUnchanged Inv_ReqOutcomeIgnoresRespLimit Emit
CHECK_DEADLOCK FALSE
