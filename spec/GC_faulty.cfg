\* script generation, scenario group "faulty" (constants equal TC_faulty.cfg's; the peer and the faults are switched on)
CONSTANTS
  Ops <- G_faulty_Ops
  Kind <- G_faulty_Kind
  BatchN <- G_faulty_N
  MaxQueue = 2
  BufCap = 1
  SubIds = {1, 2, 101, 102}
  Dev = {}
  PeerMenu = {"resp", "notif", "close", "mnotif", "array", "foreign"}
  MaxPeer = 14
  MaxPush = 6
  Faults = {"sendErr", "recvErr", "peerClose"}
  MaxFaults = 2
  RespShapes <- RS_gen
  Abandon = FALSE
  MaxArr = 3
  ArrMenu = {"resp", "notif", "close"}
  ScriptLen = 18
  HoldGate = 30
  AbandonGate = 10
  FaultGate = 8
INIT GInit
NEXT GNext
CHECK_DEADLOCK FALSE
