\* goal-directed script generation, group "tight" (constants equal TC_tight.cfg's): misc
CONSTANTS
  Ops <- G_tight_Ops
  Kind <- G_tight_Kind
  BatchN <- G_tight_N
  MaxQueue = 1
  BufCap = 1
  SubIds = {1}
  Dev = {}
  PeerMenu = {}
  MaxPeer = 4
  MaxPush = 1
  Faults = {"sendErr"}
  MaxFaults = 1
  RespShapes <- RS_gen
  Abandon = FALSE
  MaxArr = 3
  ArrMenu = {}
  ScriptLen = 7
  HoldGate = 1
  AbandonGate = 1
  FaultGate = 1
  StartOps = {"a", "b", "c"}
  EnvAbandon = TRUE
  EnvHold = FALSE
INIT DInit
NEXT DNext
VIEW GView
CONSTRAINT Prune
INVARIANTS G_ReuseThenDropEnded G_AbandonThenAccept G_SendErrOnUnsub G_CloseThenLeave G_DuplicateSubId
CHECK_DEADLOCK FALSE
