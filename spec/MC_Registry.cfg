\* C13 quick: names {a,b,c}; module slots 1,2 (active) and 3 (clone target); every transition out of every state
\* reachable in <= 2 calls (shortest path kept via VIEW), i.e. all distinguishable call sequences of length <= 3.
CONSTANTS
  Names = {"a", "b", "c"}
  Mods = {1, 2, 3}
  Active = {1, 2}
  MaxDepth = 2
  EmitCases = TRUE
INIT Init
NEXT Next
VIEW View
INVARIANTS Inv_FailedOpIsNoOp Inv_OnlyTargetChanges Inv_SuccessAddsExactly Inv_UnsubNeverWithoutOrigin
CHECK_DEADLOCK FALSE
