\* C05 quick: one subscription, buffer 1, pushes singly and in arrays of <= 2 (notifications, closes), consumer next/unsubscribe/drop anywhere
CONSTANTS
  Ops <- Ops1
  Kind <- K_1sub
  BatchN <- N1
  MaxQueue = 2
  BufCap = 1
  SubIds = {1}
  Dev = {"F3"}
  PeerMenu = {"resp", "notif", "close", "array"}
  MaxPeer = 5
  MaxPush = 3
  Faults = {}
  MaxFaults = 1
  RespShapes <- RS_sub1
  Abandon = FALSE
  MaxArr = 2
  ArrMenu = {"notif", "close"}
INIT Init
NEXT Next
VIEW View
INVARIANTS Inv_EndsOnClose
CHECK_DEADLOCK FALSE
