\* documents F6: ws::connect framing by the response limit makes the outcome depend on it
CONSTANTS Mode = "req" EmitCases = FALSE MaxEntries = 4 UseRespLimitForWsConnect = TRUE
INIT Init
NEXT Next
INVARIANTS Inv_ReqOutcomeIgnoresRespLimit
CHECK_DEADLOCK FALSE
