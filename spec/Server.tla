--------------------------------- MODULE Server ---------------------------------
(* The server's connection admission and shut-down protocol.                                                          *)
(*  - ConnectionGuard (server/src/future.rs:97-131): a semaphore of max_connections permits; one is taken per HTTP      *)
(*    request while it is processed and per WebSocket session for its whole life (server.rs:1018-1149, ws.rs:188-199).   *)
(*  - stop / stopped (future.rs:41-95): a watch channel; the accept loop exits on stop and waits for every connection     *)
(*    task (server.rs:125-169, 1211-1239); a WebSocket connection stops reading, waits until the tasks of the messages   *)
(*    it has read are done, lets the writer drain and stop (ws.rs:93-199, 345-375); an HTTP connection finishes the      *)
(*    request in flight (utils.rs:106-142).  `stopped` resolves when the last StopHandle clone is gone.                  *)
(* C11 uses the guard part (serialised behaviours replayed, available_connections compared after every step);            *)
(* C10 uses the stop part (recorded executions validated against this module).                                          *)
EXTENDS Integers, Sequences, FiniteSets, TLC, Json

CONSTANTS
  Conns,       \* connection attempts
  KindOf,      \* [Conns -> {"http", "ws"}]
  Calls,       \* method calls
  ConnOfCall,  \* [Calls -> Conns]
  Limits,      \* set of max_connections values a behaviour may start with
  MaxDepth,    \* bound on the length of emitted driver-step sequences (0 = no bound)
  EmitCases,
  Hows,        \* ways of ending a connection the behaviours may use: subset of {"respond","reset","clientClose","serverClose","inactive"}
  Dev          \* deviations (none recorded so far)

VARIABLES
  limit, free,   \* the guard
  conn,          \* [Conns -> [st, ...]] st: "idle" | "refused" | "open" | "closing" | "done" ; http requests: "inService"
  call,          \* [Calls -> stage] "unsent" | "onwire" | "read" | "executing" | "finished" | "enqueued" | "written" | "lost"
  stop,          \* stop() has been called
  acceptLoop,    \* "accepting" | "draining" | "done"
  stoppedResolved,
  path
vars == <<limit, free, conn, call, stop, acceptLoop, stoppedResolved, path>>
View == <<limit, free, conn, call, stop, acceptLoop, stoppedResolved>>

Init == /\ limit \in Limits /\ free = limit
        /\ conn = [c \in Conns |-> "idle"]
        /\ call = [q \in Calls |-> "unsent"]
        /\ stop = FALSE /\ acceptLoop = "accepting" /\ stoppedResolved = FALSE /\ path = <<>>

Step(op, res) == path' = Append(path, [op |-> op, res |-> res])
Bounded == MaxDepth = 0 \/ Len(path) < MaxDepth
InService == {c \in Conns : conn[c] \in {"open", "closing", "inService"}}

(* ---- a connection attempt reaches the service: permit or 429 (server.rs:1028-1036) ---- *)
Open(c) ==
  /\ Bounded /\ conn[c] = "idle" /\ acceptLoop = "accepting"
  /\ IF free > 0
       THEN /\ free' = free - 1 /\ conn' = [conn EXCEPT ![c] = IF KindOf[c] = "ws" THEN "open" ELSE "inService"]
            /\ Step([o |-> "open", c |-> c], "ok")
       ELSE /\ conn' = [conn EXCEPT ![c] = "refused"] /\ UNCHANGED free
            /\ Step([o |-> "open", c |-> c], "429")
  /\ UNCHANGED <<limit, call, stop, acceptLoop, stoppedResolved>>

(* an upgrade request whose handshake fails: the permit is released at once (server.rs:1131-1134) *)
UpgradeFail(c) ==
  /\ Bounded /\ conn[c] = "idle" /\ KindOf[c] = "ws" /\ acceptLoop = "accepting"
  /\ conn' = [conn EXCEPT ![c] = "done"]
  /\ Step([o |-> "upgradeFail", c |-> c], IF free > 0 THEN "failed" ELSE "429")
  /\ UNCHANGED <<limit, free, call, stop, acceptLoop, stoppedResolved>>

(* every way a connection in service ends: HTTP response produced, WS closed by the client, reset by the peer (at any     *)
(* point of its life), closed by the server - the slot is freed                                                        *)
Finish(c, how) ==
  /\ Bounded /\ conn[c] \in {"open", "inService"}
  /\ how \in Hows \cap (IF KindOf[c] = "http" THEN {"respond", "reset"} ELSE {"clientClose", "reset", "serverClose", "inactive"})
  /\ conn' = [conn EXCEPT ![c] = "done"]
  /\ free' = free + 1
  /\ call' = [q \in Calls |-> IF ConnOfCall[q] = c /\ call[q] \notin {"unsent", "written"} THEN "lost" ELSE call[q]]
  /\ Step([o |-> "finish", c |-> c, how |-> how], "ok")
  /\ UNCHANGED <<limit, stop, acceptLoop, stoppedResolved>>

--------------------------------------------------------------------------------
(* ---- calls on an open WebSocket connection / the one request of an HTTP connection (C10) ---- *)
CanRead(c) == conn[c] \in {"open", "inService"}       \* a stopping connection ("closing") no longer reads
PeerSends(q) == /\ call[q] = "unsent" /\ conn[ConnOfCall[q]] \in {"open", "inService", "closing"}
                /\ call' = [call EXCEPT ![q] = "onwire"]
                /\ UNCHANGED <<limit, free, conn, stop, acceptLoop, stoppedResolved, path>>
ReaderTakes(q) == /\ call[q] = "onwire" /\ CanRead(ConnOfCall[q])
                  /\ call' = [call EXCEPT ![q] = "read"]
                  /\ UNCHANGED <<limit, free, conn, stop, acceptLoop, stoppedResolved, path>>
HandlerStarts(q) == /\ call[q] = "read"
                    /\ call' = [call EXCEPT ![q] = "executing"]
                    /\ UNCHANGED <<limit, free, conn, stop, acceptLoop, stoppedResolved, path>>
HandlerFinishes(q) == /\ call[q] = "executing"
                      /\ call' = [call EXCEPT ![q] = "finished"]
                      /\ UNCHANGED <<limit, free, conn, stop, acceptLoop, stoppedResolved, path>>
Enqueue(q) == /\ call[q] = "finished"
              /\ \A r \in Calls : ConnOfCall[r] = ConnOfCall[q] => call[r] # "enqueued"        \* message_buffer_capacity 1
              /\ call' = [call EXCEPT ![q] = "enqueued"]
              /\ UNCHANGED <<limit, free, conn, stop, acceptLoop, stoppedResolved, path>>
WriterSends(q) == /\ call[q] = "enqueued" /\ conn[ConnOfCall[q]] \in {"open", "inService", "closing"}
                  /\ call' = [call EXCEPT ![q] = "written"]
                  /\ UNCHANGED <<limit, free, conn, stop, acceptLoop, stoppedResolved, path>>

Stop == /\ ~stop /\ stop' = TRUE
        /\ UNCHANGED <<limit, free, conn, call, acceptLoop, stoppedResolved, path>>
(* each part notices the stop signal on its own *)
AcceptStops == /\ stop /\ acceptLoop = "accepting" /\ acceptLoop' = "draining"
               /\ UNCHANGED <<limit, free, conn, call, stop, stoppedResolved, path>>
ConnNoticesStop(c) == /\ stop /\ conn[c] \in {"open", "inService"}
                      /\ conn' = [conn EXCEPT ![c] = "closing"]
                      /\ UNCHANGED <<limit, free, call, stop, acceptLoop, stoppedResolved, path>>
(* graceful shutdown of one connection: every message it has read is answered and written, then the task ends *)
Pending(c) == {q \in Calls : ConnOfCall[q] = c /\ call[q] \in {"read", "executing", "finished", "enqueued"}}
ConnDone(c) == /\ conn[c] = "closing" /\ Pending(c) = {}
               /\ conn' = [conn EXCEPT ![c] = "done"] /\ free' = free + 1
               /\ call' = [q \in Calls |-> IF ConnOfCall[q] = c /\ call[q] = "onwire" THEN "lost" ELSE call[q]]   \* sent, never read
               /\ UNCHANGED <<limit, stop, acceptLoop, stoppedResolved, path>>
AcceptDone == /\ acceptLoop = "draining" /\ \A c \in Conns : conn[c] \notin {"open", "inService", "closing"}
              /\ acceptLoop' = "done"
              /\ UNCHANGED <<limit, free, conn, call, stop, stoppedResolved, path>>
StoppedResolves == /\ acceptLoop = "done" /\ ~stoppedResolved /\ stoppedResolved' = TRUE
                   /\ UNCHANGED <<limit, free, conn, call, stop, acceptLoop, path>>

GuardActs == \E c \in Conns : Open(c) \/ UpgradeFail(c) \/ \E how \in Hows : Finish(c, how)
StopActs == \/ \E q \in Calls : PeerSends(q) \/ ReaderTakes(q) \/ HandlerStarts(q) \/ HandlerFinishes(q) \/ Enqueue(q) \/ WriterSends(q)
            \/ Stop \/ AcceptStops \/ AcceptDone \/ StoppedResolves
            \/ \E c \in Conns : ConnNoticesStop(c) \/ ConnDone(c)

EmitT == (EmitCases /\ path' # path) => PrintT(<<"REPLAY", ToJson([limit |-> limit, kinds |-> KindOf, path |-> path', free |-> free'])>>)
NextGuard == GuardActs /\ EmitT
NextStop == (StopActs \/ \E c \in Conns : Open(c) \/ Finish(c, "reset") \/ Finish(c, "clientClose")) /\ EmitT

(* graceful stop terminates (C10: "never hangs"): under weak fairness of the server's own steps - handlers finish, the writer  *)
(* writes, every part notices the stop signal - a stop is always followed by `stopped` resolving.  The peer owes nothing:    *)
(* it may never send, never close.                                                                                       *)
FairStop == /\ Init /\ [][NextStop]_vars
            /\ \A q \in Calls : WF_vars(HandlerStarts(q)) /\ WF_vars(HandlerFinishes(q)) /\ WF_vars(Enqueue(q)) /\ WF_vars(WriterSends(q))
            /\ \A c \in Conns : WF_vars(ConnNoticesStop(c)) /\ WF_vars(ConnDone(c))
            /\ WF_vars(AcceptStops) /\ WF_vars(AcceptDone) /\ WF_vars(StoppedResolves)
Live_StopCompletes == stop ~> stoppedResolved
(* vacuity guard: without fairness for the connection tasks the property must FAIL (a connection task that never ends) *)
UnfairStop == /\ Init /\ [][NextStop]_vars
              /\ \A q \in Calls : WF_vars(HandlerStarts(q)) /\ WF_vars(HandlerFinishes(q)) /\ WF_vars(Enqueue(q)) /\ WF_vars(WriterSends(q))
              /\ WF_vars(AcceptStops) /\ WF_vars(AcceptDone) /\ WF_vars(StoppedResolves)

--------------------------------------------------------------------------------
(* C11 *)
Inv_Bound == Cardinality(InService) <= limit
Inv_Conservation == free + Cardinality(InService) = limit
(* C10 *)
Started(q) == call[q] \in {"executing", "finished", "enqueued", "written"}
Inv_StoppedImpliesAnswered == stoppedResolved => \A q \in Calls : call[q] \in {"unsent", "onwire", "written", "lost"}
Inv_StoppedImpliesAllConnTasksDone == stoppedResolved => \A c \in Conns : conn[c] \in {"idle", "refused", "done"}
Inv_NothingExecutesAfterStopped == stoppedResolved => \A q \in Calls : call[q] # "executing" /\ call[q] # "read"
================================================================================
