------------------------------ MODULE RpcMacro ------------------------------
(* C17 - generated APIs: a call through the generated client stub (or an equivalent raw call) reaches the    *)
(* server trait method of that name with equal arguments.                                                     *)
(*                                                                                                            *)
(* The model is the *parameter convention* shared by the two halves of the `#[rpc(server, client)]` macro:    *)
(*   client half  proc-macros/src/render_client.rs:208-270  (encode_params)                                   *)
(*   server half  proc-macros/src/render_server.rs:346-458  (render_params_decoding)                          *)
(*   names        proc-macros/src/rpc_macro.rs:419-426      (rpc_identifier) and                              *)
(*                proc-macros/src/render_server.rs:127-340  (registration of methods, subscriptions, aliases) *)
(*   readers      types/src/params.rs:172-257               (ParamsSequence::next / optional_next, C16)       *)
(*                                                                                                            *)
(* One behaviour = one call:  Init picks the call, Encode produces the abstract params text, Decode applies   *)
(* the server convention.  Concrete values do not occur here on purpose: the property says that values are    *)
(* carried unchanged whatever they are; the harness concretises every "v" token with seeded values.           *)
EXTENDS Naturals, Sequences, FiniteSets, TLC, Json

CONSTANTS MaxParams,   \* flag vectors of length 0..MaxParams (the harness has typed slots for 4)
          Kinds,       \* handler kinds exercised by this config (subset of AllKinds)
          Variants,    \* encoding variants exercised by this config (subset of AllVariants)
          EmitCases

Flags      == {"req", "opt"}          \* "opt" = the Rust type is syntactically Option<..> (render_server.rs:374 is_option)
ParamKinds == {"array", "map"}        \* #[method(param_kind = ..)]; default array (rpc_macro.rs parse of param_kind)
Namespaces == {"none", "under", "dot", "odd"} \* no namespace | namespace = ns (separator "_") | namespace_separator = "."
                                      \* | "odd": no namespace, and parameter names that are neither their own snake_case nor
                                      \*   their own lowerCamelCase form (`_limit`, `type_`, `chainID`, rename = "block-hash")
AllKinds   == {"sync", "async", "blocking", "sub", "alias"}
AllVariants == {"stub",               \* the generated client method (render_client.rs:147-206)
                "rawPosTailOmitted",  \* raw positional array, trailing none-valued optionals dropped
                "rawPosNulls",        \* raw positional array, null for every none-valued optional
                "rawNamedOmit",       \* raw object, declared spellings, none-valued optionals left out
                "rawNamedAlias",      \* raw object, every name in its other-case spelling, null for none
                "missingRequired",    \* raw positional array cut before the last required slot
                "rawNamedNulls",      \* (thorough) raw object, declared spellings, null for none
                "rawNamedReversed"}   \* (thorough) as rawNamedOmit with the members in reverse order
ASSUME Kinds \subseteq AllKinds /\ Variants \subseteq AllVariants /\ MaxParams \in 0..4

FlagVecs == UNION {[1..n -> Flags] : n \in 0..MaxParams}
HasReq(f) == \E i \in 1..Len(f) : f[i] = "req"
(* presence per slot: a required slot always carries a value, an Option slot carries Some(value) or None *)
Presences(f) == {p \in [1..Len(f) -> {"value", "none"}] : \A i \in 1..Len(f) : f[i] = "req" => p[i] = "value"}
VariantsFor(f) == {v \in Variants : v = "missingRequired" => HasReq(f)}

VARIABLES call,     \* the call picked by Init (never changes)
          phase,    \* "picked" -> "encoded" -> "decoded"
          wire,     \* abstract params text
          handler,  \* trait method the server resolved the wire method name to
          result    \* [ok, args]: decoded argument vector, or ok = FALSE for error -32602
vars == <<call, phase, wire, handler, result>>

N == Len(call.flags)
-----------------------------------------------------------------------------
(* ---- method names: rpc_macro.rs:419-426 rpc_identifier -------------------------------------------------- *)
(* a wire name is kept as the pair (namespace form, base name); ns + sep + base is built by the harness      *)
RpcIdentifier(ns, base) == [ns |-> ns, base |-> base]
(* render_server.rs:141-193 methods, :195-262 subscriptions: registered under rpc_identifier(name);          *)
(* render_server.rs:264-285 aliases: `rpc.register_alias(#alias, #rpc_name)` - the alias string is verbatim,  *)
(* i.e. NOT namespaced, and points at the namespaced name of its method (here: m_async)                       *)
Registry(ns) == {[name |-> RpcIdentifier(ns, "m_sync"),     handler |-> "m_sync"],
                 [name |-> RpcIdentifier(ns, "m_async"),    handler |-> "m_async"],
                 [name |-> RpcIdentifier(ns, "m_blocking"), handler |-> "m_blocking"],
                 [name |-> RpcIdentifier(ns, "sub"),        handler |-> "sub"],
                 [name |-> RpcIdentifier("none", "alias"),  handler |-> "m_async"]}
(* the name the client puts on the wire: render_client.rs:155 / :189 use the same rpc_identifier;            *)
(* for kind "alias" the caller names the alias itself (there is no generated client method for an alias)     *)
WireName == IF call.kind = "alias" THEN RpcIdentifier("none", "alias")
            ELSE RpcIdentifier(call.ns, IF call.kind = "sub" THEN "sub" ELSE "m_" \o call.kind)
Resolve(name, ns) == IF \E e \in Registry(ns) : e.name = name
                       THEN (CHOOSE e \in Registry(ns) : e.name = name).handler
                       ELSE "methodNotFound"
ExpectedHandler == IF call.kind = "alias" THEN "m_async" ELSE IF call.kind = "sub" THEN "sub" ELSE "m_" \o call.kind

(* ---- parameter names ------------------------------------------------------------------------------------ *)
(* slot names used by the generated family: p0, second_param, thirdArg, d.  "decl" = the declared spelling   *)
(* (render_client.rs:232 arg.name(); render_server.rs:414 serde rename), "other" = the other-case spelling    *)
(* (render_server.rs:409-412 alias = snake_case, alias = lowerCamelCase).  For p0 and d both coincide.        *)
OtherSpelling(i) == IF i \in {2, 3} THEN "other" ELSE "decl"
Accepted(sp) == sp \in {"decl", "other"}       \* rename + the two aliases cover exactly these two spellings

(* ---- Encode --------------------------------------------------------------------------------------------- *)
Tok(p) == IF p = "value" THEN "v" ELSE "null"   \* Option::None serialises as null (serde), Some(x) as x
Absent      == [form |-> "absent", toks |-> <<>>, members |-> <<>>]
ArrWire(t)  == [form |-> "arr", toks |-> t, members |-> <<>>]
ObjWire(ms) == [form |-> "obj", toks |-> <<>>, members |-> ms]
Member(i, sp) == [slot |-> i, sp |-> sp, tok |-> Tok(call.pres[i])]
AllToks == [i \in 1..N |-> Tok(call.pres[i])]
Max0(S) == IF S = {} THEN 0 ELSE CHOOSE m \in S : \A x \in S : x <= m
LastValue == Max0({i \in 1..N : call.pres[i] = "value"})
LastReq   == Max0({i \in 1..N : call.flags[i] = "req"})
Reverse(s) == [i \in 1..Len(s) |-> s[Len(s) + 1 - i]]
IsV(m) == m.tok = "v"

(* render_client.rs:217-221: no params -> ArrayParams::new() -> core/src/params.rs:123-126 build() = None,    *)
(* i.e. the request has no "params" member at all.  :256-268 array: insert every argument in declaration      *)
(* order (None -> null).  :226-253 map: insert (name, value) for every argument in declaration order.         *)
StubWire == IF N = 0 THEN Absent
            ELSE IF call.pk = "array" THEN ArrWire(AllToks)
            ELSE ObjWire([i \in 1..N |-> Member(i, "decl")])

EncodeWire ==
  CASE call.variant = "stub"              -> StubWire
    [] call.variant = "rawPosTailOmitted" -> ArrWire(SubSeq(AllToks, 1, LastValue))
    [] call.variant = "rawPosNulls"       -> ArrWire(AllToks)
    [] call.variant = "rawNamedOmit"      -> ObjWire(SelectSeq([i \in 1..N |-> Member(i, "decl")], IsV))
    [] call.variant = "rawNamedAlias"     -> ObjWire([i \in 1..N |-> Member(i, OtherSpelling(i))])
    [] call.variant = "rawNamedNulls"     -> ObjWire([i \in 1..N |-> Member(i, "decl")])
    [] call.variant = "rawNamedReversed"  -> ObjWire(Reverse(SelectSeq([i \in 1..N |-> Member(i, "decl")], IsV)))
    [] call.variant = "missingRequired"   -> ArrWire(SubSeq(AllToks, 1, LastReq - 1))

(* ---- Decode --------------------------------------------------------------------------------------------- *)
E32602 == [ok |-> FALSE, args |-> <<>>]
Ok(a)  == [ok |-> TRUE, args |-> a]

(* render_server.rs:370-391 decode_array: `let mut seq = params.sequence()` then one typed read per slot in   *)
(* declaration order; Option slot -> optional_next (types/src/params.rs:249-257: None at exhaustion, at null   *)
(* and for absent params), other slot -> next (params.rs:226-233: error at exhaustion / absent params; a null  *)
(* does not deserialise into u64 / String / struct / Vec, so it is an invalid-params error too).              *)
(* `pos` = elements consumed so far (the cursor of ParamsSeq.tla).                                            *)
RECURSIVE SeqDecode(_, _, _, _)
SeqDecode(i, pos, toks, acc) ==
  IF i > N THEN Ok(acc)                               \* surplus elements are never looked at
  ELSE IF pos >= Len(toks)
    THEN IF call.flags[i] = "opt" THEN SeqDecode(i + 1, pos, toks, Append(acc, "none")) ELSE E32602
  ELSE IF toks[pos + 1] = "null"
    THEN IF call.flags[i] = "opt" THEN SeqDecode(i + 1, pos + 1, toks, Append(acc, "none")) ELSE E32602
  ELSE SeqDecode(i + 1, pos + 1, toks, Append(acc, "value"))

(* render_server.rs:394-447 decode_map: #[derive(Deserialize)] struct ParamsObject with one field per slot,   *)
(* `rename = name, alias = snake, alias = camel`; a missing field of type Option<T> is None (serde), a missing *)
(* field of another type is an error; null into Option<T> is None, null into another type is an error.        *)
RECURSIVE MapDecode(_, _, _)
MapDecode(i, ms, acc) ==
  IF i > N THEN Ok(acc)
  ELSE LET hits == {j \in 1..Len(ms) : ms[j].slot = i /\ Accepted(ms[j].sp)} IN
    IF hits = {} THEN
         IF call.flags[i] = "opt" THEN MapDecode(i + 1, ms, Append(acc, "none")) ELSE E32602
    ELSE LET m == ms[CHOOSE j \in hits : TRUE] IN
         IF m.tok = "null"
           THEN IF call.flags[i] = "opt" THEN MapDecode(i + 1, ms, Append(acc, "none")) ELSE E32602
           ELSE MapDecode(i + 1, ms, Append(acc, "value"))

(* render_server.rs:352-354: a method without params does no decoding at all.  :449-455: the *text* decides:  *)
(* `if params.is_object() { decode_map } else { decode_array }` - the declared param_kind is not consulted.   *)
DecodeWire(w) ==
  IF N = 0 THEN Ok(<<>>)
  ELSE IF w.form = "obj" THEN MapDecode(1, w.members, <<>>)
  ELSE SeqDecode(1, 0, w.toks, <<>>)            \* "absent" behaves as the empty array (params.rs:226-257)

-----------------------------------------------------------------------------
NoWire == [form |-> "unset", toks |-> <<>>, members |-> <<>>]
NoResult == [ok |-> FALSE, args |-> <<"unset">>]

(* every call of the family.  (Deliberately not a named constant set `Calls`: TLC evaluates constant           *)
(* definitions eagerly and needs 28 s to build and normalise that set; the nested \E enumerates directly.)      *)
Init == /\ \E f \in FlagVecs : \E k \in ParamKinds, s \in Namespaces, h \in Kinds, p \in Presences(f), v \in VariantsFor(f) :
              /\ (s = "odd" => k = "map" /\ v # "rawNamedAlias")     \* names only matter by name; an odd name has no "other-case" spelling
              /\ call = [flags |-> f, pk |-> k, ns |-> s, kind |-> h, pres |-> p, variant |-> v]
        /\ phase = "picked" /\ wire = NoWire /\ handler = "unset" /\ result = NoResult

Encode == /\ phase = "picked"
          /\ wire' = EncodeWire
          /\ phase' = "encoded"
          /\ UNCHANGED <<call, handler, result>>

Decode == /\ phase = "encoded"
          /\ handler' = Resolve(WireName, call.ns)
          /\ result' = DecodeWire(wire)
          /\ phase' = "decoded"
          /\ UNCHANGED <<call, wire>>

Next == Encode \/ Decode
Spec == Init /\ [][Next]_vars

-----------------------------------------------------------------------------
Done == phase = "decoded"

(* the property: whatever admissible encoding the caller chose, the server method sees the caller's vector *)
Inv_ArgsEqual == (Done /\ call.variant # "missingRequired") => (result.ok /\ result.args = call.pres)
Inv_MissingRequiredIsError == (Done /\ call.variant = "missingRequired") => ~result.ok
(* namespaces, aliases, sync/async/blocking and subscriptions all resolve to the method of that name *)
Inv_SameHandlerUnderAliasAndNamespace == Done => handler = ExpectedHandler
(* the stub never depends on the server's leniency: it always sends one token per declared slot *)
Inv_StubIsTotal == (phase # "picked" /\ call.variant = "stub" /\ N > 0) =>
                      IF call.pk = "array" THEN wire.form = "arr" /\ Len(wire.toks) = N
                      ELSE wire.form = "obj" /\ Len(wire.members) = N
Inv_TypeOK == /\ phase \in {"picked", "encoded", "decoded"}
              /\ wire.form \in {"unset", "absent", "arr", "obj"}
              /\ Done => Len(result.args) \in {0, N}

Emit == (EmitCases /\ Done) =>
          PrintT(<<"REPLAY", ToJson([flags |-> call.flags, pk |-> call.pk, ns |-> call.ns, kind |-> call.kind,
                                      pres |-> call.pres, variant |-> call.variant, wire |-> wire,
                                      handler |-> handler, ok |-> result.ok, args |-> result.args])>>)
=============================================================================
