\* every walk of <= 3 handshakes over 13 answer classes, max_redirections 0..3
CONSTANTS MaxMax = 3 EmitCases = TRUE
INIT Init
NEXT Next
INVARIANTS Inv_Bounded Inv_ConnectedWhereLed Inv_HostNamesTheServer Inv_Walk Emit
CHECK_DEADLOCK FALSE
