------------------------------ MODULE ClientBatch ------------------------------
(* C12 - what a client may return for ONE batch of n entries (wire ids S..S+n-1) when the peer's reply array is an       *)
(* arbitrary sequence of responses over the ids S-1..S+n (one below, the batch's own, one above).                        *)
(* `Strict` is the outcome of the async client as modelled in Client.tla (process_batch_response, helpers.rs:52-90,      *)
(* mod.rs:722-776): the reply is matched to the pending batch by its [min, max] id range, slots are filled by id,         *)
(* a later answer overwrites an earlier one, unanswered slots stay placeholder errors.                                   *)
(* `Allowed` is what the property itself permits for any client (the HTTP client included):                             *)
(* either the whole call fails, or exactly n slots each holding an answer to ITS OWN id or an error placeholder;         *)
(* a reply that is a permutation of the n ids must succeed positionally.                                                *)
EXTENDS Integers, Sequences, FiniteSets, TLC, Json

CONSTANTS MaxN, MaxReply, EmitCases
S == 5                                       \* first wire id of the batch

VARIABLES c, phase
vars == <<c, phase>>
Cases == UNION {{[n |-> n, reply |-> r] : r \in UNION {[1..k -> (S - 1)..(S + n)] : k \in 0..MaxReply}} : n \in 1..MaxN}
Init == c \in Cases /\ phase = "new"
Next == phase = "new" /\ phase' = "done" /\ c' = c

Ids(x) == {x.reply[i] : i \in 1..Len(x.reply)}
Range(x) == S..(S + x.n - 1)
IsPermutation(x) == Len(x.reply) = x.n /\ Ids(x) = Range(x)
LastPos(x, id) == CHOOSE i \in {j \in 1..Len(x.reply) : x.reply[j] = id} : \A j \in 1..Len(x.reply) : x.reply[j] = id => j <= i

(* the async client: tokens are reply positions; -1 = placeholder error *)
Min(s) == CHOOSE a \in s : \A b \in s : a <= b
Max(s) == CHOOSE a \in s : \A b \in s : a >= b
Strict(x) ==
  IF x.reply = <<>> THEN [k |-> "fail"]                                   \* empty array: EmptyBatchRequest
  ELSE IF Min(Ids(x)) = S /\ Max(Ids(x)) = S + x.n - 1
    THEN [k |-> "ok", slots |-> [i \in 1..x.n |-> IF (S + i - 1) \in Ids(x) THEN LastPos(x, S + i - 1) ELSE -1]]
    ELSE [k |-> "fail"]                                                    \* range matches no pending batch: the connection is abandoned

(* the property: is outcome o acceptable for case x *)
SlotOk(x, i, t) == t = -1 \/ (t \in 1..Len(x.reply) /\ x.reply[t] = S + i - 1)
Acceptable(x, o) ==
  IF IsPermutation(x) THEN o.k = "ok" /\ \A i \in 1..x.n : o.slots[i] \in 1..Len(x.reply) /\ x.reply[o.slots[i]] = S + i - 1
  ELSE o.k = "fail" \/ (Len(o.slots) = x.n /\ \A i \in 1..x.n : SlotOk(x, i, o.slots[i]))

Inv_StrictIsAcceptable == Acceptable(c, Strict(c))
Emit == (EmitCases /\ phase = "done") =>
  PrintT(<<"REPLAY", ToJson([n |-> c.n, start |-> S, reply |-> c.reply, strict |-> Strict(c), permutation |-> IsPermutation(c)])>>)
================================================================================
