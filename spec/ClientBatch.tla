------------------------------ MODULE ClientBatch ------------------------------
(* C12 - what a client may return for ONE batch of n entries (wire ids S..S+n-1) when the peer's reply array is an       *)
(* arbitrary sequence of responses over the ids S-1..S+n (one below, the batch's own, one above).                        *)
(* `Strict` is the outcome of the async client as modelled in Client.tla (process_batch_response, helpers.rs:52-90,      *)
(* mod.rs:722-776): the reply is matched to the pending batch by its [min, max] id range, slots are filled by id,         *)
(* a later answer overwrites an earlier one, unanswered slots stay placeholder errors.                                   *)
(* `Allowed` is what the property itself permits for any client (the HTTP client included):                             *)
(* either the whole call fails, or exactly n slots each holding an answer to ITS OWN id or an error placeholder;         *)
(* a reply that is a permutation of the n ids must succeed positionally.                                                *)
EXTENDS Integers, Sequences, FiniteSets, TLC, Json

CONSTANTS MaxN, MaxReply, EmitCases
S == 5                                       \* first wire id of the batch

VARIABLES c, phase
vars == <<c, phase>>
(* `undec`: the position of the one reply element whose result does not decode into the caller's result type R (0: every    *)
(* result decodes).  Error objects are not decoded; by the replay's convention every third element is an error object.         *)
Replies(n) == UNION {[1..k -> (S - 1)..(S + n)] : k \in 0..MaxReply}
Cases == UNION {UNION {{[n |-> n, reply |-> r, undec |-> u] : u \in 0..Len(r)} : r \in Replies(n)} : n \in 1..MaxN}
IsErrorObject(p) == p % 3 = 0
Init == c \in Cases /\ phase = "new"
Next == phase = "new" /\ phase' = "done" /\ c' = c

Ids(x) == {x.reply[i] : i \in 1..Len(x.reply)}
Range(x) == S..(S + x.n - 1)
IsPermutation(x) == Len(x.reply) = x.n /\ Ids(x) = Range(x)
LastPos(x, id) == CHOOSE i \in {j \in 1..Len(x.reply) : x.reply[j] = id} : \A j \in 1..Len(x.reply) : x.reply[j] = id => j <= i

(* the async client: tokens are reply positions; -1 = placeholder error *)
Min(s) == CHOOSE a \in s : \A b \in s : a <= b
Max(s) == CHOOSE a \in s : \A b \in s : a >= b
Routed(x) ==
  IF x.reply = <<>> THEN [k |-> "fail"]                                   \* empty array: EmptyBatchRequest
  ELSE IF Min(Ids(x)) = S /\ Max(Ids(x)) = S + x.n - 1
    THEN [k |-> "ok", slots |-> [i \in 1..x.n |-> IF (S + i - 1) \in Ids(x) THEN LastPos(x, S + i - 1) ELSE -1]]
    ELSE [k |-> "fail"]                                                    \* range matches no pending batch: the connection is abandoned
(* the element that ends up in a slot is decoded into R (mod.rs:596-608): one that does not decode fails the whole call *)
UsesUndecodable(x, o) == o.k = "ok" /\ x.undec > 0 /\ ~IsErrorObject(x.undec) /\ \E i \in 1..x.n : o.slots[i] = x.undec
Strict(x) == IF UsesUndecodable(x, Routed(x)) THEN [k |-> "fail"] ELSE Routed(x)

(* the property: is outcome o acceptable for case x *)
SlotOk(x, i, t) == t = -1 \/ (t \in 1..Len(x.reply) /\ x.reply[t] = S + i - 1)
(* a slot never shows the value of an element that does not decode: the entry is an error (-1) or the whole call fails *)
NoUndecodedValue(x, o) == x.undec > 0 /\ ~IsErrorObject(x.undec) => \A i \in 1..x.n : o.slots[i] # x.undec
Acceptable(x, o) ==
  IF IsPermutation(x) /\ ~(x.undec \in 1..Len(x.reply) /\ ~IsErrorObject(x.undec))
    THEN o.k = "ok" /\ \A i \in 1..x.n : o.slots[i] \in 1..Len(x.reply) /\ x.reply[o.slots[i]] = S + i - 1
    ELSE o.k = "fail" \/ (Len(o.slots) = x.n /\ NoUndecodedValue(x, o) /\ \A i \in 1..x.n : SlotOk(x, i, o.slots[i]))

Inv_StrictIsAcceptable == Acceptable(c, Strict(c))
Emit == (EmitCases /\ phase = "done") =>
  PrintT(<<"REPLAY", ToJson([n |-> c.n, start |-> S, reply |-> c.reply, undec |-> c.undec, strict |-> Strict(c),
                               permutation |-> (IsPermutation(c) /\ ~(c.undec \in 1..Len(c.reply) /\ ~IsErrorObject(c.undec)))])>>)
================================================================================
