------------------------------ MODULE Limits ------------------------------
(* C07 / C08 - size limits.                                                                                        *)
(* C07: a message is processed iff its size <= max_request_body_size, on every entry point and transport           *)
(*      (server.rs:1092-1094, ws.rs:129-141, 482-484, http_helpers.rs:133-149) - the response limit does not occur. *)
(* C08: the response writer (method_response.rs:176-235, 517-550) and the batch builder (:319-377) as the state      *)
(*      machines they are: lengths are integers, the harness builds payloads of exactly these lengths.             *)
EXTENDS Integers, Sequences, FiniteSets, TLC, Json

CONSTANTS Mode, EmitCases, MaxEntries,
          UseRespLimitForWsConnect   \* FALSE: design; TRUE: tree before the F6 fix (ws::connect frames by the response limit)

Limits == {64, 100, 1000}
Entries == {"server", "tower", "wsconnect", "httpcall"}
TransportsOf(e) == CASE e = "wsconnect" -> {"ws"} [] e = "httpcall" -> {"http"} [] OTHER -> {"http", "ws"}
Framings(tr) == IF tr = "ws" THEN {"frame", "frameBp"}                                          \* Bp: while the connection's outbound side is saturated
                ELSE {"cl1", "nocl1", "cl2", "nocl2", "nocl3"}                                   \* Content-Length yes/no x chunks

SizeChoices(req, resp) == {req - 1, req, req + 1, 4 * req, resp - 1, resp, resp + 1}
(* the limit actually applied to inbound frames by each entry point *)
EffectiveReqLimit(x) == IF UseRespLimitForWsConnect /\ x.entry = "wsconnect" THEN x.resp ELSE x.req
Outcome(x) == IF x.size <= EffectiveReqLimit(x) THEN "processed" ELSE "rejected"
(* the property: *)
Spec_Outcome(x) == IF x.size <= x.req THEN "processed" ELSE "rejected"

--------------------------------------------------------------------------
(* C08 response side *)
RespLimits == {100, 200, 1024}
MinEntry == 36                      \* shortest success response with a one-digit id and an empty-string result is 35 bytes
VARIABLES c, phase, len, lens, aborted
vars == <<c, phase, len, lens, aborted>>

SingleCases == [m : RespLimits, delta : -2..2, idw : {"d1", "d20", "str"}, content : {"ascii", "esc", "multi"}, kind : {"result", "errdata"}]

Init ==
  /\ phase = "new" /\ lens = <<>> /\ aborted = FALSE
  /\ CASE Mode = "req"    -> /\ c \in {x \in [entry : Entries, tr : {"http", "ws"}, framing : {"frame", "frameBp", "cl1", "nocl1", "cl2", "nocl2", "nocl3"},
                                              req : Limits, resp : Limits, k : 1..7] :
                                        x.tr \in TransportsOf(x.entry) /\ x.framing \in Framings(x.tr)}
                             /\ len = 0
       [] Mode = "single" -> c \in SingleCases /\ len = 0
       [] Mode = "batch"  -> c \in [m : RespLimits] /\ len = 1          \* new_with_limit: "["

SizeOf(x) == CASE x.k = 1 -> x.req - 1 [] x.k = 2 -> x.req [] x.k = 3 -> x.req + 1 [] x.k = 4 -> 4 * x.req
               [] x.k = 5 -> x.resp - 1 [] x.k = 6 -> x.resp [] x.k = 7 -> x.resp + 1
ReqX == [entry |-> c.entry, tr |-> c.tr, framing |-> c.framing, req |-> c.req, resp |-> c.resp, size |-> SizeOf(c)]

EvalReq == Mode = "req" /\ phase = "new" /\ phase' = "done" /\ UNCHANGED <<c, len, lens, aborted>>

(* single response: BoundedWriter accepts exactly max_len bytes *)
EvalSingle == /\ Mode = "single" /\ phase = "new" /\ phase' = "done"
              /\ len' = c.m + c.delta
              /\ aborted' = (c.m + c.delta > c.m)
              /\ UNCHANGED <<c, lens>>

(* batch: one Append per entry response of length l; relative choices probe the boundary at every position *)
Room == c.m - len - 1
(* (c.m - 2: the largest entry that fits alone - wherever it comes later it exceeds what is left by far, not just by a byte or two) *)
LenChoices == IF Mode # "batch" THEN {} ELSE {l \in {MinEntry, MinEntry + 7, Room - 1, Room, Room + 1, Room + 2, c.m - 2} : l >= MinEntry /\ l <= c.m}
AppendEntry(l) ==
             /\ Mode = "batch" /\ phase \in {"new", "appending"} /\ ~aborted /\ Len(lens) < MaxEntries
             /\ lens' = Append(lens, l)
             /\ phase' = "appending"
             /\ IF l + len + 1 > c.m THEN aborted' = TRUE /\ len' = len
                ELSE aborted' = FALSE /\ len' = len + l + 1
             /\ UNCHANGED c
(* a notification among the entries runs but appends nothing: the reply, and so the limit, does not see it (entry length 0) *)
NCalls(s) == Cardinality({i \in 1..Len(s) : s[i] > 0})
AppendNotif == /\ Mode = "batch" /\ phase \in {"new", "appending"} /\ ~aborted /\ Len(lens) < MaxEntries
               /\ Len(lens) - NCalls(lens) < 2
               /\ lens' = Append(lens, 0) /\ phase' = "appending"
               /\ UNCHANGED <<c, len, aborted>>
FinishBatch == /\ Mode = "batch" /\ phase = "appending" /\ NCalls(lens) > 0 /\ phase' = "done" /\ UNCHANGED <<c, len, lens, aborted>>

Next == EvalReq \/ EvalSingle \/ (\E l \in LenChoices : AppendEntry(l)) \/ AppendNotif \/ FinishBatch

(* what is put on the wire *)
WireLen == IF Mode = "batch" THEN len ELSE len      \* batch: trailing ',' becomes ']' - same length
Inv_NoOversizeOnWire == Mode \in {"single", "batch"} => (phase = "done" /\ ~aborted => WireLen <= c.m)
RECURSIVE SumTo(_, _)
SumTo(s, i) == IF i = 0 THEN 0 ELSE s[i] + SumTo(s, i - 1)
SumSeq(s) == SumTo(s, Len(s))
Inv_FitsIsSentUnchanged ==
  Mode = "batch" => (phase = "done" =>
     (aborted <=> (1 + NCalls(lens) + SumSeq(lens) > c.m)))
Inv_ReqOutcomeIgnoresRespLimit == Mode = "req" => Outcome(ReqX) = Spec_Outcome(ReqX)

Emit == (EmitCases /\ phase = "done") =>
  PrintT(<<"REPLAY", ToJson(
     CASE Mode = "req" -> [mode |-> "req", case |-> ReqX, expect |-> Spec_Outcome(ReqX)]
       [] Mode = "single" -> [mode |-> "single", case |-> c, total |-> len, expect |-> IF aborted THEN "e32008" ELSE "unchanged"]
       [] Mode = "batch" -> [mode |-> "batch", case |-> c, lens |-> lens, total |-> len,
                             expect |-> IF aborted THEN "e32011" ELSE "unchanged"])>>)
===========================================================================
