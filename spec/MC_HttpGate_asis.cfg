\* documents F14: with the first frame deciding even when blank, Inv_SniffIsFunctionOfBody must be violated
CONSTANTS Mode = "chunks" EmitCases = FALSE FirstFrameDecides = TRUE
INIT Init
NEXT Next
INVARIANTS Inv_SniffIsFunctionOfBody
CHECK_DEADLOCK FALSE
