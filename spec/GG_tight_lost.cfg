\* goal-directed script generation, group "tight" (constants equal TC_tight.cfg's): lost
CONSTANTS
  Ops <- G_tight_Ops
  Kind <- G_tight_Kind
  BatchN <- G_tight_N
  MaxQueue = 1
  BufCap = 1
  SubIds = {1}
  Dev = {}
  PeerMenu = {}
  MaxPeer = 4
  MaxPush = 3
  Faults = {}
  MaxFaults = 1
  RespShapes <- RS_gen
  Abandon = FALSE
  MaxArr = 3
  ArrMenu = {}
  ScriptLen = 9
  HoldGate = 1
  AbandonGate = 1
  FaultGate = 1
  StartOps = {"b", "c", "d"}
  Want = {"lostDropThenPush", "lagged"}
  EnvAbandon = FALSE
  EnvHold = TRUE
INIT DInit
NEXT DNext
VIEW GView
CONSTRAINT Prune
INVARIANTS G_LostDropThenPush G_Lagged
CHECK_DEADLOCK FALSE
