\* every sequence of <= 3 calls / notifications x 18 reply classes
CONSTANTS MaxCalls = 3 EmitCases = TRUE
INIT Init
NEXT Next
INVARIANTS Inv_OkOnlyForOwnId Inv_OutcomeAllowed Inv_IdsDistinct Inv_ErrorObjectDelivered Emit
CHECK_DEADLOCK FALSE
