\* C17 thorough: as quick plus the variants rawNamedNulls and rawNamedReversed (28 110 calls); the harness runs k = 10
\* seeded concretisations per call.
CONSTANTS
  MaxParams = 4
  Kinds <- All_Kinds
  Variants <- Thorough_Variants
  EmitCases = TRUE
INIT Init
NEXT Next
INVARIANTS Inv_ArgsEqual Inv_MissingRequiredIsError Inv_SameHandlerUnderAliasAndNamespace Inv_StubIsTotal Inv_TypeOK Emit
CHECK_DEADLOCK FALSE
