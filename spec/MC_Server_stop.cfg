\* C10 quick: one WebSocket connection with 2 calls and one HTTP request, stop at every point, all interleavings
CONSTANTS
  Conns <- Cn2
  KindOf <- K2
  Calls <- Q3
  ConnOfCall <- CO3
  Limits = {2}
  MaxDepth = 0
  EmitCases = FALSE
  Hows = {"respond", "reset", "clientClose", "serverClose"}
  Dev = {}
INIT Init
NEXT NextStop
VIEW View
INVARIANTS Inv_Bound Inv_Conservation Inv_StoppedImpliesAnswered Inv_StoppedImpliesAllConnTasksDone Inv_NothingExecutesAfterStopped
CHECK_DEADLOCK FALSE
