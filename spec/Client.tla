-------------------------------- MODULE Client --------------------------------
(* The asynchronous jsonrpsee client (core/src/client/async_client/{mod,helpers,manager,rpc_service}.rs,        *)
(* core/src/client/mod.rs): front-end operations, the front->back queue, the send task, the read task, the      *)
(* request manager (four tables), bounded subscription streams, the shutdown hand-over, and an adversarial peer. *)
(* One action per critical section / await-delimited step of the code; the file:line of each is in its comment.  *)
(*                                                                                                               *)
(* Properties decided on this module: C03 (routing), C05 (streams), C09 (shutdown), C12 (batches), C18 (tables). *)
(* `Dev` names behaviours of the tree that deviate from the design (DESIGN.md section 6); with Dev = {} the spec  *)
(* is the intended protocol, with a deviation switched on TLC exhibits the counterexample that documents it.     *)
EXTENDS Integers, Sequences, FiniteSets, TLC

CONSTANTS
  Ops,        \* front-end operations (each is one call / subscribe / batch future)
  Kind,       \* [Ops -> {"call", "sub", "batch"}]
  BatchN,     \* [Ops -> 1..3] number of entries of a batch op (ignored for other kinds)
  MaxQueue,   \* capacity of the front->back channel = max_concurrent_requests      (mod.rs:384)
  BufCap,     \* capacity of a subscription stream = max_buffer_capacity_per_subscription
  SubIds,     \* subscription ids the peer may hand out
  Dev,        \* subset of {"F3","F7","F8","F10","F13a","F13b","F13c","F16","F17"}
  PeerMenu,   \* which kinds of texts the peer may send: subset of {"resp","notif","close","mnotif","array","garbage","foreign","dup"}
  MaxPeer,    \* bound on the number of texts the peer sends
  MaxPush,    \* bound on the payload counter of subscription notifications
  Faults,     \* subset of {"sendErr","recvErr","peerClose"} that the environment may inject
  MaxFaults,  \* how many of them in one behaviour (2: the sending and the receiving half both fail)
  MaxArr,     \* longest array the peer sends
  ArrMenu,    \* element kinds allowed inside arrays: subset of {"resp","notif","close","mnotif"}
  Abandon,    \* BOOLEAN: may the application give futures up before they return (timeouts, select!)
  RespShapes  \* which responses the peer forms: set of [ok : BOOLEAN, sub : SubIds \cup {-1}] (sub = subscription id carried by a success)

None == [k |-> "none"]
NoId == -1
IdMax == 1000000          \* stands for u64::MAX (TLC integers are 32 bit); only ever produced by the peer

VARIABLES
  idCtr,      \* RequestIdManager.current_id                                         (client/mod.rs:458-517)
  fe,         \* [Ops -> [st, id, id2, res]] front-end futures
  toBack,     \* the front->back channel (FIFO of FrontToBack)
  req,        \* RequestManager.requests       : id -> entry                          (manager.rs:81-96)
  subIdx,     \* RequestManager.subscriptions  : subscription id -> request id
  bat,        \* RequestManager.batches        : set of [lo, hi, h]
  stream,     \* [Ops -> [buf, tx, rx, lagged, sub]]  per-subscription bounded channel (client/mod.rs:608-655)
  seen,       \* ids of the requests the transport has been handed (what the peer can answer)
  unsubSent,  \* [SubIds -> Nat] unsubscribe requests handed to the transport, per subscription id
  inq,        \* texts sent by the peer, not yet consumed by the read task
  nPeer, nTok,\* counters bounding / numbering the peer's texts
  pushed,     \* [SubIds -> Nat] payload counter per subscription id (notifications carry 1,2,3,...)
  st, rt, wd, \* program counters of the send task, read task, shutdown watcher
  feOpen,     \* the front->back channel is open (is_connected)
  closeCh,    \* the tasks -> watcher channel (capacity 1)                             (mod.rs:390)
  wdAlive,    \* the watcher still holds the receiving end of closeCh
  cause,      \* SharedDisconnectReason                                               (mod.rs:157)
  stRes, rtRes,\* result each task hands to the watcher
  fault,      \* faults injected so far
  mgrAlive,   \* the Arc<Mutex<RequestManager>> still has an owner (a background task)
  fwd,        \* close requests the read task still has to forward to the send task (pending_unsubscribes, mod.rs:985-1000)
  closeSeen   \* monitor: subscription ops whose close notification the read task has consumed while they were active

vars == <<idCtr, fe, toBack, req, subIdx, bat, stream, seen, unsubSent, inq, nPeer, nTok, pushed,
          st, rt, wd, feOpen, closeCh, wdAlive, cause, stRes, rtRes, fault, mgrAlive, closeSeen, fwd>>
shutVars == <<st, rt, wd, feOpen, closeCh, wdAlive, cause, stRes, rtRes, mgrAlive, closeSeen, fwd>>

Calls == {h \in Ops : Kind[h] = "call"}
Subs  == {h \in Ops : Kind[h] = "sub"}
Bats  == {h \in Ops : Kind[h] = "batch"}

NoStream == [buf |-> <<>>, tx |-> FALSE, rx |-> "none", lagged |-> FALSE, sub |-> NoId, got |-> 0, next |-> 0]

Init ==
  /\ idCtr = 0
  /\ fe = [h \in Ops |-> [st |-> "idle", id |-> NoId, id2 |-> NoId, res |-> None]]
  /\ toBack = <<>> /\ req = <<>> /\ subIdx = <<>> /\ bat = {}
  /\ stream = [h \in Ops |-> NoStream]
  /\ seen = {} /\ unsubSent = [s \in SubIds |-> 0] /\ inq = <<>> /\ nPeer = 0 /\ nTok = 0
  /\ pushed = [s \in SubIds |-> 0]
  /\ st = "run" /\ rt = "run" /\ wd = "wait" /\ feOpen = TRUE /\ closeCh = <<>> /\ wdAlive = TRUE
  /\ cause = None /\ stRes = None /\ rtRes = None /\ fault = {} /\ mgrAlive = TRUE /\ closeSeen = {} /\ fwd = <<>>

-----------------------------------------------------------------------------
(* small helpers over partial functions *)
Has(f, x) == x \in DOMAIN f
Put(f, x, v) == [y \in DOMAIN f \cup {x} |-> IF y = x THEN v ELSE f[y]]
Del(f, x) == [y \in DOMAIN f \ {x} |-> f[y]]
Last(s) == s[Len(s)]

Range(h) == fe[h].id .. (fe[h].id + BatchN[h] - 1)

-----------------------------------------------------------------------------
(* ---------------------------------- front end ---------------------------------- *)

(* next_request_id: mod.rs:519-523 (call), 616-617 (subscribe: two ids), 543-545 (batch: ONE tick, F10)             *)
FeAlloc(h) ==
  /\ fe[h].st = "idle"
  /\ LET n == CASE Kind[h] = "call" -> 1 [] Kind[h] = "sub" -> 2
                [] Kind[h] = "batch" -> IF "F10" \in Dev THEN 1 ELSE BatchN[h]
     IN /\ idCtr' = idCtr + n
        /\ fe' = [fe EXCEPT ![h] = [@ EXCEPT !.st = "alloc", !.id = idCtr, !.id2 = IF Kind[h] = "sub" THEN idCtr + 1 ELSE NoId]]
  /\ UNCHANGED <<toBack, req, subIdx, bat, stream, seen, unsubSent, inq, nPeer, nTok, pushed, fault>> /\ UNCHANGED shutVars

(* rpc_service.rs:42-103: tx.send(FrontToBack::..).await - blocks while the channel is full, fails when it is closed *)
FeEnqueue(h) ==
  /\ fe[h].st = "alloc"
  /\ \/ /\ feOpen /\ Len(toBack) < MaxQueue
        /\ toBack' = Append(toBack, [t |-> Kind[h], h |-> h])
        /\ fe' = [fe EXCEPT ![h].st = "sent"]
     \/ /\ ~feOpen                                              \* SendError -> Error::ServiceDisconnect
        /\ fe' = [fe EXCEPT ![h] = [@ EXCEPT !.st = "ready", !.res = [k |-> "svcdisc"]]]
        /\ UNCHANGED toBack
  /\ UNCHANGED <<idCtr, req, subIdx, bat, stream, seen, unsubSent, inq, nPeer, nTok, pushed, fault>> /\ UNCHANGED shutVars

(* the future returns.  ServiceDisconnect is mapped through on_disconnect(): mod.rs:461-470 -> read_error :171-181:  *)
(* `conn.closed().await` then read the shared slot - no await in between, so it is one step.                        *)
FeObserve(h) ==
  /\ fe[h].st = "ready"
  /\ IF fe[h].res.k = "svcdisc"
       THEN /\ ~feOpen
            /\ fe' = [fe EXCEPT ![h] = [@ EXCEPT !.st = "done",
                        !.res = IF cause = None THEN [k |-> "placeholder"] ELSE [k |-> "restart", cause |-> cause]]]
       ELSE fe' = [fe EXCEPT ![h].st = "done"]
  /\ IF fe[h].res.k = "sub" THEN stream' = [stream EXCEPT ![h].rx = "held"] ELSE UNCHANGED stream
  /\ UNCHANGED <<idCtr, toBack, req, subIdx, bat, seen, unsubSent, inq, nPeer, nTok, pushed, fault>> /\ UNCHANGED shutVars

(* The application gives a call / subscribe / batch future up before it has returned: it is dropped - by a timeout around  *)
(* it, a `select!`, or the client's own request timeout (call_with_timeout, helpers.rs:285-293, drops the oneshot the same   *)
(* way).  Nothing is told to the background tasks: the request stays registered with a waiter that is gone.  If the answer  *)
(* was already waiting in the oneshot it is dropped with it.  For an accepted subscription that payload is the receiving    *)
(* half of the stream, not yet a `Subscription` (client/mod.rs builds that after the await): no close request is sent, the   *)
(* subscription is noticed and unsubscribed when its next notification finds the receiver gone - like a stream whose drop   *)
(* message was lost.                                                                                                        *)
FeAbandon(h) ==
  /\ fe[h].st \in {"idle", "alloc", "sent", "ready"}
  /\ fe' = [fe EXCEPT ![h].st = "abandoned"]
  /\ IF fe[h].st = "ready" /\ fe[h].res.k = "sub"
       THEN stream' = [stream EXCEPT ![h].rx = "dropped", ![h].buf = <<>>]
       ELSE UNCHANGED stream
  /\ UNCHANGED toBack
  /\ UNCHANGED <<idCtr, req, subIdx, bat, seen, unsubSent, inq, nPeer, nTok, pushed, fault>> /\ UNCHANGED shutVars

(* Subscription::next - client/mod.rs:419-440 *)
SubNext(h) ==
  /\ stream[h].rx = "held" /\ stream[h].buf # <<>>
  /\ stream' = [stream EXCEPT ![h].buf = Tail(@), ![h].got = Head(stream[h].buf)]
  /\ UNCHANGED <<idCtr, fe, toBack, req, subIdx, bat, seen, unsubSent, inq, nPeer, nTok, pushed, fault>> /\ UNCHANGED shutVars
SubEnd(h) ==      \* next() returns None: buffer drained and the sending half is gone
  /\ stream[h].rx = "held" /\ stream[h].buf = <<>> /\ ~stream[h].tx
  /\ stream' = [stream EXCEPT ![h].rx = "ended"]
  /\ UNCHANGED <<idCtr, fe, toBack, req, subIdx, bat, seen, unsubSent, inq, nPeer, nTok, pushed, fault>> /\ UNCHANGED shutVars

(* Latitude of C05, not a step of the tree: the statement says a stream that lags ENDS, not when.  The tree releases the      *)
(* sending half when the send task has processed the closure (StStep); a client may as well release it the moment the        *)
(* overflow is noticed.  The step is not part of Next (the design that is model-checked is the tree's); the trace spec admits *)
(* it as a silent step so that an implementation that ends a lagged stream at once is not reported.  (A notification for a    *)
(* sink whose sending half is released counts as refused: Deliver / ProcPush.)                                                *)
LagCloses(h) ==
  /\ stream[h].lagged /\ stream[h].tx
  /\ stream' = [stream EXCEPT ![h].tx = FALSE]
  /\ UNCHANGED <<idCtr, fe, toBack, req, subIdx, bat, seen, unsubSent, inq, nPeer, nTok, pushed, fault>> /\ UNCHANGED shutVars

(* Subscription::unsubscribe - client/mod.rs:303-315: an awaited send of SubscriptionClosed (two steps: the call starts, *)
(* the message gets into the channel when there is room), then the stream is drained to its end                          *)
SubUnsubStart(h) ==
  /\ stream[h].rx = "held"
  /\ stream' = [stream EXCEPT ![h].rx = "unsubbing"]
  /\ UNCHANGED <<idCtr, fe, toBack, req, subIdx, bat, seen, unsubSent, inq, nPeer, nTok, pushed, fault>> /\ UNCHANGED shutVars
SubUnsubEnqueue(h) ==
  /\ stream[h].rx = "unsubbing"
  /\ \/ /\ feOpen /\ Len(toBack) < MaxQueue
        /\ toBack' = Append(toBack, [t |-> "subclosed", sub |-> stream[h].sub])
     \/ /\ ~feOpen /\ UNCHANGED toBack
  /\ stream' = [stream EXCEPT ![h].rx = "draining"]
  /\ UNCHANGED <<idCtr, fe, req, subIdx, bat, seen, unsubSent, inq, nPeer, nTok, pushed, fault>> /\ UNCHANGED shutVars
SubDrained(h) ==
  /\ stream[h].rx = "draining" /\ ~stream[h].tx
  /\ stream' = [stream EXCEPT ![h].rx = "ended", ![h].buf = <<>>]
  /\ UNCHANGED <<idCtr, fe, toBack, req, subIdx, bat, seen, unsubSent, inq, nPeer, nTok, pushed, fault>> /\ UNCHANGED shutVars
SubDrainOne(h) ==
  /\ stream[h].rx = "draining" /\ stream[h].buf # <<>>
  /\ stream' = [stream EXCEPT ![h].buf = Tail(@)]
  /\ UNCHANGED <<idCtr, fe, toBack, req, subIdx, bat, seen, unsubSent, inq, nPeer, nTok, pushed, fault>> /\ UNCHANGED shutVars

(* Drop for Subscription - client/mod.rs:442-456: try_send, succeeds iff there is room *)
SubDrop(h) ==
  /\ stream[h].rx = "held"
  /\ toBack' = IF feOpen /\ Len(toBack) < MaxQueue THEN Append(toBack, [t |-> "subclosed", sub |-> stream[h].sub]) ELSE toBack
  /\ stream' = [stream EXCEPT ![h].rx = "dropped", ![h].buf = <<>>]
  /\ UNCHANGED <<idCtr, fe, req, subIdx, bat, seen, unsubSent, inq, nPeer, nTok, pushed, fault>> /\ UNCHANGED shutVars

(* The application lets go of a handle whose stream has already yielded its end (client/mod.rs:442-456).  Design: nothing is  *)
(* sent - the subscription is over, and its id may meanwhile name another one.  Tree before the F16 fix: the close request is  *)
(* sent all the same.                                                                                                         *)
SubDropEnded(h) ==
  /\ stream[h].rx = "ended"
  /\ stream' = [stream EXCEPT ![h].rx = "gone"]
  /\ toBack' = IF "F16" \in Dev /\ feOpen /\ Len(toBack) < MaxQueue THEN Append(toBack, [t |-> "subclosed", sub |-> stream[h].sub]) ELSE toBack
  /\ UNCHANGED <<idCtr, fe, req, subIdx, bat, seen, unsubSent, inq, nPeer, nTok, pushed, fault>> /\ UNCHANGED shutVars

-----------------------------------------------------------------------------
(* ---------------------------------- send task: handle_frontend_messages, mod.rs:796-883 ---------------------------------- *)

Complete(h, r) == IF fe[h].st = "abandoned" THEN fe                      \* the waiter's oneshot is gone: the send fails silently
                  ELSE [fe EXCEPT ![h] = [@ EXCEPT !.st = "ready", !.res = r]]

(* manager.unsubscribe (manager.rs:281-302) + build_unsubscribe_message (helpers.rs:249-270): one critical section *)
UnsubscribeEntry(s) ==   \* new `req` after initiating the unsubscribe of subscription id s
  LET rid == subIdx[s]  u == req[rid].unsub IN
  \* the subscribe id stays as a pending call without a waiter until the unsubscribe call (sent under the reserved id u)
  \* is acknowledged; the reserved slot remembers which id to release then
  Put(Put(req, rid, [k |-> "callNone"]), u, [k |-> "unsubPending", of |-> rid])

StStep(sendOk) ==
  /\ st = "run" /\ toBack # <<>>
  /\ LET m == Head(toBack) IN
     /\ toBack' = Tail(toBack)
     /\ CASE m.t = "call" ->
               IF Has(req, fe[m.h].id)
                 THEN /\ fe' = Complete(m.h, [k |-> "fail", why |-> "occupied"])
                      /\ UNCHANGED <<req, subIdx, bat, stream, seen, unsubSent>>
                 ELSE /\ req' = Put(req, fe[m.h].id, [k |-> "call", h |-> m.h])     \* insert_pending_call BEFORE send
                      /\ seen' = IF sendOk THEN seen \cup {[k |-> "call", id |-> fe[m.h].id]} ELSE seen
                      /\ UNCHANGED <<fe, subIdx, bat, stream, unsubSent>>
          [] m.t = "sub" ->
               IF Has(req, fe[m.h].id) \/ Has(req, fe[m.h].id2)
                 THEN /\ fe' = Complete(m.h, [k |-> "fail", why |-> "occupied"])
                      /\ UNCHANGED <<req, subIdx, bat, stream, seen, unsubSent>>
                 ELSE /\ req' = Put(Put(req, fe[m.h].id, [k |-> "psub", h |-> m.h, unsub |-> fe[m.h].id2]),
                                    fe[m.h].id2, [k |-> "callNone"])                 \* manager.rs:140-160 reserves the unsubscribe id
                      /\ seen' = IF sendOk THEN seen \cup {[k |-> "sub", id |-> fe[m.h].id]} ELSE seen
                      /\ UNCHANGED <<fe, subIdx, bat, stream, unsubSent>>
          [] m.t = "batch" ->
               IF \E b \in bat : b.lo = fe[m.h].id /\ b.hi = fe[m.h].id + BatchN[m.h]
                 THEN /\ fe' = Complete(m.h, [k |-> "fail", why |-> "occupied"])
                      /\ UNCHANGED <<req, subIdx, bat, stream, seen, unsubSent>>
                 ELSE /\ bat' = bat \cup {[lo |-> fe[m.h].id, hi |-> fe[m.h].id + BatchN[m.h], h |-> m.h]}
                      /\ seen' = IF sendOk THEN seen \cup {[k |-> "call", id |-> i] : i \in Range(m.h)} ELSE seen
                      /\ UNCHANGED <<fe, req, subIdx, stream, unsubSent>>
          [] m.t = "subclosed" ->                                                     \* mod.rs:850-865
               IF Has(subIdx, m.sub)
                 THEN LET rid == subIdx[m.sub]  h == req[rid].h IN
                      /\ req' = UnsubscribeEntry(m.sub)
                      /\ subIdx' = Del(subIdx, m.sub)
                      /\ stream' = [stream EXCEPT ![h].tx = FALSE]                     \* the sink is dropped with the entry
                      /\ seen' = IF sendOk THEN seen \cup {[k |-> "unsub", id |-> req[rid].unsub]} ELSE seen
                      /\ unsubSent' = IF sendOk THEN [unsubSent EXCEPT ![m.sub] = @ + 1] ELSE unsubSent
                      /\ UNCHANGED <<fe, bat>>
                 ELSE UNCHANGED <<fe, req, subIdx, bat, stream, seen, unsubSent>>      \* already closed earlier
  /\ IF sendOk THEN UNCHANGED <<st, stRes>> ELSE st' = "failed" /\ stRes' = [k |-> "err", e |-> "sendErr"]
  /\ UNCHANGED <<idCtr, inq, nPeer, nTok, pushed, fault, rt, wd, feOpen, closeCh, wdAlive, cause, rtRes, mgrAlive, closeSeen, fwd>>

(* does handling the head of the queue hand a text to the transport? *)
HeadSends ==
  toBack # <<>> /\ LET m == Head(toBack) IN
    CASE m.t = "call" -> ~Has(req, fe[m.h].id)
      [] m.t = "sub" -> ~(Has(req, fe[m.h].id) \/ Has(req, fe[m.h].id2))
      [] m.t = "batch" -> ~(\E b \in bat : b.lo = fe[m.h].id /\ b.hi = fe[m.h].id + BatchN[m.h])
      [] m.t = "subclosed" -> Has(subIdx, m.sub)
StRecv == StStep(TRUE)

(* Latitude of C03 / C18, not a step of the tree: an operation whose caller gave its future up while the message was still    *)
(* queued need not be sent at all (the tree sends it and discards the answer; the statement speaks of calls that put an id on   *)
(* the wire).  Not part of Next; the trace spec admits it as a silent step.                                                    *)
StSkipAbandoned ==
  /\ st = "run" /\ toBack # <<>>
  /\ LET m == Head(toBack) IN m.t \in {"call", "sub", "batch"} /\ fe[m.h].st = "abandoned"
  /\ toBack' = Tail(toBack)
  /\ UNCHANGED <<idCtr, fe, req, subIdx, bat, stream, seen, unsubSent, inq, nPeer, nTok, pushed, fault>> /\ UNCHANGED shutVars

-----------------------------------------------------------------------------
(* ---------------------------------- the peer (environment) ---------------------------------- *)

SeenIds == {x.id : x \in seen}
AnswerIds == SeenIds \cup (IF "foreign" \in PeerMenu THEN {idCtr + 7} ELSE {}) \cup (IF "idmax" \in PeerMenu THEN {IdMax} ELSE {})

Resp(i, ok, s) == [t |-> "resp", id |-> i, ok |-> ok, sub |-> s]   \* s: the subscription id a success carries (NoId = plain value)
Notif(s) == [t |-> "notif", sub |-> s, n |-> pushed[s] + 1]
CloseN(s) == [t |-> "close", sub |-> s]

Singles ==
  (IF "resp" \in PeerMenu THEN {Resp(i, x.ok, x.sub) : i \in AnswerIds, x \in RespShapes} ELSE {})
  \cup (IF "notif" \in PeerMenu THEN {Notif(s) : s \in {x \in SubIds : pushed[x] < MaxPush}} ELSE {})
  \cup (IF "close" \in PeerMenu THEN {CloseN(s) : s \in SubIds} ELSE {})
  \cup (IF "mnotif" \in PeerMenu THEN {[t |-> "mnotif"]} ELSE {})

ArrElems == {x \in Singles : x.t \in ArrMenu}
Texts == Singles
         \cup (IF "array" \in PeerMenu THEN {[t |-> "array", elems |-> e] : e \in UNION {[1..n -> ArrElems] : n \in 1..MaxArr}} ELSE {})
         \cup (IF "garbage" \in PeerMenu THEN {[t |-> "garbage"]} ELSE {})

(* number of notifications for subscription s among the first i elements of an array *)
CountN(E, i, s) == Cardinality({j \in 1..i : E[j].t = "notif" /\ E[j].sub = s})
NotifCount(m, s) == IF m.t = "notif" THEN (IF m.sub = s THEN 1 ELSE 0) ELSE IF m.t = "array" THEN CountN(m.elems, Len(m.elems), s) ELSE 0

PeerSend(m0) ==
  /\ nPeer < MaxPeer /\ "peerClose" \notin fault
  /\ \A s \in SubIds : pushed[s] + NotifCount(m0, s) <= MaxPush
  /\ LET tag(x, k) == IF x.t = "resp" THEN x @@ ("tok" :> (nTok + k))
                       ELSE IF x.t = "notif" /\ m0.t = "array" THEN [x EXCEPT !.n = pushed[x.sub] + CountN(m0.elems, k, x.sub)] ELSE x
         m1 == IF m0.t = "array" THEN [m0 EXCEPT !.elems = [i \in 1..Len(m0.elems) |-> tag(m0.elems[i], i)]] ELSE tag(m0, 1)
     IN /\ inq' = Append(inq, m1)
        /\ nTok' = nTok + MaxArr + 1
        /\ pushed' = [s \in SubIds |-> pushed[s] + NotifCount(m0, s)]
  /\ nPeer' = nPeer + 1
  /\ UNCHANGED <<idCtr, fe, toBack, req, subIdx, bat, stream, seen, unsubSent, fault>> /\ UNCHANGED shutVars

-----------------------------------------------------------------------------
(* ---------------------------------- read task: handle_backend_messages, mod.rs:675-793 ---------------------------------- *)

(* sink.send - client/mod.rs:623-633 + helpers.rs:94-126.  Returns the new stream record and whether a close request follows *)
Deliver(h, n) ==
  IF stream[h].rx \in {"dropped", "ended", "gone"} \/ ~stream[h].tx THEN [s |-> stream[h], closeReq |-> TRUE]                     \* receiver gone: Closed
  ELSE IF Len(stream[h].buf) < BufCap THEN [s |-> [stream[h] EXCEPT !.buf = Append(@, n)], closeReq |-> FALSE]
  ELSE [s |-> [stream[h] EXCEPT !.lagged = TRUE], closeReq |-> TRUE]                                       \* TooSlow: lagged

(* one element that is not a response: returns [req, subIdx, stream, fwd] ; fwd = close requests to forward to the send task *)
ProcPush(e, R, S, T) ==
  CASE e.t = "notif" ->                                                   \* process_subscription_response helpers.rs:94-126
         IF Has(S, e.sub) /\ R[S[e.sub]].k = "sub"
           THEN LET h == R[S[e.sub]].h
                    d == IF T[h].rx \in {"dropped", "ended", "gone"} \/ ~T[h].tx THEN [s |-> T[h], c |-> TRUE]   \* (~tx: see LagCloses)
                         ELSE IF Len(T[h].buf) < BufCap THEN [s |-> [T[h] EXCEPT !.buf = Append(@, e.n)], c |-> FALSE]
                         ELSE [s |-> [T[h] EXCEPT !.lagged = TRUE], c |-> TRUE]
                IN [req |-> R, subIdx |-> S, stream |-> [T EXCEPT ![h] = d.s], fwd |-> IF d.c THEN <<e.sub>> ELSE <<>>]
           ELSE [req |-> R, subIdx |-> S, stream |-> T, fwd |-> <<>>]                                       \* not active: ignored
    [] e.t = "close" ->                                                   \* process_subscription_close_response helpers.rs:134-148
         IF Has(S, e.sub)
           THEN LET rid == S[e.sub]  h == R[rid].h
                    R1 == Del(R, rid)
                    R2 == IF "F13b" \in Dev THEN R1 ELSE Del(R1, R[rid].unsub)    \* design: the reserved unsubscribe id goes too
                IN [req |-> R2, subIdx |-> Del(S, e.sub), stream |-> [T EXCEPT ![h].tx = FALSE], fwd |-> <<>>]
           ELSE [req |-> R, subIdx |-> S, stream |-> T, fwd |-> <<>>]
    [] OTHER -> [req |-> R, subIdx |-> S, stream |-> T, fwd |-> <<>>]     \* method notification without a handler: ignored

RECURSIVE FoldPush(_, _, _)
FoldPush(E, i, acc) ==
  IF i > Len(E) THEN acc
  ELSE IF E[i].t = "resp" THEN FoldPush(E, i + 1, acc)
  ELSE LET x == ProcPush(E[i], acc.req, acc.subIdx, acc.stream) IN FoldPush(E, i + 1, [x EXCEPT !.fwd = acc.fwd \o x.fwd])

(* the forwarded close request enters the front->back channel when there is room (an awaited send in the read task's select loop) *)
RtForward ==
  /\ rt = "run" /\ fwd # <<>> /\ feOpen /\ Len(toBack) < MaxQueue
  /\ toBack' = Append(toBack, [t |-> "subclosed", sub |-> Head(fwd)])
  /\ fwd' = Tail(fwd)
  /\ UNCHANGED <<idCtr, fe, req, subIdx, bat, stream, seen, unsubSent, inq, nPeer, nTok, pushed, fault,
                 st, rt, wd, feOpen, closeCh, wdAlive, cause, stRes, rtRes, mgrAlive, closeSeen>>

RtFail(e) == /\ rt' = "failed" /\ rtRes' = [k |-> "err", e |-> e]

(* the body of one `backend_event.next()` arm; everything under manager.lock() of that message is one step *)
RtRecv ==
  /\ rt = "run" /\ inq # <<>>
  /\ LET m == Head(inq) IN
     /\ inq' = Tail(inq)
     /\ CASE m.t = "resp" ->                                            \* process_single_response helpers.rs:174-232
               IF ~Has(req, m.id) \/ req[m.id].k = "sub"
                 THEN /\ RtFail("notPending") /\ UNCHANGED <<fe, req, subIdx, bat, stream, toBack, fwd>>
               ELSE IF req[m.id].k = "call"
                 THEN /\ fe' = Complete(req[m.id].h, [k |-> IF m.ok THEN "ok" ELSE "err", id |-> m.id, tok |-> m.tok])
                      /\ req' = Del(req, m.id)
                      /\ UNCHANGED <<subIdx, bat, stream, toBack, rt, rtRes, fwd>>
               ELSE IF req[m.id].k = "callNone"
                 THEN /\ req' = Del(req, m.id) /\ UNCHANGED <<fe, subIdx, bat, stream, toBack, rt, rtRes, fwd>>     \* a pending call nobody waits for
               ELSE IF req[m.id].k = "unsubPending"                                                                  \* acknowledged unsubscribe
                 THEN LET of == req[m.id].of
                          R1 == Del(req, m.id)
                      IN /\ req' = IF "F13a" \notin Dev /\ Has(R1, of) /\ R1[of].k = "callNone" THEN Del(R1, of) ELSE R1
                         /\ UNCHANGED <<fe, subIdx, bat, stream, toBack, rt, rtRes, fwd>>
               ELSE LET h == req[m.id].h  u == req[m.id].unsub
                        Rrefused == IF "F13c" \in Dev THEN Del(req, m.id) ELSE Del(Del(req, m.id), u)
                    IN  \* pending subscription: helpers.rs:192-228
                    IF ~m.ok THEN /\ fe' = Complete(h, [k |-> "err", id |-> m.id, tok |-> m.tok])
                                  /\ req' = Rrefused /\ UNCHANGED <<subIdx, bat, stream, toBack, rt, rtRes, fwd>>
                    ELSE IF m.sub = NoId THEN /\ fe' = Complete(h, [k |-> "fail", why |-> "parse"])           \* result is not a subscription id
                                              /\ req' = Rrefused /\ UNCHANGED <<subIdx, bat, stream, toBack, rt, rtRes, fwd>>
                    ELSE IF Has(subIdx, m.sub) THEN /\ fe' = Complete(h, [k |-> "fail", why |-> "invalidSubId"])  \* duplicate subscription id
                                                    /\ req' = Rrefused /\ UNCHANGED <<subIdx, bat, stream, toBack, rt, rtRes, fwd>>
                    ELSE IF fe[h].st # "abandoned"
                      THEN /\ req' = Put(Del(req, m.id), m.id, [k |-> "sub", h |-> h, unsub |-> u, sub |-> m.sub])
                           /\ subIdx' = Put(subIdx, m.sub, m.id)
                           /\ stream' = [stream EXCEPT ![h] = [NoStream EXCEPT !.tx = TRUE, !.sub = m.sub]]
                           /\ fe' = Complete(h, [k |-> "sub", id |-> m.id, tok |-> m.tok, sub |-> m.sub])
                           /\ UNCHANGED <<bat, toBack, rt, rtRes, fwd>>
                    \* the subscribe caller has given up (helpers.rs:218-232): the subscription is registered, the stream handed over
                    \* fails, and the server must be told to stop.  Design: a close request goes the way every other one goes
                    \* (forwarded to the send task, which unsubscribes).  Tree (F17): the read task builds the unsubscribe call
                    \* itself and forwards it as a plain request - which the send task refuses, the id being reserved.
                    ELSE IF "F17" \in Dev
                      THEN /\ req' = Put(Put(Del(req, m.id), m.id, [k |-> "callNone"]), u, [k |-> "unsubPending", of |-> m.id])
                           /\ UNCHANGED <<fe, subIdx, stream, bat, toBack, rt, rtRes, fwd>>
                      ELSE /\ req' = Put(Del(req, m.id), m.id, [k |-> "sub", h |-> h, unsub |-> u, sub |-> m.sub])
                           /\ subIdx' = Put(subIdx, m.sub, m.id)
                           /\ stream' = [stream EXCEPT ![h] = [NoStream EXCEPT !.tx = TRUE, !.sub = m.sub, !.rx = "dropped"]]
                           /\ fwd' = Append(fwd, m.sub)
                           /\ UNCHANGED <<fe, bat, toBack, rt, rtRes>>
          [] m.t \in {"notif", "close", "mnotif"} ->
               LET r == ProcPush(m, req, subIdx, stream) IN
               /\ req' = r.req /\ subIdx' = r.subIdx /\ stream' = r.stream
               /\ fwd' = fwd \o r.fwd                                    \* pending_unsubscribes.push(to_send_task.send(..)), mod.rs:996-1000
               /\ UNCHANGED <<fe, bat, rt, rtRes, toBack>>
          [] m.t = "garbage" -> /\ RtFail("unparseable") /\ UNCHANGED <<fe, req, subIdx, bat, stream, toBack, fwd>>
          [] m.t = "array" ->                                           \* mod.rs:722-776
               LET E == m.elems
                   (* pushes are applied in order; F3: a close inside an array is parsed against the whole text and ignored *)
                   eff(e) == IF e.t = "close" /\ "F3" \in Dev THEN [t |-> "mnotif"] ELSE e
                   r2 == FoldPush([i \in 1..Len(E) |-> eff(E[i])], 1, [req |-> req, subIdx |-> subIdx, stream |-> stream, fwd |-> <<>>])
                   rs == {E[i] : i \in {j \in 1..Len(E) : E[j].t = "resp"}}
                   lo == CHOOSE i \in {x.id : x \in rs} : \A j \in {x.id : x \in rs} : i <= j
                   hi == (CHOOSE i \in {x.id : x \in rs} : \A j \in {x.id : x \in rs} : i >= j) + 1
               IN
               /\ subIdx' = r2.subIdx /\ stream' = r2.stream
               /\ fwd' = fwd \o r2.fwd /\ UNCHANGED toBack
               /\ IF rs = {} THEN /\ req' = r2.req /\ UNCHANGED <<fe, bat, rt, rtRes>>
                  ELSE IF IdMax \in {x.id : x \in rs}                      \* `range.end += 1` on u64::MAX, mod.rs:762 (F8)
                    THEN /\ req' = r2.req /\ UNCHANGED <<fe, bat>>
                         /\ IF "F8" \in Dev THEN rt' = "panicked" /\ rtRes' = None ELSE RtFail("invalidId")
                  ELSE IF \E b \in bat : b.lo = lo /\ b.hi = hi             \* process_batch_response helpers.rs:52-90
                    THEN LET b == CHOOSE x \in bat : x.lo = lo /\ x.hi = hi
                             idxs(i) == {j \in 1..Len(E) : E[j].t = "resp" /\ E[j].id = i}
                             lastOf(i) == E[CHOOSE j \in idxs(i) : \A k \in idxs(i) : k <= j]      \* a repeated id: the later answer overwrites
                             slot(i) == IF idxs(i) # {} THEN [id |-> lastOf(i).id, tok |-> lastOf(i).tok]
                                        ELSE [id |-> NoId, tok |-> -1]                              \* unanswered entry: placeholder error
                         IN /\ bat' = bat \ {b}
                            /\ fe' = Complete(b.h, [k |-> "batch", slots |-> [i \in 1..(hi - lo) |-> slot(lo + i - 1)]])
                            /\ req' = r2.req /\ UNCHANGED <<rt, rtRes>>
                    ELSE /\ RtFail("notPending") /\ req' = r2.req /\ UNCHANGED <<fe, bat>>
  /\ closeSeen' = closeSeen \cup
       LET m == Head(inq)
           cl == IF m.t = "close" THEN {m.sub} ELSE IF m.t = "array" THEN {m.elems[i].sub : i \in {j \in 1..Len(m.elems) : m.elems[j].t = "close"}} ELSE {}
       IN {req[subIdx[x]].h : x \in {y \in cl : Has(subIdx, y)}}
  /\ UNCHANGED <<idCtr, seen, unsubSent, nPeer, nTok, pushed, fault, st, wd, feOpen, closeCh, wdAlive, cause, stRes, mgrAlive>>

(* Latitude of C05 / C09, not a step of the tree: an array the client rejects (a response id it cannot account for) may be        *)
(* rejected as a whole - the pushes it carried have no effect - where the tree applies them in order before it finds out.  The  *)
(* statements say what a stream yields of the notifications the server sent and that everything ends with the cause; they do   *)
(* not say that the items of the very message that ends the connection are delivered.  Not part of Next; the trace spec admits *)
(* it as an alternative explanation of a `WireIn`.                                                                             *)
RtRecvRejectsWhole ==
  /\ rt = "run" /\ inq # <<>> /\ Head(inq).t = "array"
  /\ LET E == Head(inq).elems
         ids == {E[i].id : i \in {j \in 1..Len(E) : E[j].t = "resp"}}
         lo == CHOOSE i \in ids : \A j \in ids : i <= j
         hi == (CHOOSE i \in ids : \A j \in ids : i >= j) + 1
     IN /\ ids # {}
        /\ IF IdMax \in ids THEN RtFail("invalidId")
           ELSE ~(\E b \in bat : b.lo = lo /\ b.hi = hi) /\ RtFail("notPending")
  /\ inq' = Tail(inq)
  /\ UNCHANGED <<fe, req, subIdx, bat, stream, toBack, fwd, closeSeen>>
  /\ UNCHANGED <<idCtr, seen, unsubSent, nPeer, nTok, pushed, fault, st, wd, feOpen, closeCh, wdAlive, cause, stRes, mgrAlive>>

-----------------------------------------------------------------------------
(* ---------------------------------- faults and shutdown: mod.rs:905-949, 961-1024, 1026-1039 ---------------------------------- *)

(* up to MaxFaults faults per connection, at most one of them on the receiving side: both halves of a broken transport may report *)
InjectFault(f) ==
  /\ f \in Faults /\ f \notin fault /\ Cardinality(fault) < MaxFaults
  /\ (f \in {"recvErr", "peerClose"} => fault \cap {"recvErr", "peerClose"} = {})
  /\ fault' = fault \cup {f}
  /\ UNCHANGED <<idCtr, fe, toBack, req, subIdx, bat, stream, seen, unsubSent, inq, nPeer, nTok, pushed>> /\ UNCHANGED shutVars

(* the send task's next transport send fails: the message was taken and registered, then `break Err(Transport)` *)
StSendFails == "sendErr" \in fault /\ HeadSends /\ StStep(FALSE)
(* the read task's receive() fails / the peer closed *)
RtRecvFailsWith(f) ==
  /\ rt = "run" /\ inq = <<>> /\ f \in fault \cap {"recvErr", "peerClose"}
  /\ RtFail(f)
  /\ UNCHANGED <<idCtr, fe, toBack, req, subIdx, bat, stream, seen, unsubSent, inq, nPeer, nTok, pushed, fault, st, wd, feOpen, closeCh, wdAlive, cause, stRes, mgrAlive, closeSeen, fwd>>
RtRecvFails == \E f \in {"recvErr", "peerClose"} : RtRecvFailsWith(f)

(* `close_tx.closed()` arm of either task: the watcher is gone *)
StNoticeClosed == /\ st = "run" /\ ~wdAlive /\ st' = "stopping" /\ stRes' = [k |-> "ok"]
                  /\ UNCHANGED <<idCtr, fe, toBack, req, subIdx, bat, stream, seen, unsubSent, inq, nPeer, nTok, pushed, fault, rt, wd, feOpen, closeCh, wdAlive, cause, rtRes, mgrAlive, closeSeen, fwd>>
RtNoticeClosed == /\ rt = "run" /\ ~wdAlive /\ rt' = "done"
                  /\ UNCHANGED <<idCtr, fe, toBack, req, subIdx, bat, stream, seen, unsubSent, inq, nPeer, nTok, pushed, fault, st, wd, feOpen, closeCh, wdAlive, cause, stRes, rtRes, mgrAlive, closeSeen, fwd>>

(* read task: `close_tx.send(res).await` (mod.rs:1023) - capacity 1, fails at once when the watcher is gone *)
RtHandOver == /\ rt = "failed"
              /\ \/ /\ wdAlive /\ Len(closeCh) < 1 /\ closeCh' = Append(closeCh, rtRes)
                 \/ /\ ~wdAlive /\ UNCHANGED closeCh
              /\ rt' = "done"
              /\ UNCHANGED <<idCtr, fe, toBack, req, subIdx, bat, stream, seen, unsubSent, inq, nPeer, nTok, pushed, fault, st, wd, feOpen, wdAlive, cause, stRes, rtRes, mgrAlive, closeSeen, fwd>>

(* send task after its loop.  Design: hand the result over, wait for the watcher to finish, THEN close the front-end channel. *)
(* Tree (F7): from_frontend.close(); sender.close().await; close_tx.send(res).await  (mod.rs:946-948)                        *)
StCloseFront ==
  /\ \/ "F7" \in Dev /\ st \in {"failed", "stopping"}
     \/ "F7" \notin Dev /\ st = "handed" /\ ~wdAlive
  /\ feOpen' = FALSE
  /\ st' = IF "F7" \in Dev THEN "frontclosed" ELSE "closing"
  /\ UNCHANGED <<idCtr, fe, toBack, req, subIdx, bat, stream, seen, unsubSent, inq, nPeer, nTok, pushed, fault, rt, wd, closeCh, wdAlive, cause, stRes, rtRes, mgrAlive, closeSeen, fwd>>
StHandOver ==
  /\ \/ "F7" \in Dev /\ st = "frontclosed"
     \/ "F7" \notin Dev /\ st \in {"failed", "stopping"}
  /\ \/ /\ wdAlive /\ Len(closeCh) < 1 /\ closeCh' = Append(closeCh, stRes)
     \/ /\ ~wdAlive /\ UNCHANGED closeCh
  /\ st' = IF "F7" \in Dev THEN "closing" ELSE "handed"
  /\ UNCHANGED <<idCtr, fe, toBack, req, subIdx, bat, stream, seen, unsubSent, inq, nPeer, nTok, pushed, fault, rt, wd, feOpen, wdAlive, cause, stRes, rtRes, mgrAlive, closeSeen, fwd>>
(* the task returns: the receiving half of the front->back channel is dropped with every message still in it *)
StEnd ==
  /\ st = "closing"
  /\ st' = "done"
  /\ fe' = [h \in Ops |-> IF fe[h].st = "sent" /\ \E i \in 1..Len(toBack) : toBack[i].t \in {"call", "sub", "batch"} /\ toBack[i].h = h
                           THEN [fe[h] EXCEPT !.st = "ready", !.res = [k |-> "svcdisc"]] ELSE fe[h]]
  /\ toBack' = <<>>
  /\ UNCHANGED <<idCtr, req, subIdx, bat, stream, seen, unsubSent, inq, nPeer, nTok, pushed, fault, rt, wd, feOpen, closeCh, wdAlive, cause, stRes, rtRes, mgrAlive, closeSeen, fwd>>

(* wait_for_shutdown, mod.rs:1026-1039: first item decides; an Err is stored; then the receiver is dropped *)
WdRecv ==
  /\ wd = "wait" /\ closeCh # <<>>
  /\ cause' = IF Head(closeCh).k = "err" /\ cause = None THEN [k |-> "cause", e |-> Head(closeCh).e] ELSE cause
  /\ closeCh' = <<>> /\ wd' = "done" /\ wdAlive' = FALSE
  /\ UNCHANGED <<idCtr, fe, toBack, req, subIdx, bat, stream, seen, unsubSent, inq, nPeer, nTok, pushed, fault, st, rt, feOpen, stRes, rtRes, mgrAlive, closeSeen, fwd>>

(* both background tasks are gone: the manager is dropped, every waiter's oneshot fails, every stream ends *)
ManagerDrop ==
  /\ mgrAlive /\ st = "done" /\ rt \in {"done", "panicked"}
  /\ mgrAlive' = FALSE
  /\ fe' = [h \in Ops |-> IF fe[h].st = "sent" THEN [fe[h] EXCEPT !.st = "ready", !.res = [k |-> "svcdisc"]] ELSE fe[h]]
  /\ stream' = [h \in Ops |-> [stream[h] EXCEPT !.tx = FALSE]]
  /\ req' = <<>> /\ subIdx' = <<>> /\ bat' = {}
  /\ UNCHANGED <<idCtr, toBack, seen, unsubSent, inq, nPeer, nTok, pushed, fault, st, rt, wd, feOpen, closeCh, wdAlive, cause, stRes, rtRes, closeSeen, fwd>>

-----------------------------------------------------------------------------
(* the next-state relation, grouped by who takes the step (Gen_Client.tla weighs the groups when it simulates) *)
AppStart    == \E h \in Ops : FeAlloc(h)                                     \* the application starts an operation
AppAbandon  == Abandon /\ \E h \in Ops : fe[h].st # "idle" /\ FeAbandon(h)    \* ... or gives its future up
FeNext      == \E h \in Ops : FeEnqueue(h) \/ FeObserve(h)                   \* its future makes progress
StreamPoll  == \E h \in Subs : SubNext(h) \/ SubEnd(h)                       \* the application polls a stream
StreamLeave == \E h \in Subs : SubUnsubStart(h) \/ SubDrop(h) \/ SubDropEnded(h)   \* ... or gives it up / lets an ended one go
StreamInt   == \E h \in Subs : SubUnsubEnqueue(h) \/ SubDrained(h) \/ SubDrainOne(h)
TaskNext    == StRecv \/ RtRecv \/ RtForward                                 \* the two background tasks
PeerNext    == \E m \in Texts : PeerSend(m)
FaultNext   == \E f \in Faults : InjectFault(f)
ShutNext    == StSendFails \/ RtRecvFails \/ StNoticeClosed \/ RtNoticeClosed \/ RtHandOver \/ StCloseFront \/ StHandOver \/ StEnd \/ WdRecv \/ ManagerDrop
Next == AppStart \/ AppAbandon \/ FeNext \/ StreamPoll \/ StreamLeave \/ StreamInt \/ TaskNext \/ PeerNext \/ FaultNext \/ ShutNext

Spec == Init /\ [][Next]_vars
FairSpec == Spec /\ WF_vars(StRecv) /\ WF_vars(RtRecv) /\ WF_vars(RtHandOver) /\ WF_vars(StCloseFront) /\ WF_vars(StHandOver)
                 /\ WF_vars(StEnd) /\ WF_vars(WdRecv) /\ WF_vars(ManagerDrop) /\ WF_vars(StNoticeClosed) /\ WF_vars(RtNoticeClosed)
                 /\ WF_vars(StSendFails) /\ WF_vars(RtRecvFails) /\ \A h \in Ops : WF_vars(FeEnqueue(h)) /\ WF_vars(FeObserve(h))

-----------------------------------------------------------------------------
(* ---------------------------------- properties ---------------------------------- *)

(* C03 - a call completes only with a response bearing the id it put on the wire *)
Inv_Route == \A h \in Calls \cup Subs : fe[h].res.k \in {"ok", "err", "sub"} => fe[h].res.id = fe[h].id
(* C12 - batch results are positional; no slot holds another entry's answer; never shorter *)
Inv_Positional == \A h \in Bats : fe[h].res.k = "batch" =>
                     /\ Len(fe[h].res.slots) = BatchN[h]
                     /\ \A i \in 1..BatchN[h] : fe[h].res.slots[i].id \in {NoId, fe[h].id + i - 1}
(* C05 - a stream only ever holds its own subscription's payloads, in order *)
Inv_StreamOrdered == \A h \in Subs : \A i \in 1..Len(stream[h].buf) :
                        /\ (i > 1 => stream[h].buf[i] > stream[h].buf[i - 1])
                        /\ stream[h].buf[i] > stream[h].got
Inv_LaggedEnds == \A h \in Subs : stream[h].lagged /\ ~Has(subIdx, stream[h].sub) => ~stream[h].tx
Inv_UnsubAtMostOnce == \A s \in SubIds : unsubSent[s] <= Cardinality({h \in Subs : stream[h].sub = s})      \* one per accepted subscription
Inv_EndsOnClose == \A h \in closeSeen : ~stream[h].tx
(* C03 / C12 - no two operations in flight share a wire id (a batch reserves its whole range) *)
IdSet(h) == IF fe[h].id = NoId THEN {} ELSE IF Kind[h] = "batch" THEN Range(h) ELSE IF Kind[h] = "sub" THEN {fe[h].id, fe[h].id2} ELSE {fe[h].id}
Inv_IdsUnique == \A h, g \in Ops : h # g => IdSet(h) \cap IdSet(g) = {}
(* C09 - nobody ever reads the placeholder; everybody reads the same cause *)
Inv_NoPlaceholder == \A h \in Ops : fe[h].res.k # "placeholder"
Inv_SameCause == \A h, g \in Ops : fe[h].res.k = "restart" /\ fe[g].res.k = "restart" => fe[h].res.cause = fe[g].res.cause
Inv_NoPanic == rt # "panicked"
Inv_DisconnectedAfterFailure == (st = "done" /\ rt = "done") => ~feOpen
(* C18 - quiescence: every op finished, queues empty, every subscription ended and its unsubscribe acknowledged *)
StreamOver(h) == stream[h].sub = NoId \/ (~stream[h].tx /\ stream[h].rx \in {"ended", "gone", "dropped"})
(* an operation given up counts as finished once the answer it no longer waits for has come in *)
Answered(h) == /\ ~\E i \in DOMAIN req : req[i].k \in {"call", "psub"} /\ req[i].h = h
               /\ ~\E b \in bat : b.h = h
Quiescent == /\ \A h \in Ops : fe[h].st = "done" \/ (fe[h].st = "abandoned" /\ Answered(h))
             /\ toBack = <<>> /\ inq = <<>> /\ fwd = <<>> /\ mgrAlive /\ st = "run" /\ rt = "run"
             /\ \A h \in Subs : StreamOver(h)
             /\ \A x \in seen : x.k = "unsub" => ~Has(req, x.id) \/ TRUE
UnsubPending == {x.id : x \in {y \in seen : y.k = "unsub"}} \cap DOMAIN req
Inv_QuiescentEmpty == Quiescent /\ UnsubPending = {} => (DOMAIN req = {} /\ DOMAIN subIdx = {} /\ bat = {})
Inv_IndexConsistent == \A s \in DOMAIN subIdx : Has(req, subIdx[s]) /\ req[subIdx[s]].k = "sub" /\ req[subIdx[s]].sub = s

(* liveness (C09): after the tasks are gone every operation that was started finishes *)
Live_AllFinish == (st = "done" /\ rt \in {"done"}) ~> (\A h \in Ops : fe[h].st \in {"idle", "done", "abandoned"})

(* a fault that a task notices leads to the client being disconnected with a recorded cause *)
Live_FaultLeadsToDisconnect == (st = "failed" \/ rt = "failed") ~> (~feOpen /\ cause # None)

View == <<idCtr, fe, toBack, req, subIdx, bat, stream, seen, unsubSent, inq, nPeer, pushed,
          st, rt, wd, feOpen, closeCh, wdAlive, cause, stRes, rtRes, fault, mgrAlive, closeSeen, fwd>>
=============================================================================
