\* C14 quick: every allow-list of 1..2 entries over 6 host patterns x 5 port classes (465 lists) x 302 request forms
CONSTANTS MaxList = 2 EmitCases = TRUE
INIT Init
NEXT Next
INVARIANTS Meta_Soundness Meta_SingletonCompleteness Meta_StarNeedsALabel Emit
CHECK_DEADLOCK FALSE
