\* C16 quick: arrays of length <= 3 over 6 element classes; every cursor position; every first op; 4 second ops.
CONSTANTS
  EClass <- Quick_EClass
  MaxLen = 3
  SecondOps <- Quick_Second
  EmitCases = TRUE
INIT Init
NEXT Next
INVARIANTS Inv_NeverWrongPosition Inv_AfterFailureOnlyErrOrAbsent Inv_PosBounded Emit
CHECK_DEADLOCK FALSE
