"""C12 - client batch results are positional. Spec: Client.tla (batch path) + HttpClientBatch (TODO). Binding: A + B."""
import vlib
from checks import client

PID = "C12"


def run(tier):
    rep = vlib.Report(PID, tier)
    n = 300 if tier == "quick" else 4000
    client.run_client(PID, tier, rep,
        design_cfgs=[("MC_Client_batch.cfg", ["FeAlloc", "FeEnqueue", "StStep", "RtRecv"],
                      "two batches (3 and 2 entries) in flight; every reply array of <= 3 responses over the ids seen; all interleavings")],
        asis=[("MC_Client_asis_F10.cfg", "Inv_IdsUnique", "overlapping id ranges of concurrent batches (F10)"),
              ("MC_Client_asis_F8.cfg", "Inv_NoPanic", "a reply with id u64::MAX overflows the range computation (F8)")],
        groups=["batch", "mixed"], nscen=n)
    # ---- spec -> implementation: every reply ClientBatch.tla enumerates, on the async client and on the HTTP client
    from checks import g
    rb = vlib.tlc("ClientBatch", "MC_ClientBatch.cfg", workers=2, timeout=300)
    rep.add_tlc(rb, "every reply of length <= 4 over the ids S-1..S+n for one batch of n <= 3; the modelled outcome is acceptable under the property")
    if len(rb["replay"]) < 1000 or not any(c["permutation"] for c in rb["replay"]):
        raise vlib.ToolError("vacuity: batch reply enumeration incomplete")
    rows = g.replay_flow(rep, "c12", rb["replay"], timeout=1800, nontrivial=lambda c: not c["permutation"])
    # the async client is also compared with the model's exact outcome; a difference that the property allows is drift between
    # code and model (to be looked at), not a violation
    rep.cov["async_outcomes_differing_from_model_but_acceptable"] = sum(r["n"] for r in rows if r.get("stat") == "model_drift")
    rep.cov["rule"] = ("replay: every reply array of <= 4 responses over {one id below, the batch's ids, one id above} for batches of 1..3 "
                       "entries, each with no or one element whose result does not decode into the caller's result type (5851 cases, numeric "
                       "and string ids, every third element an error object) on the async client and on the HTTP client (scripted tower "
                       "service) - the outcome must be acceptable under the "
                       "property: a permutation whose values decode succeeds positionally; otherwise the call fails or returns exactly n slots each holding its "
                       "own id's answer or an error, never the value of an element that does not decode, with success / failure counts that match "
                       "the entries and an all-or-errors view (`ok()`) that hands out n values or none; "
                       "design: Inv_Positional / Inv_IdsUnique over all interleavings of two batches and every reply array of <= 3 responses; "
                       "conformance (async client): seeded scenarios with batches of 3 and 2 entries plus single calls in flight, replies "
                       "permuted, with gaps, duplicates, foreign and u64::MAX ids, numeric and string id kinds; the returned BatchResponse "
                       "(tokens per slot, in order) must equal the spec's slots")
    return rep.finish()


def replay(path):
    return client.replay_client(PID, path)
