"""C12 - client batch results are positional. Spec: Client.tla (batch path) + HttpClientBatch (TODO). Binding: A + B."""
import vlib
from checks import client

PID = "C12"


def run(tier):
    rep = vlib.Report(PID, tier)
    n = 300 if tier == "quick" else 4000
    client.run_client(PID, tier, rep,
        design_cfgs=[("MC_Client_batch.cfg", ["FeAlloc", "FeEnqueue", "StStep", "RtRecv"],
                      "two batches (3 and 2 entries) in flight; every reply array of <= 3 responses over the ids seen; all interleavings")],
        asis=[("MC_Client_asis_F10.cfg", "Inv_IdsUnique", "overlapping id ranges of concurrent batches (F10)"),
              ("MC_Client_asis_F8.cfg", "Inv_NoPanic", "a reply with id u64::MAX overflows the range computation (F8)")],
        groups=["batch", "mixed"], nscen=n)
    rep.cov["rule"] = ("design: Inv_Positional / Inv_IdsUnique over all interleavings of two batches and every reply array of <= 3 responses; "
                       "conformance (async client): seeded scenarios with batches of 3 and 2 entries plus single calls in flight, replies "
                       "permuted, with gaps, duplicates, foreign and u64::MAX ids, numeric and string id kinds; the returned BatchResponse "
                       "(tokens per slot, in order) must equal the spec's slots")
    return rep.finish()


def replay(path):
    return client.replay_client(PID, path)
