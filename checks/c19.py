"""C19 - HTTP gate and framing independence. Spec: HttpGate.tla (the layers in front of the gate: HttpStack.tla, ./check X02). Binding: B through the tower service with explicit frames."""
import vlib
from checks import g

PID = "C19"


def run(tier):
    rep = vlib.Report(PID, tier)
    r1 = vlib.tlc("HttpGate", "MC_HttpGate_gate.cfg", workers=2, timeout=120)
    rep.add_tlc(r1, "gate: 8 methods x 31 content-type forms")
    r2 = vlib.tlc("HttpGate", "MC_HttpGate_chunks.cfg", workers=4, timeout=300)
    rep.add_tlc(r2, "body reader state machine over every framing of 6 bodies; Inv_SniffIsFunctionOfBody")
    if vlib.zero_coverage(r2, ["Frame", "Finish"]):
        raise vlib.ToolError("vacuity: Frame/Finish never taken")
    asis = vlib.tlc("HttpGate", "MC_HttpGate_asis.cfg", workers=2, timeout=120, expect_violation=True, coverage=False)
    if asis["violated"] != "Inv_SniffIsFunctionOfBody":
        raise vlib.ToolError("as-is config did not violate Inv_SniffIsFunctionOfBody (spec drift)")
    rep.add_tlc(asis, "as-is (first frame decides even when blank): counterexample found, as expected (F14)")
    cases = r1["replay"] + r2["replay"]
    if len(cases) < 3000:
        raise vlib.ToolError("too few cases: %d" % len(cases))
    g.replay_flow(rep, "c19", cases, k=1 if tier == "quick" else 5, timeout=1800,
                  nontrivial=lambda c: ("allowed" in c and c["allowed"] != ["rpc"]) or ("frames" in c and len(c["frames"]) > 1))
    rep.cov["exhaustive"] = True
    rep.cov["rule"] = ("gate: every (method, content-type form) pair incl. 6 accepted spellings x 3 letter casings, near-misses, "
                       "parameters, duplicates, missing; chunks: for 6 bodies every subset of <= 3 of 5 cut points, optionally one "
                       "empty or whitespace-only frame inserted at every position, with and without Content-Length; each chunked "
                       "exchange is compared byte-for-byte (status, body, handler log) with the one-chunk exchange of the "
                       "concatenation and, where the concatenation's class is known, with the spec's answer; non-trivial = refused "
                       "by the gate or more than one frame")
    rep.assumptions += ["JSON content types with other parameters may be answered 415 or reach RPC (the property's wording leaves it open)"]
    return rep.finish()


def replay(path):
    return g.replay_one("c19", path)
