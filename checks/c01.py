"""C01 - single messages. Spec: Wire.tla (Classify/Reply). Binding: B over HTTP (tower service) and WebSocket (duplex)."""
import vlib
from checks import g

PID = "C01"


def run(tier):
    rep = vlib.Report(PID, tier)
    res = vlib.tlc("MC_Wire", "MC_Wire_single.cfg", workers=4, timeout=300)
    rep.add_tlc(res, "every object over the member-class alphabet + non-object texts; meta-properties of the transcription")
    cases = res["replay"]
    if len(cases) < 8000:
        raise vlib.ToolError("too few cases emitted: %d" % len(cases))
    kinds = {c["kind"] for c in cases}
    if kinds != {"call", "notification", "invalidWithId", "unparseable", "nonobject"}:
        raise vlib.ToolError("vacuity: classes missing from the enumeration: %s" % kinds)
    k = 1 if tier == "quick" else 4
    g.replay_flow(rep, "c01", cases, k=k, timeout=3000,
                  nontrivial=lambda c: not (c["kind"] == "call" and c["ws"].get("kind") == "result"))
    rep.cov["exhaustive"] = True
    rep.cov["rule"] = ("TLC enumerates all 8400 objects over (jsonrpc 4 x id 5 x method 10 x params 7 x unknown-member 2 x syntax 3) "
                       "classes and 8 non-object texts, evaluating the TLA+ transcription of the classifier for the expected reply "
                       "on each transport; each case is concretised k times (seeded member values, member order, interior and 0/1/5/127 "
                       "bytes of leading whitespace, truncation point) and sent over HTTP and over its own WebSocket connection "
                       "(text; binary for a quarter) followed by a probe call; all frames up to EOF after a per-connection "
                       "graceful stop are collected; reply count, well-formedness, id identity, code / handler result, handler "
                       "log, HTTP=WS and liveness are compared; non-trivial = expected outcome is not a successful call")
    rep.assumptions += ["duplicate member names in requests and more than 127 bytes of leading whitespace are outside the alphabet",
                        "invalid UTF-8 is only sent as a binary frame (a text frame with invalid UTF-8 is a protocol violation)",
                        "hyper / soketto are the trusted transport base; the rig is in-process (no sockets)"]
    return rep.finish()


def replay(path):
    return g.replay_one("c01", path)
