"""C10 - graceful stop. Spec: Server.tla (stop part). Binding: A - gated-handler scenarios on the real server validated by Trace_Server.tla."""
import json, os
import vlib

PID = "C10"


def run(tier):
    rep = vlib.Report(PID, tier)
    res = vlib.tlc("MC_Server", "MC_Server_stop.cfg", workers=4, timeout=900)
    rep.add_tlc(res, "one WebSocket connection with 2 calls + one HTTP request, stop at every point, all interleavings; stopped => answered / all tasks done / nothing executes")
    if res["distinct"] < 2000:
        raise vlib.ToolError("vacuity: stop config explored only %d states" % res["distinct"])
    res = vlib.tlc("MC_Server", "MC_Server_live.cfg", workers=4, timeout=900, coverage=False)
    rep.add_tlc(res, "liveness: under weak fairness of the server's own steps only, stop ~> stopped resolved (the peers owe nothing)")
    res = vlib.tlc("MC_Server", "MC_Server_live_unfair.cfg", workers=4, timeout=900, coverage=False, expect_violation=True)
    if res["violated"] != "Live_StopCompletes":
        raise vlib.ToolError("vacuity: without fairness for the connection tasks Live_StopCompletes should fail (got %s)" % res["violated"])
    rep.add_tlc(res, "vacuity guard of the liveness run: without fairness for the connection tasks the property fails, as it must")
    vlib.build_harness()
    n = 300 if tier == "quick" else 4000
    path = os.path.join(rep.wd, "trace-stop.ndjson")
    vlib.vh(["record", "stop", "x", str(n), path], timeout=3000)
    scs = vlib.split_scenarios(path)
    ok, rejs, stats = vlib.validate_traces("MC_Trace_Server", "TSV_stop.cfg", scs, PID + "-stop", timeout=2400)
    rep.cov["states"] += stats["distinct"]
    rep.cov["transitions"] += stats["generated"]
    rep.cov["tlc_runs"].append({"module": "MC_Trace_Server", "cfg": "TSV_stop.cfg", "generated": stats["generated"], "distinct": stats["distinct"],
                                "wall_s": round(stats["wall_s"], 1), "note": "trace validation of %d stop scenarios" % len(scs)})
    for r in rejs:
        if "invariant" in r:
            key = "invariant:" + r["invariant"]
        else:
            key = "unmatched:" + r["event"].get("ev", "?")
        rep.mismatch(key, {"scenario": r["scenario"], "line_in_scenario": r["line_in_scenario"], "first_unexplained": r.get("event") or r.get("invariant"),
                           "trace": [json.loads(x) for x in scs[r["scenario"]]][:200]})
    rep.cov["traces_validated_against_impl"] = len(scs)
    rep.cov["evaluations"] = len(scs)
    nt = set()
    for sc in scs:
        evs = [json.loads(x) for x in sc]
        names = [e["ev"] for e in evs]
        if "Stop" in names:
            i = names.index("Stop")
            # non-trivial: some call was in flight (sent, not yet received) when stop landed
            sent = {e["q"] for e in evs[:i] if e["ev"] == "PeerSend"}
            recvd = {e["q"] for e in evs[:i] if e["ev"] == "Recv"}
            if sent - recvd:
                nt.add("".join(sc[1:]))
    rep.cov["distinct_nontrivial"] = len(nt)
    rep.cov["samples"] = [{"trace": [json.loads(x) for x in scs[0]][:60]}]
    rep.cov["scenarios_accepted"] = ok
    rep.cov["rule"] = ("design: every interleaving of reader, message tasks, writer, the stop signal reaching each part and the accept loop for "
                       "2 WebSocket calls + 1 HTTP request; conformance: seeded scenarios on the real tower service (1-2 WebSocket connections "
                       "with up to 4 gated calls, an HTTP request, message_buffer_capacity 1, some peers withholding reads) where stop() lands "
                       "at a random position of a random interleaving of sends and gate openings, is sometimes issued twice, and a watcher "
                       "logs when stopped() resolves; validated so that at StoppedResolved every started call is written and every task is "
                       "done, at the end everything written was received, and a handler start after stopped is an unmatched event; "
                       "non-trivial = a call was in flight when stop landed")
    rep.assumptions += ["in-process tower-service rig (no accept loop); the accept-loop steps of the model are exercised by the design config"]
    return rep.finish()


def replay(path):
    d = json.load(open(path))
    bad = 0
    for c in d["cases"]:
        lines = [json.dumps(e, separators=(",", ":")) + "\n" for e in c["trace"]]
        ok, rejs, _ = vlib.validate_traces("MC_Trace_Server", "TSV_stop.cfg", [lines], "replay-" + PID)
        bad += len(rejs)
    if bad:
        print("VIOLATION property=%s replay=%s" % (PID, path))
    return 1 if bad else 0
