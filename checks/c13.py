"""C13 - method registry. Spec: Registry.tla. Binding: B (every transition of the TLC state graph replayed on real RpcModules)."""
import vlib
from checks import g

PID = "C13"


def run(tier):
    rep = vlib.Report(PID, tier)
    cfg = "MC_Registry.cfg" if tier == "quick" else "MC_Registry_thorough.cfg"
    res = vlib.tlc("MC_Registry", cfg, workers=4, timeout=900)
    rep.add_tlc(res, "design: every call out of every module-table state reachable within MaxDepth calls (VIEW = tables)")
    z = vlib.zero_coverage(res, ["RegMethod", "RegSub", "Alias", "Remove"])
    cases = res["replay"]
    seen = {(c["op"]["o"], c["res"]) for c in cases}
    need = {("reg", "ok"), ("reg", "err"), ("sub", "ok"), ("sub", "err"), ("alias", "ok"), ("alias", "err"), ("merge", "ok"),
            ("merge", "err"), ("remove", "some"), ("remove", "none"), ("clone", "ok")}
    if z or need - seen:
        raise vlib.ToolError("vacuity: actions never taken: %s %s" % (z, need - seen))
    if len(cases) < 5000:
        raise vlib.ToolError("too few cases emitted: %d" % len(cases))
    g.replay_flow(rep, "c13", cases, k=1 if tier == "quick" else 2, timeout=3000,
                  nontrivial=lambda c: c["res"] in ("err", "none") or c["op"]["o"] in ("merge", "clone", "alias", "sub"))
    rep.cov["exhaustive"] = True
    rep.cov["rule"] = ("one case per transition of Registry.tla's state graph: a shortest call sequence reaching the pre-state "
                       "(<= MaxDepth calls over names {a,b,c}, module slots 1,2 active and 3 as clone target) followed by one more "
                       "call; after EVERY call of the replay the Result class, method_names() of every module value and the "
                       "dispatch outcome of every name on every module value (handler tag via raw_json_request, or -32601) are "
                       "compared with the spec state; non-trivial = the last call fails or is merge/clone/alias/subscription")
    rep.assumptions += ["sync/async/blocking registration kinds are one abstract kind in the spec; the harness rotates them",
                        "an unsubscribe handler's origin is checked through a subscribe/unsubscribe round trip when both halves are bound"]
    return rep.finish()


def replay(path):
    return g.replay_one("c13", path)
