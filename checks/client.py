"""Shared flow of the five client-side checks (C03 C05 C09 C12 C18): design configs of Client.tla, as-is configs that must
exhibit each recorded deviation, then trace validation of seeded scenarios run against the real async client."""
import json, os
import vlib

OWNER_BY_INV = {
    "Inv_Route": "C03", "Inv_IdsUnique": "C03", "Inv_Positional": "C12",
    "Inv_StreamOrdered": "C05", "Inv_LaggedEnds": "C05", "Inv_UnsubAtMostOnce": "C05", "Inv_EndsOnClose": "C05",
    "Inv_NoPlaceholder": "C09", "Inv_SameCause": "C09", "Inv_NoPanic": "C09", "Inv_DisconnectedAfterFailure": "C09",
    "Inv_QuiescentEmpty": "C18", "Inv_IndexConsistent": "C18",
}


GOAL_CFGS = {   # group -> [(config of Goals_Client.tla, goals it must reach)]
    "tight": [("GG_tight_lost.cfg", ["lostDropThenPush", "lagged"]),
              ("GG_tight_lag2.cfg", ["lagTwiceSameId"]),
              ("GG_tight_misc.cfg", ["abandonThenAccept", "sendErrOnUnsub", "closeThenLeave", "duplicateSubId", "reuseThenDropEnded"])],
}

GROUP_OPS = {   # mirror of harness/src/client_scen.rs: group() - (h, kind, ids taken)
    "route": [("a", "call", 1), ("b", "call", 1), ("c", "call", 1), ("d", "sub", 2)],
    "stream": [("a", "sub", 2), ("b", "sub", 2), ("c", "call", 1)],
    "tight": [("a", "sub", 2), ("b", "sub", 2), ("c", "call", 1), ("d", "call", 1)],
    "batch": [("a", "batch", 3), ("b", "batch", 2), ("c", "call", 1)],
    "faulty": [("a", "call", 1), ("b", "sub", 2), ("c", "batch", 2), ("d", "call", 1)],
    "mixed": [("a", "call", 1), ("b", "sub", 2), ("c", "batch", 2), ("d", "sub", 2)],
}


def _ids_by_op(group, evs):
    """first wire id of each started operation: the client numbers requests 0,1,2,.. in the order the futures start"""
    ops = {h: (k, n) for h, k, n in GROUP_OPS.get(group, [])}
    nxt, first = 0, {}
    for e in evs:
        if e.get("ev") == "FeStart" and e["h"] in ops and e["h"] not in first:
            first[e["h"]] = nxt
            nxt += ops[e["h"]][1]
    return first, ops


def _resp_elems(m):
    if m.get("t") == "resp":
        return [m]
    if m.get("t") == "array":
        return [x for x in m["elems"] if x.get("t") == "resp"]
    return []


def _quiet_owner(group, evs, ev):
    """Who owns a trace that the spec stops explaining at a quiescence probe (Quiet / the Connected and Sizes that follow it):
    the client still owes a step the design says it takes on its own.  Decided from what happened before (evs = the events
    up to the unexplained one)."""
    names = [e.get("ev") for e in evs]
    if "SendFault" in names or "RecvFault" in names:
        return "C09", "shutdown-not-completed-after-fault"
    if any(e.get("ev") == "WireIn" and e.get("m", {}).get("t") == "garbage" for e in evs):
        return "C09", "not-abandoned-after-unparseable-text"
    # a stream the application gave up (or that lagged) whose unsubscribe never reached the wire
    sub_of = {e["h"]: e["res"]["sub"] for e in evs if e.get("ev") == "FeDone" and e.get("res", {}).get("k") == "sub"}
    for i, e in enumerate(evs):
        gave_up = e.get("ev") in ("SubDrop", "SubUnsub") or (e.get("ev") == "SubEnd" and e.get("lagged"))
        if gave_up and e.get("h") in sub_of:
            s = sub_of[e["h"]]
            closed_by_server = any(x.get("ev") == "WireIn" and any(y.get("t") == "close" and y.get("sub") == s for y in ([x["m"]] + x["m"].get("elems", [])))
                                   for x in evs[:i] if isinstance(x.get("m"), dict))
            unsub_written = any(x.get("ev") == "WireOut" and x.get("k") == "unsub" and x.get("sub") == s for x in evs)
            if not closed_by_server and not unsub_written:
                return ("C05", "C18"), "unsubscribe-never-written"
    # a stream that fell behind (more notifications consumed for it than the application took plus what the buffer holds) is
    # closed by the client itself: one unsubscribe per such stream, also when the server uses the same id again
    cap = {"stream": 1, "tight": 1, "batch": 1, "faulty": 1}.get(group, 2)
    lagging, written = {}, {}
    acc = [(i, e["h"], e["res"]["sub"]) for i, e in enumerate(evs) if e.get("ev") == "FeDone" and e.get("res", {}).get("k") == "sub"]
    for n, (i, h, sid) in enumerate(acc):
        end = next((j for (j, _, s2) in acc[n + 1:] if s2 == sid), len(evs))
        pushed = sum(1 for x in evs[i:end] if x.get("ev") == "WireIn" and isinstance(x.get("m"), dict)
                     for y in ([x["m"]] + x["m"].get("elems", [])) if y.get("t") == "notif" and y.get("sub") == sid)
        took = sum(1 for x in evs[i:] if x.get("ev") == "SubNext" and x.get("h") == h)
        if pushed - took > cap:
            lagging[sid] = lagging.get(sid, 0) + 1
    for x in evs:
        if x.get("ev") == "WireOut" and x.get("k") == "unsub":
            written[x.get("sub")] = written.get(x.get("sub"), 0) + 1
    if any(written.get(sid, 0) < n for sid, n in lagging.items()):
        return ("C05", "C18"), "unsubscribe-never-written"
    # a subscribe whose caller gave up before the answer: the subscription the server accepted must still be cancelled
    first0, ops0 = _ids_by_op(group, evs)
    for e in evs:
        if e.get("ev") == "FeAbandon" and ops0.get(e.get("h"), ("", 0))[0] == "sub":
            return ("C18", "C05"), "abandoned-subscribe-left-behind"
    # a response that was consumed while its call never completed
    first, ops = _ids_by_op(group, evs)
    done = {e["h"] for e in evs if e.get("ev") == "FeDone"}
    consumed = set()
    for e in evs:
        if e.get("ev") == "WireIn" and isinstance(e.get("m"), dict):
            consumed |= {x["id"] for x in _resp_elems(e["m"])}
    for h, f in first.items():
        if h not in done and ops[h][0] in ("call", "sub") and f in consumed:
            # the call does not complete with the response bearing its id (C03), and its future stays pending although the server
            # has answered (C09: no future stays pending, for any bytes the server may send)
            return ("C03", "C09"), "response-consumed-call-not-completed"
    if ev == "Sizes":
        return "C18", "tables-differ"          # the client is quiescent (the Quiet before was accepted) but its tables hold something else
    return "C09", "client-not-quiescent"


def _batch_owner(group, evs, e):
    """a batch result the spec cannot explain: C12; also C03 when a slot holds the answer to another id"""
    first, ops = _ids_by_op(group, evs)
    tok_id = {}
    for x in evs:
        if x.get("ev") == "PeerSend" and isinstance(x.get("m"), dict):
            for r in _resp_elems(x["m"]):
                tok_id[r.get("tok")] = r.get("id")
    h = e.get("h")
    if h in first:
        for i, t in enumerate(e.get("res", {}).get("toks", [])):
            if t in tok_id and tok_id[t] != first[h] + i:
                return ("C12", "C03")
    return "C12"


def owner(rej, group=None, evs=()):
    """which property a rejection belongs to, and its structural key (evs: the scenario's events up to the unexplained one)"""
    if "invariant" in rej:
        return OWNER_BY_INV.get(rej["invariant"], "C03"), "invariant:" + rej["invariant"]
    e = rej["event"]
    ev = e.get("ev", "?")
    if ev in ("Quiet", "Sizes") or (ev == "Connected" and evs and evs[-1].get("ev") == "Quiet"):
        own, why = _quiet_owner(group, list(evs), ev)
        return own, "unmatched:%s:%s" % (ev, why)
    if ev == "FeDone":
        k = e.get("res", {}).get("k", "?")
        if k == "batch":
            return _batch_owner(group, list(evs), e), "unmatched:FeDone:batch"
        if k in ("ok", "err", "sub", "fail"):
            return "C03", "unmatched:FeDone:" + k
        if k == "restart" and e.get("res", {}).get("cause") == "notPending":
            # the client abandoned the connection over a response it did not find pending where the spec has the call
            # completed (or pending with another outcome): a routing matter as much as a shutdown matter
            return ("C03", "C09"), "unmatched:FeDone:restart-notPending"
        if k == "restart" and any(x.get("ev") == "WireIn" for x in evs):
            # the call ends with the connection's cause where the spec has another outcome for it - after the peer has said
            # something: the outcome may be an answer that was consumed for it (routing) as well as a wrong hand-over (shutdown)
            return ("C03", "C09"), "unmatched:FeDone:restart-other-outcome-due"
        return "C09", "unmatched:FeDone:" + k
    if ev == "OnDisconnect":
        res = e.get("res", {})
        why = res.get("cause") if res.get("k") == "restart" else res.get("k", "?")
        if why == "notPending":
            # (as for FeDone: seen first by the driver's own look at the connection)
            return ("C03", "C09"), "unmatched:OnDisconnect:restart-notPending"
        return "C09", "unmatched:OnDisconnect:%s" % why
    if ev == "WireOut":
        k = e.get("k")
        return {"unsub": "C05", "batch": "C12"}.get(k, "C03"), "unmatched:WireOut:" + str(k)
    if ev in ("SubNext", "SubEnd", "SubUnsub", "SubUnsubDone", "SubDrop"):
        return "C05", "unmatched:" + ev
    if ev == "WireIn":
        return "C03", "unmatched:WireIn"
    return "C09", "unmatched:" + ev


def run_client(pid, tier, rep, design_cfgs, asis, groups, nscen):
    # ---- design level: TLC on the bounded configs
    for cfg, actions, note in design_cfgs:
        res = vlib.tlc("MC_Client", cfg, workers=8, timeout=3000, java_opts=["-Xmx12g"])
        rep.add_tlc(res, note)
        z = vlib.zero_coverage(res, actions)
        if z:
            raise vlib.ToolError("vacuity: %s never taken in %s" % (z, cfg))
    for cfg, inv, note in asis:
        res = vlib.tlc("MC_Client", cfg, workers=8, timeout=600, expect_violation=True, coverage=False)
        if res["violated"] != inv:
            raise vlib.ToolError("%s did not violate %s (got %s): the recorded deviation no longer breaks the model" % (cfg, inv, res["violated"]))
        rep.add_tlc(res, "as-is: " + note + " - counterexample to %s found, as expected" % inv)
    # ---- implementation -> spec: record and validate
    vlib.build_harness()
    wd = rep.wd
    total, accepted, foreign = 0, 0, 0
    foreign_keys = {}
    nontrivial = set()
    nscripts = 0
    for g in groups:
        path = os.path.join(wd, "trace-%s.ndjson" % g)
        vlib.vh(["record", "client", g, str(nscen), path], timeout=1800)
        scs = vlib.split_scenarios(path)
        # ---- spec -> implementation -> spec: environment scripts projected from simulated behaviours of Client.tla
        # (Gen_Client.tla), run against the real client, the recorded executions validated like the others
        gen = vlib.tlc("Gen_Client", "GC_%s.cfg" % g, workers=1, simulate=max(60, (nscen * 3) // 5), depth=500, coverage=False,
                       timeout=900, tag="gen-%s-%s" % (pid, g))
        if len(gen["replay"]) < 20:
            raise vlib.ToolError("script generation for group %s produced only %d scripts" % (g, len(gen["replay"])))
        spath = os.path.join(wd, "scripts-%s.ndjson" % g)
        with open(spath, "w") as f:
            for r in gen["replay"]:
                f.write(json.dumps(r) + "\n")
        tpath = os.path.join(wd, "trace-scripted-%s.ndjson" % g)
        vlib.vh(["record", "clientscript", g, spath, tpath], timeout=1800)
        sscs = vlib.split_scenarios(tpath)
        if len(sscs) != len(gen["replay"]):
            raise vlib.ToolError("scripted run of group %s recorded %d scenarios for %d scripts" % (g, len(sscs), len(gen["replay"])))
        nscripts += len(sscs)
        rep.cov["tlc_runs"].append({"module": "Gen_Client", "cfg": "GC_%s.cfg" % g, "generated": gen["generated"],
                                    "distinct": gen["distinct"], "wall_s": gen["wall_s"],
                                    "note": "simulation of Client.tla: %d environment scripts emitted and run against the real client" % len(sscs)})
        scs = scs + sscs
        # ---- goal-directed scripts: TLC searches the bounded model breadth-first for named corners (Goals_Client.tla)
        for gcfg, goals in GOAL_CFGS.get(g, []):
            gres = vlib.tlc("Goals_Client", gcfg, workers=4, timeout=900, coverage=False, tag="goals-%s-%s" % (pid, gcfg))
            seen_scripts, per_goal, chosen = set(), {}, []
            for r in sorted(gres["replay"], key=lambda r: (r["goal"], len(r["script"]), json.dumps(r["script"], sort_keys=True))):
                key = json.dumps(r["script"], sort_keys=True)
                if key in seen_scripts or per_goal.get(r["goal"], 0) >= 6:
                    continue
                seen_scripts.add(key)
                per_goal[r["goal"]] = per_goal.get(r["goal"], 0) + 1
                chosen.append({"script": r["script"], "goal": r["goal"], "pace": 2})
            missing = [x for x in goals if x not in per_goal]
            if missing:
                raise vlib.ToolError("vacuity: goals %s not reached in %s" % (missing, gcfg))
            gpath = os.path.join(wd, "goal-scripts-%s.ndjson" % gcfg.replace(".cfg", ""))
            with open(gpath, "w") as f:
                for r in chosen:
                    f.write(json.dumps(r) + "\n")
            gt = os.path.join(wd, "trace-goals-%s.ndjson" % gcfg.replace(".cfg", ""))
            vlib.vh(["record", "clientscript", g, gpath, gt], timeout=1800)
            gscs = vlib.split_scenarios(gt)
            if len(gscs) != len(chosen):
                raise vlib.ToolError("goal-directed run of %s recorded %d scenarios for %d scripts" % (gcfg, len(gscs), len(chosen)))
            nscripts += len(gscs)
            rep.cov["tlc_runs"].append({"module": "Goals_Client", "cfg": gcfg, "generated": gres["generated"], "distinct": gres["distinct"],
                                        "wall_s": gres["wall_s"], "note": "breadth-first search for the corners %s: %d scripts run against the real client" % (sorted(per_goal), len(gscs))})
            scs = scs + gscs
        total += len(scs)
        ok, rejs, stats = vlib.validate_traces("MC_Trace_Client", "TC_%s.cfg" % g, scs, "%s-%s" % (pid, g))
        rep.cov["states"] += stats["distinct"]
        rep.cov["transitions"] += stats["generated"]
        rep.cov["tlc_runs"].append({"module": "MC_Trace_Client", "cfg": "TC_%s.cfg" % g, "generated": stats["generated"],
                                    "distinct": stats["distinct"], "wall_s": round(stats["wall_s"], 1),
                                    "note": "trace validation of %d scenarios (%d TLC runs)" % (len(scs), stats["runs"])})
        accepted += ok
        for r in rejs:
            evs_before = [json.loads(x) for x in scs[r["scenario"]][:max(0, r["line_in_scenario"] - 1)]]
            own, key = owner(r, g, evs_before)
            detail = {"group": g, "scenario": r["scenario"], "line_in_scenario": r["line_in_scenario"],
                      "first_unexplained": r.get("event") or r.get("invariant"),
                      "trace": [json.loads(x) for x in scs[r["scenario"]]][:400]}
            if own == pid or (isinstance(own, tuple) and pid in own):
                rep.mismatch("%s:%s" % (g, key), detail)
            else:
                foreign += 1
                foreign_keys[(own, key)] = foreign_keys.get((own, key), 0) + 1
        for sc in scs:
            evs = [json.loads(x).get("ev") for x in sc]
            if any(e in ("Fault", "SubDrop", "SubUnsub", "SubEnd") for e in evs) or '"t":"array"' in "".join(sc) or '"t":"close"' in "".join(sc):
                nontrivial.add("".join(sc[1:]))
        if scs:
            rep.cov["samples"].append({"group": g, "trace": [json.loads(x) for x in scs[min(3, len(scs) - 1)]][:60]})
    for (own, key), n in sorted(foreign_keys.items(), key=lambda kv: (str(kv[0][0]), kv[0][1])):
        vlib.log("  note: %d scenarios rejected for a reason owned by %s (%s) - reported by that property's check" % (n, own, key))
    rep.cov["traces_validated_against_impl"] += total
    rep.cov["evaluations"] += total
    rep.cov["distinct_nontrivial"] += len(nontrivial)
    rep.cov["scenarios_accepted"] = accepted
    rep.cov["scenarios_driven_by_tlc_generated_scripts"] = nscripts
    rep.cov["drivers"] = ("three sources of scenarios per group, all recorded from the real client and validated against Trace_Client.tla: "
                          "(1) a seeded random driver (starts / gives up operations, polls / unsubscribes / drops streams and lets go of ended "
                          "ones, a peer answering what it has seen on the wire incl. foreign, repeated, boundary and other-typed ids, arrays, "
                          "garbage; one fault; back-pressure on the transport); (2) environment scripts projected from TLC simulations of "
                          "Client.tla (Gen_Client.tla); (3) for the group with max_concurrent_requests = 1, scripts found by TLC breadth-first "
                          "search for named corners (Goals_Client.tla: lost drop then push, lagged, abandoned subscribe then accept, send fault "
                          "on an unsubscribe, close then leave, duplicate subscription id, id reuse then dropping the ended handle)")
    rep.cov["scenarios_rejected_for_other_property"] = foreign
    rep.assumptions += ["quiescence probe: after 120 scheduler turns on the current_thread runtime with the in-memory transport (no timers) every task "
                        "of the client is parked; at `Quiet` the trace spec requires that the model has no enabled client step left",
                        "the real client runs on a current_thread tokio runtime over an in-memory transport; schedules are varied by seeded yields, "
                        "not enumerated", "TLC explores every interleaving of the MODEL for the bounded configs; the code is checked on the recorded executions"]


def replay_client(pid, path):
    d = json.load(open(path))
    bad = 0
    for c in d["cases"]:
        g = c["group"]
        lines = [json.dumps(e, separators=(",", ":")) + "\n" for e in c["trace"]]
        ok, rejs, _ = vlib.validate_traces("MC_Trace_Client", "TC_%s.cfg" % g, [lines], "replay-" + pid)
        for r in rejs:
            bad += 1
            print("REJECTED at line %d: %s" % (r["line_in_scenario"], json.dumps(r.get("event") or r.get("invariant"))))
    print("re-validated %d stored traces, %d rejected (the stored trace is re-checked against the current spec; re-record with ./check %s to re-run the code)" % (len(d["cases"]), bad, pid))
    if bad:
        print("VIOLATION property=%s replay=%s" % (pid, path))
    return 1 if bad else 0
