"""Shared flow of the five client-side checks (C03 C05 C09 C12 C18): design configs of Client.tla, as-is configs that must
exhibit each recorded deviation, then trace validation of seeded scenarios run against the real async client."""
import json, os
import vlib

OWNER_BY_INV = {
    "Inv_Route": "C03", "Inv_IdsUnique": "C03", "Inv_Positional": "C12",
    "Inv_StreamOrdered": "C05", "Inv_LaggedEnds": "C05", "Inv_UnsubAtMostOnce": "C05", "Inv_EndsOnClose": "C05",
    "Inv_NoPlaceholder": "C09", "Inv_SameCause": "C09", "Inv_NoPanic": "C09", "Inv_DisconnectedAfterFailure": "C09",
    "Inv_QuiescentEmpty": "C18", "Inv_IndexConsistent": "C18",
}


def owner(rej):
    """which property a rejection belongs to, and its structural key"""
    if "invariant" in rej:
        return OWNER_BY_INV.get(rej["invariant"], "C03"), "invariant:" + rej["invariant"]
    e = rej["event"]
    ev = e.get("ev", "?")
    if ev == "FeDone":
        k = e.get("res", {}).get("k", "?")
        if k == "batch":
            return "C12", "unmatched:FeDone:batch"
        if k in ("ok", "err", "sub", "fail"):
            return "C03", "unmatched:FeDone:" + k
        if k == "restart" and e.get("res", {}).get("cause") == "notPending":
            # the client abandoned the connection over a response it did not find pending where the spec has the call
            # completed (or pending with another outcome): a routing matter as much as a shutdown matter
            return ("C03", "C09"), "unmatched:FeDone:restart-notPending"
        return "C09", "unmatched:FeDone:" + k
    if ev == "WireOut":
        k = e.get("k")
        return {"unsub": "C05", "batch": "C12"}.get(k, "C03"), "unmatched:WireOut:" + str(k)
    if ev in ("SubNext", "SubEnd", "SubUnsub", "SubUnsubDone", "SubDrop"):
        return "C05", "unmatched:" + ev
    if ev == "Sizes":
        return "C18", "unmatched:Sizes"
    if ev == "WireIn":
        return "C03", "unmatched:WireIn"
    return "C09", "unmatched:" + ev


def run_client(pid, tier, rep, design_cfgs, asis, groups, nscen):
    # ---- design level: TLC on the bounded configs
    for cfg, actions, note in design_cfgs:
        res = vlib.tlc("MC_Client", cfg, workers=8, timeout=1500, java_opts=["-Xmx12g"])
        rep.add_tlc(res, note)
        z = vlib.zero_coverage(res, actions)
        if z:
            raise vlib.ToolError("vacuity: %s never taken in %s" % (z, cfg))
    for cfg, inv, note in asis:
        res = vlib.tlc("MC_Client", cfg, workers=8, timeout=600, expect_violation=True, coverage=False)
        if res["violated"] != inv:
            raise vlib.ToolError("%s did not violate %s (got %s): the recorded deviation no longer breaks the model" % (cfg, inv, res["violated"]))
        rep.add_tlc(res, "as-is: " + note + " - counterexample to %s found, as expected" % inv)
    # ---- implementation -> spec: record and validate
    vlib.build_harness()
    wd = rep.wd
    total, accepted, foreign = 0, 0, 0
    foreign_keys = {}
    nontrivial = set()
    nscripts = 0
    for g in groups:
        path = os.path.join(wd, "trace-%s.ndjson" % g)
        vlib.vh(["record", "client", g, str(nscen), path], timeout=1800)
        scs = vlib.split_scenarios(path)
        # ---- spec -> implementation -> spec: environment scripts projected from simulated behaviours of Client.tla
        # (Gen_Client.tla), run against the real client, the recorded executions validated like the others
        gen = vlib.tlc("Gen_Client", "GC_%s.cfg" % g, workers=1, simulate=max(60, (nscen * 3) // 5), depth=500, coverage=False,
                       timeout=900, tag="gen-%s-%s" % (pid, g))
        if len(gen["replay"]) < 20:
            raise vlib.ToolError("script generation for group %s produced only %d scripts" % (g, len(gen["replay"])))
        spath = os.path.join(wd, "scripts-%s.ndjson" % g)
        with open(spath, "w") as f:
            for r in gen["replay"]:
                f.write(json.dumps(r) + "\n")
        tpath = os.path.join(wd, "trace-scripted-%s.ndjson" % g)
        vlib.vh(["record", "clientscript", g, spath, tpath], timeout=1800)
        sscs = vlib.split_scenarios(tpath)
        if len(sscs) != len(gen["replay"]):
            raise vlib.ToolError("scripted run of group %s recorded %d scenarios for %d scripts" % (g, len(sscs), len(gen["replay"])))
        nscripts += len(sscs)
        rep.cov["tlc_runs"].append({"module": "Gen_Client", "cfg": "GC_%s.cfg" % g, "generated": gen["generated"],
                                    "distinct": gen["distinct"], "wall_s": gen["wall_s"],
                                    "note": "simulation of Client.tla: %d environment scripts emitted and run against the real client" % len(sscs)})
        scs = scs + sscs
        total += len(scs)
        ok, rejs, stats = vlib.validate_traces("MC_Trace_Client", "TC_%s.cfg" % g, scs, "%s-%s" % (pid, g))
        rep.cov["states"] += stats["distinct"]
        rep.cov["transitions"] += stats["generated"]
        rep.cov["tlc_runs"].append({"module": "MC_Trace_Client", "cfg": "TC_%s.cfg" % g, "generated": stats["generated"],
                                    "distinct": stats["distinct"], "wall_s": round(stats["wall_s"], 1),
                                    "note": "trace validation of %d scenarios (%d TLC runs)" % (len(scs), stats["runs"])})
        accepted += ok
        for r in rejs:
            own, key = owner(r)
            detail = {"group": g, "scenario": r["scenario"], "line_in_scenario": r["line_in_scenario"],
                      "first_unexplained": r.get("event") or r.get("invariant"),
                      "trace": [json.loads(x) for x in scs[r["scenario"]]][:400]}
            if own == pid or (isinstance(own, tuple) and pid in own):
                rep.mismatch("%s:%s" % (g, key), detail)
            else:
                foreign += 1
                foreign_keys[(own, key)] = foreign_keys.get((own, key), 0) + 1
        for sc in scs:
            evs = [json.loads(x).get("ev") for x in sc]
            if any(e in ("Fault", "SubDrop", "SubUnsub", "SubEnd") for e in evs) or '"t":"array"' in "".join(sc) or '"t":"close"' in "".join(sc):
                nontrivial.add("".join(sc[1:]))
        if scs:
            rep.cov["samples"].append({"group": g, "trace": [json.loads(x) for x in scs[min(3, len(scs) - 1)]][:60]})
    for (own, key), n in sorted(foreign_keys.items()):
        vlib.log("  note: %d scenarios rejected for a reason owned by %s (%s) - reported by that property's check" % (n, own, key))
    rep.cov["traces_validated_against_impl"] += total
    rep.cov["evaluations"] += total
    rep.cov["distinct_nontrivial"] += len(nontrivial)
    rep.cov["scenarios_accepted"] = accepted
    rep.cov["scenarios_driven_by_tlc_generated_scripts"] = nscripts
    rep.cov["scenarios_rejected_for_other_property"] = foreign
    rep.assumptions += ["the real client runs on a current_thread tokio runtime over an in-memory transport; schedules are varied by seeded yields, "
                        "not enumerated", "TLC explores every interleaving of the MODEL for the bounded configs; the code is checked on the recorded executions"]


def replay_client(pid, path):
    d = json.load(open(path))
    bad = 0
    for c in d["cases"]:
        g = c["group"]
        lines = [json.dumps(e, separators=(",", ":")) + "\n" for e in c["trace"]]
        ok, rejs, _ = vlib.validate_traces("MC_Trace_Client", "TC_%s.cfg" % g, [lines], "replay-" + pid)
        for r in rejs:
            bad += 1
            print("REJECTED at line %d: %s" % (r["line_in_scenario"], json.dumps(r.get("event") or r.get("invariant"))))
    print("re-validated %d stored traces, %d rejected (the stored trace is re-checked against the current spec; re-record with ./check %s to re-run the code)" % (len(d["cases"]), bad, pid))
    if bad:
        print("VIOLATION property=%s replay=%s" % (pid, path))
    return 1 if bad else 0
