"""C11 - connection guard. Spec: Server.tla (guard part). Binding: B, serialised behaviours on the real tower service."""
import vlib
from checks import g

PID = "C11"


def run(tier):
    rep = vlib.Report(PID, tier)
    cfg = "MC_Server_guard.cfg" if tier == "quick" else "MC_Server_guard_thorough.cfg"
    res = vlib.tlc("MC_Server", cfg, workers=4, timeout=900)
    rep.add_tlc(res, "open / failed upgrade / finish (respond, client close, peer reset, server close) over limits 0..3; Inv_Bound, Inv_Conservation")
    res2 = vlib.tlc("MC_Server", "MC_Server_guard_inactive.cfg", workers=2, timeout=300)
    rep.add_tlc(res2, "server-side close for ping inactivity with a call in flight")
    cases = res["replay"] + [c for c in res2["replay"] if any(s["op"].get("how") == "inactive" for s in c["path"])]
    seen = {(c["path"][-1]["op"]["o"], c["path"][-1]["op"].get("how", ""), c["path"][-1]["res"]) for c in cases}
    need = {("open", "", "ok"), ("open", "", "429"), ("upgradeFail", "", "failed"), ("upgradeFail", "", "429"), ("finish", "respond", "ok"),
            ("finish", "reset", "ok"), ("finish", "clientClose", "ok"), ("finish", "serverClose", "ok"), ("finish", "inactive", "ok")}
    if need - seen:
        raise vlib.ToolError("vacuity: transitions never enumerated: %s" % (need - seen))
    g.replay_flow(rep, "c11", cases, timeout=3000, env={"VERIF_CYCLES": "3" if tier == "quick" else "25"},
                  nontrivial=lambda c: c["path"][-1]["res"] == "429" or c["path"][-1]["op"]["o"] != "open")
    rep.cov["exhaustive"] = True
    rep.cov["rule"] = ("one case per transition of the guard model: shortest sequence of driver steps reaching the pre-state (2 HTTP requests "
                       "held in service by gated handlers, 2 WebSocket sessions; open, upgrade request with a failing handshake, finish by "
                       "response / client close / abrupt peer reset / server-side stop) plus one more step, for limits 0..3; replayed on the "
                       "real tower service over in-process connections: each step's outcome (served / 429, no handler for refused) and, "
                       "after the last step, ConnectionGuard::available_connections() (taken from the request extensions by a warm-up "
                       "call) must equal the spec; the sequence is repeated on the same service (3x quick, 25x thorough) and all slots "
                       "must be free between cycles")
    rep.assumptions += ["after an asynchronous release (peer reset, server-side close) the harness waits up to 3 s for the slot count to reach "
                        "the spec's value; a slot that is never returned is reported at the step that leaks it"]
    return rep.finish()


def replay(path):
    return g.replay_one("c11", path)
