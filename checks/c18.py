"""C18 - client bookkeeping returns to empty. Spec: Client.tla (four tables). Binding: A with the H1 table-size hook."""
import vlib
from checks import client

PID = "C18"


def run(tier):
    rep = vlib.Report(PID, tier)
    n = 300 if tier == "quick" else 4000
    client.run_client(PID, tier, rep,
        design_cfgs=[("MC_Client_book.cfg" if tier == "quick" else "MC_Client_book_thorough.cfg", ["StStep", "RtRecv", "SubDrop", "SubUnsubStart"],
                      "1 call + 1 subscription through every end path; Inv_QuiescentEmpty / Inv_IndexConsistent"),
                     ("MC_Client_abandon.cfg", ["AppAbandon", "StStep", "RtRecv", "RtForward"],
                      "the same, and the application may give any future up before it returns (timeout, select!): the tables still empty out")],
        asis=[("MC_Client_asis_F13a.cfg", "Inv_QuiescentEmpty", "subscribe id kept after unsubscribe (F13a)"),
              ("MC_Client_asis_F13b.cfg", "Inv_QuiescentEmpty", "reserved unsubscribe id kept after a server-side close (F13b)"),
              ("MC_Client_asis_F13c.cfg", "Inv_QuiescentEmpty", "reserved unsubscribe id kept after a refused / malformed / duplicate subscribe answer (F13c)"),
              ("MC_Client_asis_F17.cfg", "Inv_QuiescentEmpty", "a subscription accepted after its caller gave up is never unsubscribed (F17)")],
        groups=["stream", "tight", "mixed"], nscen=n)
    rep.cov["rule"] = ("design: every interleaving of 1 call + 1 subscription with accepted / refused / malformed / duplicate answers, "
                       "unsubscribe, drop, server close and lag; conformance: in every recorded scenario the harness reads the sizes of "
                       "the client's request / subscription / batch tables (hook H1) whenever the system is settled, and each reading must "
                       "equal the cardinalities of the spec's tables in a settled spec state - a residue is caught at the step that leaves it")
    rep.assumptions += ["hook H1 (cfg jsonrpsee_verif) exposes the table sizes through a Weak handle that does not keep the manager alive"]
    return rep.finish()


def replay(path):
    return client.replay_client(PID, path)
