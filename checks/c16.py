"""C16 - params decoding. Spec: ParamsSeq.tla. Binding: B (every TLC case replayed into Params/ParamsSequence)."""
import vlib
from checks import g

PID = "C16"


def run(tier):
    rep = vlib.Report(PID, tier)
    cfgs = ["MC_ParamsSeq.cfg"] if tier == "quick" else ["MC_ParamsSeq_thorough.cfg", "MC_ParamsSeq_thorough3.cfg"]
    cases = []
    for cfg in cfgs:
        res = vlib.tlc("MC_ParamsSeq", cfg, workers=8, timeout=600)
        rep.add_tlc(res, "design: reader state graph; every (cursor position, first op, second op) transition")
        z = vlib.zero_coverage(res, ["Advance", "Read", "Whole"])
        if z:
            raise vlib.ToolError("vacuity: actions never taken: %s" % z)
        cases += res["replay"]
    if len(cases) < 10000:
        raise vlib.ToolError("too few cases emitted: %d" % len(cases))
    k = 1 if tier == "quick" else 3

    def nontrivial(c):
        return any(o["res"]["r"] != "elem" for o in c["ops"])
    rows = g.replay_flow(rep, "c16", cases, k=k, nontrivial=nontrivial)
    rep.cov["evaluations"] = len([r for r in rows if "ok" in r])
    rep.cov["exhaustive"] = True
    rep.cov["rule"] = ("TLC enumerates, for every params shape (array of <= MaxLen element classes / object / scalar / absent), "
                       "every cursor position reached by successful reads, every first typed read (next/optional_next x 7 Rust "
                       "types, parse, one) and every second read from SecondOps; each case is run under 4 whitespace patterns x k "
                       "seeded concretisations and every returned element is compared with the element a plain serde_json parse "
                       "of the same text yields; non-trivial = at least one read whose expected result is not an element")
    rep.assumptions += ["only valid JSON reaches Params (guaranteed by the request parser), so malformed arrays are outside the alphabet",
                        "after a failed read optional_next may answer error or absent (the property allows both)"]
    return rep.finish()


def replay(path):
    return g.replay_one("c16", path)
