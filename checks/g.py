"""Generic 'spec -> implementation' replay flow shared by the G2/G3 checks (DESIGN 2.1 steps 1-3, 5)."""
import json, os
import vlib


def replay_flow(rep, module, cases, *, k=1, env=None, timeout=900, nontrivial=None, sample_n=3, key_of=None, only_keys=None):
    """write cases, run `vh replay <module>`, fold verdicts into the report. Returns verdict rows."""
    wd = rep.wd
    cases = sorted(cases, key=lambda c: json.dumps(c, sort_keys=True))   # TLC's emission order depends on worker timing
    cpath = os.path.join(wd, "cases-%s.ndjson" % module)
    opath = os.path.join(wd, "verdicts-%s.ndjson" % module)
    vlib.write_ndjson(cpath, cases)
    e = {"VERIF_K": str(k)}
    if env:
        e.update(env)
    vlib.vh(["replay", module, cpath, opath], env=e, timeout=timeout)
    rows = vlib.read_ndjson(opath)
    verdicts = [r for r in rows if "ok" in r]
    if len(verdicts) < len(cases):
        raise vlib.ToolError("%s: harness returned %d verdicts for %d cases" % (module, len(verdicts), len(cases)))
    bad = [r for r in rows if ("ok" in r and not r["ok"]) or r.get("extra")]
    if only_keys:
        # the replay of another property's cases, run for one aspect only: mismatches of other kinds are that property's to report
        bad = [r for r in bad if only_keys(r["key"])]
    known = set(vlib.known_findings(rep.pid).keys())
    if any(r["key"] not in known for r in bad):
        # A replay is deterministic (same cases, same seeds, a serialised driver): a mismatch that says something about the code
        # shows again when the same replay is run again.  One that does not is scheduling noise of the rig under load (seen once:
        # 1 frame missing in 128 840 WebSocket exchanges while 20 other jobs were running) - it is kept in the evidence, not
        # reported as a violation.
        opath2 = os.path.join(wd, "verdicts-%s-rerun.ndjson" % module)
        vlib.vh(["replay", module, cpath, opath2], env=e, timeout=timeout)
        again = {(r.get("i"), r.get("k"), r["key"]) for r in vlib.read_ndjson(opath2) if ("ok" in r and not r["ok"]) or r.get("extra")}
        kept = [r for r in bad if (r.get("i"), r.get("k"), r["key"]) in again or r["key"] in known]
        lost = [r for r in bad if r not in kept]
        if lost:
            vlib.log("  note: %d mismatch(es) did not reproduce when the same replay was run again: %s" % (len(lost), sorted({r["key"] for r in lost})))
            rep.cov.setdefault("mismatches_not_reproduced_on_rerun", []).extend(
                {"key": r["key"], "i": r.get("i"), "k": r.get("k"), "detail": r["detail"]} for r in lost[:20])
        bad = kept
    for r in bad:
        rep.mismatch(r["key"], r["detail"])
    rep.cov["traces_validated_against_impl"] += len(verdicts)
    rep.cov["evaluations"] += len(verdicts)
    if nontrivial:
        rep.cov["distinct_nontrivial"] += len({json.dumps(c, sort_keys=True) for c in cases if nontrivial(c)})
    for c in cases[:: max(1, len(cases) // sample_n)][:sample_n]:
        rep.cov["samples"].append(c)
    return rows


def replay_one(module, path):
    """--replay: re-run the stored cases of one replay file and print verdicts"""
    d = json.load(open(path))
    cases = [c["case"] for c in d["cases"] if "case" in c]
    wd = vlib.workdir(d["property"])
    cpath = os.path.join(wd, "replay-in.ndjson")
    opath = os.path.join(wd, "replay-out.ndjson")
    vlib.write_ndjson(cpath, cases)
    vlib.vh(["replay", module, cpath, opath])
    bad = 0
    for r in vlib.read_ndjson(opath):
        if "ok" in r and not r["ok"]:
            bad += 1
            print("MISMATCH key=%s %s" % (r["key"], json.dumps(r["detail"])[:2000]))
    print("replayed %d cases, %d mismatching" % (len(cases), bad))
    if bad:
        print("VIOLATION property=%s replay=%s" % (d["property"], path))
    return 1 if bad else 0
