"""Generic 'spec -> implementation' replay flow shared by the G2/G3 checks (DESIGN 2.1 steps 1-3, 5)."""
import json, os
import vlib


def replay_flow(rep, module, cases, *, k=1, env=None, timeout=900, nontrivial=None, sample_n=3, key_of=None):
    """write cases, run `vh replay <module>`, fold verdicts into the report. Returns verdict rows."""
    wd = rep.wd
    cases = sorted(cases, key=lambda c: json.dumps(c, sort_keys=True))   # TLC's emission order depends on worker timing
    cpath = os.path.join(wd, "cases-%s.ndjson" % module)
    opath = os.path.join(wd, "verdicts-%s.ndjson" % module)
    vlib.write_ndjson(cpath, cases)
    e = {"VERIF_K": str(k)}
    if env:
        e.update(env)
    vlib.vh(["replay", module, cpath, opath], env=e, timeout=timeout)
    rows = vlib.read_ndjson(opath)
    verdicts = [r for r in rows if "ok" in r]
    if len(verdicts) < len(cases):
        raise vlib.ToolError("%s: harness returned %d verdicts for %d cases" % (module, len(verdicts), len(cases)))
    for r in rows:
        if ("ok" in r and not r["ok"]) or r.get("extra"):
            rep.mismatch(r["key"], r["detail"])
    rep.cov["traces_validated_against_impl"] += len(verdicts)
    rep.cov["evaluations"] += len(verdicts)
    if nontrivial:
        rep.cov["distinct_nontrivial"] += len({json.dumps(c, sort_keys=True) for c in cases if nontrivial(c)})
    for c in cases[:: max(1, len(cases) // sample_n)][:sample_n]:
        rep.cov["samples"].append(c)
    return rows


def replay_one(module, path):
    """--replay: re-run the stored cases of one replay file and print verdicts"""
    d = json.load(open(path))
    cases = [c["case"] for c in d["cases"] if "case" in c]
    wd = vlib.workdir(d["property"])
    cpath = os.path.join(wd, "replay-in.ndjson")
    opath = os.path.join(wd, "replay-out.ndjson")
    vlib.write_ndjson(cpath, cases)
    vlib.vh(["replay", module, cpath, opath])
    bad = 0
    for r in vlib.read_ndjson(opath):
        if "ok" in r and not r["ok"]:
            bad += 1
            print("MISMATCH key=%s %s" % (r["key"], json.dumps(r["detail"])[:2000]))
    print("replayed %d cases, %d mismatching" % (len(cases), bad))
    if bad:
        print("VIOLATION property=%s replay=%s" % (d["property"], path))
    return 1 if bad else 0
