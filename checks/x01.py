"""X01 (beyond the listed properties) - establishing a WebSocket connection through redirections. Spec: WsConnect.tla.
Binding: every walk TLC enumerates is replayed through the real WsTransportClientBuilder against two scripted loopback servers."""
import vlib
from checks import g

PID = "X01"


def run(tier):
    rep = vlib.Report(PID, tier)
    r = vlib.tlc("WsConnect", "MC_WsConnect.cfg", workers=4, timeout=300)
    rep.add_tlc(r, "every walk of <= 3 handshakes over 13 answer classes (accept, reject, absolute / relative redirections, unusable "
                   "locations), max_redirections 0..3; Inv_Bounded, Inv_ConnectedWhereLed, Inv_HostNamesTheServer, Inv_Walk")
    if len(r["replay"]) < 1800 or vlib.zero_coverage(r, ["Handshake", "Idle", "GiveUp"]):
        raise vlib.ToolError("vacuity: walk enumeration incomplete")
    g.replay_flow(rep, "wsconnect", r["replay"], timeout=1800, nontrivial=lambda c: len(c["steps"]) > 1 or c["outcome"]["k"] != "connected")
    rep.cov["exhaustive"] = True
    rep.cov["rule"] = ("every sequence of <= 3 server answers (accept; reject; redirection to an absolute ws URL on either of two servers; to "
                       "an http URL; to a path; to a path segment; to an unparseable location - with 301/302/303/307/308 in turn) for "
                       "max_redirections 0..3 and two start paths, replayed through WsTransportClientBuilder::build against two loopback "
                       "listeners: number of handshakes, and for each the server connected to, the Host header and the path, then the "
                       "outcome (connected / rejected / url / no-address)")
    rep.assumptions += ["hosts resolve to one socket address (127.0.0.1): the inner loop over socket addresses has one iteration",
                        "plain ws only (no TLS in the sandbox)"]
    return rep.finish()


def replay(path):
    return g.replay_one("wsconnect", path)
