"""C20 - params builders. Spec: ParamsBuilder.tla. Binding: B (every TLC behaviour replayed into the real builders)."""
import vlib
from checks import g

PID = "C20"


def run(tier):
    rep = vlib.Report(PID, tier)
    cfg = "MC_ParamsBuilder.cfg" if tier == "quick" else "MC_ParamsBuilder_thorough.cfg"
    res = vlib.tlc("ParamsBuilder", cfg, workers=4, timeout=300)
    rep.add_tlc(res, "design: all insert/failing-insert sequences, both builders, constructors")
    z = vlib.zero_coverage(res, ["Insert", "InsertFails", "Build"])
    if z:
        raise vlib.ToolError("vacuity: actions never taken: %s" % z)
    # the as-is configuration must exhibit the finding (documents F15; also a vacuity guard for Inv_BuildNeverPanics)
    asis = vlib.tlc("ParamsBuilder", "MC_ParamsBuilder_asis.cfg", workers=2, timeout=120, expect_violation=True, coverage=False)
    if asis["violated"] != "Inv_BuildNeverPanics":
        raise vlib.ToolError("as-is config did not violate Inv_BuildNeverPanics (spec drift)")
    rep.add_tlc(asis, "as-is (no truncation on failed insert): counterexample to Inv_BuildNeverPanics found, as expected")
    cases = res["replay"]
    if len(cases) < 1000:
        raise vlib.ToolError("too few cases emitted: %d" % len(cases))
    k = 1 if tier == "quick" else 4
    g.replay_flow(rep, "c20", cases, k=k,
                  nontrivial=lambda c: any(o.get("op") == "fail" for o in c["ops"]) or c["kind"] == "ctor")
    rep.cov["exhaustive"] = True
    rep.cov["rule"] = ("TLC enumerates every sequence of <= MaxOps insert / failing-insert calls (4 value classes, 3 failure "
                       "classes) on both builders followed by build, plus every one-shot constructor (tuples 1..16, vec, slice, "
                       "array, map, rpc_params!, batch builder 0..3); each behaviour is replayed k times with seeded concrete "
                       "values; non-trivial = contains a failing insert or is a constructor case; exhaustive refers to the "
                       "abstract behaviours, concrete values are sampled")
    rep.cov["constants"] = {"MaxOps": 4 if tier == "quick" else 5, "k": k}
    rep.assumptions += ["serde_json's own serialisation of Value is the reference for the expected JSON",
                        "object keys are kept distinct (duplicate keys are outside the property)"]
    return rep.finish()


def replay(path):
    return g.replay_one("c20", path)
