"""C04 - server subscription notifications: own id, after the response, in order, nothing after close.
Spec: ServerSubs.tla (queue part). Binding: A - concurrent executions of the real server validated by Trace_ServerSubs.tla."""
import json, os
import vlib

PID = "C04"


def run(tier):
    rep = vlib.Report(PID, tier)
    res = vlib.tlc("MC_ServerSubs", "MC_ServerSubs_order.cfg", workers=8, timeout=1500)
    rep.add_tlc(res, "1 connection, 2 subscriptions, queue capacity 2: all interleavings of handlers, writer, unsubscribe and connection close")
    if res["distinct"] < 100000:
        raise vlib.ToolError("vacuity: the ordering config explored only %d states" % res["distinct"])
    # ---- serialised replay (B): every driver-call sequence taken when the writers have drained; the frames each peer must
    # have received are part of every case (quick: a stable tenth of the cases; thorough: all of them)
    import hashlib
    from checks import g
    wres = vlib.tlc("MC_ServerSubs", "MC_ServerSubs_wire.cfg", workers=8, timeout=1500, coverage=False)
    rep.add_tlc(wres, "serialised behaviours (a driver step only when every writer has drained): 2 connections, 3 subscribe calls, caps 1..2, "
                      "<= 2 notifications each, sequences of <= 5 driver calls; emitted with the frames each peer must have received")
    wcases = wres["replay"]
    kinds = {f["t"] for c in wcases for conn in c["frames"] for f in conn}
    if not {"resp", "err", "notif", "close", "unsubResp"} <= kinds:
        raise vlib.ToolError("vacuity: frame kinds never enumerated: %s" % ({"resp", "err", "notif", "close", "unsubResp"} - kinds))
    # every prefix of a case's call sequence is a case of its own (the one that discovered the pre-state): its frame counts tell
    # the serialised driver how many frames to wait for after that step (the spec's `Drained`)
    key = lambda steps: json.dumps([[st["op"], st["res"]] for st in steps], sort_keys=True)
    counts, uniq = {}, {}
    for c in wcases:
        counts[key(c["path"])] = [len(x) for x in c["frames"]]
        uniq.setdefault(key(c["path"]), c)          # the same call sequence is emitted once per writer progress: keep one
    wcases = [uniq[k] for k in sorted(uniq)]
    for c in wcases:
        plain = list(c["path"])
        for i in range(len(plain)):
            nf = counts.get(key(plain[:i + 1]))
            if nf is None:
                raise vlib.ToolError("a prefix of an emitted call sequence was not emitted itself")
            c["path"][i] = dict(plain[i], nf=nf)
    if tier == "quick":
        wcases = [c for c in wcases if int(hashlib.sha1(json.dumps([[st["op"], st["res"]] for st in c["path"]], sort_keys=True).encode()).hexdigest(), 16) % 10 == 0]
    g.replay_flow(rep, "c06", wcases, timeout=3000,
                  nontrivial=lambda c: any(f["t"] in ("notif", "close") for conn in c["frames"] for f in conn))
    vlib.build_harness()
    n = 150 if tier == "quick" else 2500
    path = os.path.join(rep.wd, "trace-subs.ndjson")
    vlib.vh(["record", "subs", "x", str(n), path], timeout=3000)
    scs = vlib.split_scenarios(path)
    ok, rejs, stats = vlib.validate_traces("MC_Trace_ServerSubs", "TS_subs.cfg", scs, PID + "-subs", timeout=2400)
    rep.cov["states"] += stats["distinct"]
    rep.cov["transitions"] += stats["generated"]
    rep.cov["tlc_runs"].append({"module": "MC_Trace_ServerSubs", "cfg": "TS_subs.cfg", "generated": stats["generated"], "distinct": stats["distinct"],
                                "wall_s": round(stats["wall_s"], 1), "note": "trace validation of %d concurrent scenarios" % len(scs)})
    for r in rejs:
        what = r.get("event") or {"invariant": r.get("invariant")}
        if "invariant" in r:
            key = "invariant:" + r["invariant"]
        else:
            e = r["event"]
            key = "unmatched:" + e.get("ev", "?")
            if e.get("ev") == "Recv":
                key += ":" + str(e.get("f", {}).get("t"))
            if e.get("ev") in ("HSendEnd", "HAcceptEnd"):
                key += ":ok" if e.get("ok") else ":err"
        rep.mismatch(key, {"scenario": r["scenario"], "line_in_scenario": r["line_in_scenario"], "first_unexplained": what,
                           "trace": [json.loads(x) for x in scs[r["scenario"]]][:300]})
    rep.cov["traces_validated_against_impl"] = rep.cov.get("traces_validated_against_impl", 0) + len(scs)
    rep.cov["evaluations"] = rep.cov.get("evaluations", 0) + len(scs)
    nt = set()
    for sc in scs:
        txt = "".join(sc[1:])
        if '"SendUnsub"' in txt or '"PeerClose"' in txt or '"ok":false' in txt or '"HReject"' in txt:
            nt.add(txt)
    rep.cov["distinct_nontrivial"] = rep.cov.get("distinct_nontrivial", 0) + len(nt)
    rep.cov["samples"] = [{"trace": [json.loads(x) for x in scs[min(2, len(scs) - 1)]][:80]}]
    rep.cov["scenarios_accepted"] = ok
    rep.cov["rule"] = ("serialised replay: every sequence of <= 5 driver calls (subscribe, accept, reject, drop-pending, clone / drop a sink, send "
                       "through send / send_timeout / try_send, unsubscribe, handler return with or without a closing value, connection close) "
                       "on 2 connections, caps 1..2, each taken when the writers have drained, replayed on the real server; every step's output "
                       "and, at the end, the exact sequence of frames every peer has received (response / error / notification n / close / "
                       "unsubscribe answer) must equal the spec's. "
                       "design: every interleaving of two scripted handlers (accept / reject / drop, <= 2 sends, return with or without a closing "
                       "value), the writer, unsubscribe and connection close on one connection with queue capacity 2, checking response-before-"
                       "notifications, per-subscription FIFO, own connection, close-at-most-once-and-only-if-accepted, no notifications unless "
                       "accepted; conformance: seeded concurrent scenarios on a 4-thread runtime (3 subscriptions on 2 connections, handlers with "
                       "random scripts incl. clones and is_closed probes, peers that subscribe, unsubscribe own / foreign / never-issued ids, "
                       "close or stop at random moments, all frames read to EOF) recorded under one mutex and validated: every frame must be "
                       "the next message of the spec's wire, every send / accept result must be the one the spec's state allows inside the "
                       "call's start-end window; non-trivial = scenario contains an unsubscribe, a peer close, a failed send or a reject")
    rep.assumptions += ["lock-free library steps are placed by TLC between the logged start and end of the call (start/end bracketing)",
                        "a send that returned Ok may still be dropped when the writer stops (the property only demands that sends started "
                        "after the close fail)", "real schedules are sampled (seeded delays on a multi-threaded runtime)"]
    return rep.finish()


def replay(path):
    d = json.load(open(path))
    if d.get("key", "").startswith("wire:") or any("case" in c for c in d["cases"]):
        # a case of the serialised replay: re-run it on the real server
        from checks import g
        return g.replay_one("c06", path)
    bad = 0
    for c in d["cases"]:
        lines = [json.dumps(e, separators=(",", ":")) + "\n" for e in c["trace"]]
        ok, rejs, _ = vlib.validate_traces("MC_Trace_ServerSubs", "TS_subs.cfg", [lines], "replay-" + PID)
        bad += len(rejs)
        for r in rejs:
            print("REJECTED at line %d: %s" % (r["line_in_scenario"], json.dumps(r.get("event") or r.get("invariant"))))
    if bad:
        print("VIOLATION property=%s replay=%s" % (PID, path))
    return 1 if bad else 0
