"""C14 - host filter. Spec: HostFilter.tla (independent matcher). Binding: B through the real HostFilterLayer."""
import vlib
from checks import g

PID = "C14"


def run(tier):
    rep = vlib.Report(PID, tier)
    cfg = "MC_HostFilter.cfg" if tier == "quick" else "MC_HostFilter_thorough.cfg"
    res = vlib.tlc("HostFilter", cfg, workers=8, timeout=1500, java_opts=["-Xmx8g"])
    rep.add_tlc(res, "every allow-list x every request form; matcher meta-properties (soundness, singleton completeness, star needs a label)")
    cases = res["replay"]
    if len(cases) < 400:
        raise vlib.ToolError("too few lists: %d" % len(cases))
    nreq = sum(len(c["reqs"]) for c in cases)
    vs = {tuple(sorted(r["v"])) for c in cases for r in c["reqs"]}
    if not {("pass",), ("403",), ("400",)} <= vs:
        raise vlib.ToolError("vacuity: verdict classes missing: %s" % vs)
    rows = g.replay_flow(rep, "c14", cases, k=1 if tier == "quick" else 2, timeout=3000, nontrivial=lambda c: True)
    sent = sum(r["n"] for r in rows if r.get("stat") == "requests")
    rep.cov["evaluations"] = sent
    rep.cov["traces_validated_against_impl"] = sent
    rep.cov["distinct_nontrivial"] = sum(1 for c in cases for r in c["reqs"] if r["v"] != ["pass"])
    rep.cov["exhaustive"] = True
    rep.cov["abstract_list_request_pairs"] = nreq
    rep.cov["samples"] = [{"list": c["list"], "request": c["reqs"][0]} for c in cases[:3]]
    rep.cov["rule"] = ("every allow-list of 1..MaxList entries over 6 host patterns (literals, leading / inner / trailing / bare "
                       "wildcards) x 5 port classes, against 302 request forms: 8 hosts x 4 ports x {plain Host header with the "
                       "request-target authority absent / equal / other host / other port / only in the target; userinfo, upper "
                       "case, trailing dot, zero-padded port} and 7 malformed Host headers with and without a valid target "
                       "authority; the TLA+ matcher gives the allowed verdict set (soundness for every list, completeness whenever "
                       "only one pattern matches the host); each pair goes through the real layer around a counting inner service; "
                       "non-trivial = allowed set is not {pass}")
    rep.assumptions += ["a pattern label * matches one or more labels (route-recognizer's glob)",
                        "a scheme-qualified entry with that scheme's default port is the default-port form; a bare host:80 is a fixed port",
                        "with several matching host patterns the router consults one; either verdict is accepted there"]
    return rep.finish()


def replay(path):
    return g.replay_one("c14", path)
