"""C09 - connection failure. Spec: Client.tla (shutdown hand-over). Binding: A (trace validation with injected faults) + robustness fuzz."""
import vlib
from checks import client

PID = "C09"


def run(tier):
    rep = vlib.Report(PID, tier)
    n = 300 if tier == "quick" else 4000
    client.run_client(PID, tier, rep,
        design_cfgs=[("MC_Client_shutdown.cfg", ["StStep", "RtRecv", "RtHandOver", "StCloseFront", "StHandOver", "StEnd", "WdRecv", "ManagerDrop", "FeObserve"],
                      "1 call + 1 subscription, each fault kind injected anywhere; every order of the send task, read task, watcher and front end"),
                     ("MC_Client_live.cfg", [], "liveness under weak fairness (no state constraint): tasks gone ~> every started operation finished; "
                      "a noticed fault ~> disconnected with a recorded cause")],
        asis=[("MC_Client_asis_F7.cfg", "Inv_NoPlaceholder", "front-end channel closed before the cause is recorded (F7)"),
              ("MC_Client_asis_F8.cfg", "Inv_NoPanic", "read task panics on id u64::MAX (F8)")],
        groups=["faulty", "route", "batch", "tight"], nscen=n)
    # ---- supplementary robustness run (outside the specification's alphabet): mutated / extreme / arbitrary server bytes
    import os
    fz = os.path.join(rep.wd, "fuzz.ndjson")
    nf = 1500 if tier == "quick" else 40000
    vlib.vh(["record", "clientfuzz", "x", str(nf), fz], timeout=3000)
    rows = vlib.read_ndjson(fz)
    for r in rows:
        if not r["ok"]:
            rep.mismatch(r["key"], r["detail"])
    rep.cov["fuzz_runs"] = len(rows)
    rep.cov["evaluations"] += len(rows)
    rep.cov["rule"] = ("design: Inv_NoPlaceholder / Inv_SameCause / Inv_NoPanic / Inv_DisconnectedAfterFailure over every interleaving of the "
                       "shutdown steps with a send error, receive error, peer close, unparseable text or unmatched response at every point; "
                       "conformance: seeded scenarios with a fault injected at a random step (the in-memory transport's close() takes several "
                       "scheduler turns so the hand-over window is open), every later call, every pending call, is_connected and "
                       "on_disconnect must agree with the spec's recorded cause; a timeout, a panic of a background task or a future still "
                       "pending at the end of a scenario is an unmatched event; supplementary (not decided by the specification): mutated, "
                       "truncated, duplicated and extreme server texts (ids at the u64 boundary, 5000-element arrays, deep nesting, wrong "
                       "shapes) fed to a client with a call, a batch and a subscription pending - afterwards it must be healthy or cleanly "
                       "disconnected with a cause, with no panic, stall, timeout or placeholder")
    return rep.finish()


def replay(path):
    return client.replay_client(PID, path)
