"""C07 - request-size gate. Spec: Limits.tla (Mode req). Binding: B on Server::start (loopback), TowerService, ws::connect, http::call_with_service_builder."""
import vlib
from checks import g

PID = "C07"


def run(tier):
    rep = vlib.Report(PID, tier)
    res = vlib.tlc("Limits", "MC_Limits_req.cfg", workers=2, timeout=300)
    rep.add_tlc(res, "every (entry point, transport, framing, request limit, response limit, size choice)")
    asis = vlib.tlc("Limits", "MC_Limits_asis.cfg", workers=2, timeout=120, expect_violation=True, coverage=False)
    if asis["violated"] != "Inv_ReqOutcomeIgnoresRespLimit":
        raise vlib.ToolError("as-is config did not violate Inv_ReqOutcomeIgnoresRespLimit (spec drift)")
    rep.add_tlc(asis, "as-is (ws::connect frames by the response limit): counterexample found, as expected (F6)")
    cases = res["replay"]
    if len(cases) < 1000:
        raise vlib.ToolError("too few cases: %d" % len(cases))
    if {c["expect"] for c in cases} != {"processed", "rejected"}:
        raise vlib.ToolError("vacuity: not both outcomes in the enumeration")
    g.replay_flow(rep, "c07", cases, k=1 if tier == "quick" else 3, timeout=2400,
                  nontrivial=lambda c: c["expect"] == "rejected" or c["case"]["req"] != c["case"]["resp"])
    rep.cov["exhaustive"] = True
    rep.cov["rule"] = ("all (request limit, response limit) pairs over {64,100,1000} incl. unequal ones x sizes {req-1, req, req+1, 4req, "
                       "resp-1, resp, resp+1} x entry point {Server::start over loopback TCP, TowerService, ws::connect, "
                       "http::call_with_service_builder} x transport x framing {one WS frame; HTTP with/without Content-Length in 1-3 "
                       "chunks}; the body is a valid call padded to the exact byte size; processed = the handler ran and the call was "
                       "answered, rejected = no handler ran and -32007 (WS, and a later probe is answered) / HTTP status >= 400; "
                       "non-trivial = rejected or unequal limits")
    rep.assumptions += ["an oversize chunked HTTP body may be answered 413 or 500 (the property asks for an error status)"]
    return rep.finish()


def replay(path):
    return g.replay_one("c07", path)
