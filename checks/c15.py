"""C15 - wire types. Spec: WireResp.tla (acceptance predicate over member sequences; code table). Binding: B + i32 sweep + sampled round trips."""
import vlib
from checks import g

PID = "C15"


def run(tier):
    rep = vlib.Report(PID, tier)
    r1 = vlib.tlc("WireResp", "MC_WireResp_members.cfg", workers=8, timeout=600)
    rep.add_tlc(r1, "all member sequences of length <= 5 over 9 member classes")
    r2 = vlib.tlc("WireResp", "MC_WireResp_codes.cfg", workers=2, timeout=120)
    rep.add_tlc(r2, "code table: round trips over named codes +-1 and extremes")
    asis = vlib.tlc("WireResp", "MC_WireResp_asis.cfg", workers=2, timeout=120, expect_violation=True, coverage=False)
    if asis["violated"] != "Inv_KindRoundTrip":
        raise vlib.ToolError("as-is config did not violate Inv_KindRoundTrip (spec drift)")
    rep.add_tlc(asis, "as-is (no -32009 arm): counterexample found, as expected (F11)")
    cases = r1["replay"] + r2["replay"]
    if len(cases) < 60000 or {c["accept"] for c in r1["replay"]} != {True, False}:
        raise vlib.ToolError("vacuity: member cases incomplete")
    rows = g.replay_flow(rep, "c15", cases, k=1 if tier == "quick" else 3, timeout=3000,
                         env={"VERIF_SWEEP": "stride" if tier == "quick" else "full"},
                         nontrivial=lambda c: ("members" in c and not c["accept"]) or "code" in c)
    for r in rows:
        if r.get("stat") == "sweep":
            rep.cov["codes_swept"] = r["n"]
            rep.cov["sweep_is_all_i32"] = r["full"]
            rep.cov["evaluations"] += r["n"]
        if r.get("stat") == "roundtrips":
            rep.cov["sampled_round_trips"] = r["n"]
            rep.cov["evaluations"] += r["n"]
    rep.cov["exhaustive"] = True
    rep.cov["rule"] = ("every sequence of <= 5 response members over {jsonrpc 2.0 / null / other string / non-string, id, id outside the "
                       "domain, result, error, unknown} with the TLA+ acceptance predicate as oracle (accepted objects must also carry "
                       "the sent id/payload and survive serialise-parse-serialise byte-identically); the code table over named codes +-1 "
                       "and extremes; a sweep of i32 codes against the table TLC exported (every code in thorough, stride 4099 + the "
                       "dense window -40000..-30000 in quick); seeded round trips of Id, SubscriptionId, Request, Notification, "
                       "ErrorObject, Response (sampling); non-trivial = rejected member sequence or a code case")
    rep.assumptions += ["value-level round trips are sampling, the member-sequence domain and the code table are exhaustive"]
    return rep.finish()


def replay(path):
    return g.replay_one("c15", path)
