"""C15 - wire types. Spec: WireResp.tla (acceptance predicate over member sequences; code table). Binding: B + i32 sweep + sampled round trips."""
import json
import vlib
from checks import g

PID = "C15"


def run(tier):
    rep = vlib.Report(PID, tier)
    r1 = vlib.tlc("WireResp", "MC_WireResp_members.cfg", workers=8, timeout=600)
    rep.add_tlc(r1, "all member sequences of length <= 5 over 9 member classes")
    r2 = vlib.tlc("WireResp", "MC_WireResp_codes.cfg", workers=2, timeout=120)
    rep.add_tlc(r2, "code table: round trips over named codes +-1 and extremes")
    asis = vlib.tlc("WireResp", "MC_WireResp_asis.cfg", workers=2, timeout=120, expect_violation=True, coverage=False)
    if asis["violated"] != "Inv_KindRoundTrip":
        raise vlib.ToolError("as-is config did not violate Inv_KindRoundTrip (spec drift)")
    rep.add_tlc(asis, "as-is (no -32009 arm): counterexample found, as expected (F11)")
    cases = r1["replay"] + r2["replay"]
    if len(cases) < 60000 or {c["accept"] for c in r1["replay"]} != {True, False}:
        raise vlib.ToolError("vacuity: member cases incomplete")
    rows = g.replay_flow(rep, "c15", cases, k=1 if tier == "quick" else 3, timeout=3000,
                         env={"VERIF_SWEEP": "stride" if tier == "quick" else "full"},
                         nontrivial=lambda c: ("members" in c and not c["accept"]) or "code" in c)
    for r in rows:
        if r.get("stat") == "sweep":
            rep.cov["codes_swept"] = r["n"]
            rep.cov["sweep_is_all_i32"] = r["full"]
            rep.cov["evaluations"] += r["n"]
        if r.get("stat") == "roundtrips":
            rep.cov["sampled_round_trips"] = r["n"]
            rep.cov["evaluations"] += r["n"]
    # ---- the emission clause ("every message the library emits is valid JSON-RPC 2.0") on the messages a server really emits:
    # the single-message and batch exchanges of C01 / C02 (Wire.tla), run again here and judged for one thing only - is every
    # frame / body a response object, a non-empty array of them, or a notification
    we = vlib.tlc("MC_Wire", "MC_Wire_single.cfg", workers=4, timeout=300, coverage=False)
    wb = vlib.tlc("MC_Wire", "MC_Wire_batch.cfg", workers=4, timeout=600, coverage=False)
    rep.add_tlc(we, "emission: every single message over the member-class alphabet (Wire.tla)")
    rep.add_tlc(wb, "emission: every batch of 0..MaxBatch entries x 4 batch configs (Wire.tla)")
    stride = 4 if tier == "quick" else 1
    owned = lambda key: key.startswith("emitted:") or ":malformed-reply" in key
    ce = sorted(we["replay"], key=lambda c: json.dumps(c, sort_keys=True))[::stride]
    cb = sorted(wb["replay"], key=lambda c: json.dumps(c, sort_keys=True))
    cb = [c for c in cb if c["ws"]["k"] != "array"] + [c for c in cb if c["ws"]["k"] == "array"][::stride]
    if len(ce) < 2000 or len(cb) < 1000 or not any(c["ws"]["k"] == "none" for c in cb):
        raise vlib.ToolError("vacuity: emission cases incomplete")
    g.replay_flow(rep, "c01", ce, k=1, timeout=3000, only_keys=owned)
    g.replay_flow(rep, "c02", cb, k=1, timeout=3000, only_keys=owned)
    rep.cov["emission_exchanges"] = len(ce) + len(cb)
    rep.cov["exhaustive"] = True
    rep.cov["rule"] = ("every sequence of <= 5 response members over {jsonrpc 2.0 / null / other string / non-string, id, id outside the "
                       "domain, result, error, unknown} with the TLA+ acceptance predicate as oracle (accepted objects must also carry "
                       "the sent id/payload and survive serialise-parse-serialise byte-identically); the code table over named codes +-1 "
                       "and extremes; a sweep of i32 codes against the table TLC exported (every code in thorough, stride 4099 + the "
                       "dense window -40000..-30000 in quick); seeded round trips of Id, SubscriptionId, Request, Notification, "
                       "ErrorObject, Response (sampling); emission: the single-message and batch exchanges of Wire.tla (every batch that is "
                       "answered by no array; a quarter of the rest in quick, all in thorough) sent to a real server over HTTP and WebSocket, "
                       "every frame / body judged: a response object with jsonrpc 2.0, an id and exactly one of result / error, a "
                       "non-empty array of such, or a notification; non-trivial = rejected member sequence or a code case")
    rep.assumptions += ["value-level round trips are sampling, the member-sequence domain and the code table are exhaustive"]
    return rep.finish()


def replay(path):
    d = json.load(open(path))
    if d.get("key", "").startswith("emitted:"):
        return g.replay_one("c02", path)
    if ":malformed-reply" in d.get("key", ""):
        return g.replay_one("c01", path)
    return g.replay_one("c15", path)
