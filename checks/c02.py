"""C02 - batches. Spec: Wire.tla (BatchReply). Binding: B on both transports, all WS frames up to EOF collected."""
import vlib
from checks import g

PID = "C02"


def run(tier):
    rep = vlib.Report(PID, tier)
    cfg = "MC_Wire_batch.cfg" if tier == "quick" else "MC_Wire_batch_thorough.cfg"
    res = vlib.tlc("MC_Wire", cfg, workers=4, timeout=600)
    rep.add_tlc(res, "every batch of 0..MaxBatch entries over 11 entry classes x 4 batch configs")
    cases = res["replay"]
    if len(cases) < 5000:
        raise vlib.ToolError("too few cases emitted: %d" % len(cases))
    kinds = {c["ws"]["k"] for c in cases}
    if kinds != {"single", "none", "array"}:
        raise vlib.ToolError("vacuity: batch reply kinds missing: %s" % kinds)
    g.replay_flow(rep, "c02", cases, k=1 if tier == "quick" else 2, timeout=3000,
                  nontrivial=lambda c: c["ws"]["k"] != "array" or any(e not in ("callOk",) for e in c["case"]["entries"]))
    rep.cov["exhaustive"] = True
    rep.cov["rule"] = ("TLC enumerates every entry-class sequence of length 0..MaxBatch over {valid call, unknown method, bad params, "
                       "notification, notification-by-bad-id, invalid with/without id, non-object, duplicate id, subscribe call, "
                       "unsubscribe call} x {Disabled, Limit(1), Limit(2), Unlimited}; each is concretised and sent over HTTP and on "
                       "its own WebSocket connection followed by a probe; ALL frames up to EOF are collected; the array's elements "
                       "are matched as a multiset against the per-entry expectation, each valid call entry is also sent alone and "
                       "its reply must equal the element, the handler log must equal the executed entries; non-trivial = anything "
                       "but an all-valid-calls batch")
    rep.assumptions += ["element order inside the reply array is not demanded (the property does not)",
                        "response-size limit far above any reply (the -32011 interaction is C08's)"]
    return rep.finish()


def replay(path):
    return g.replay_one("c02", path)
