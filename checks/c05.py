"""C05 - client subscription streams. Spec: Client.tla (streams, lag, close, unsubscribe). Binding: A (trace validation)."""
import vlib
from checks import client

PID = "C05"


def run(tier):
    rep = vlib.Report(PID, tier)
    n = 300 if tier == "quick" else 4000
    client.run_client(PID, tier, rep,
        design_cfgs=[("MC_Client_stream.cfg", ["SubNext", "SubEnd", "SubUnsubStart", "SubUnsubEnqueue", "SubDrop", "RtRecv", "RtForward", "StStep"],
                      "one subscription, buffer 1, pushes singly and in arrays (notifications, closes), consumer next / unsubscribe / drop at every position")],
        asis=[("MC_Client_asis_F3.cfg", "Inv_EndsOnClose", "a close notification inside an array is ignored (F3)")],
        groups=["stream", "mixed", "tight"], nscen=n)
    rep.cov["rule"] = ("design: all interleavings of peer pushes (every grouping into singles / arrays of <= 2), the read task, the send task and the "
                       "consumer for one subscription with buffer 1; conformance: seeded scenarios with two subscriptions (numeric and string "
                       "ids), notifications for live / closed / unknown ids, close notifications, method notifications, arrays, next / "
                       "unsubscribe / drop anywhere, buffer 1..2: every yielded item must be the head of the spec's stream buffer, the end "
                       "and its lagged flag must agree, and every unsubscribe request on the wire must be the one the spec sends "
                       "(exactly one per explicit unsubscribe or lag closure, at most one per drop)")
    return rep.finish()


def replay(path):
    return client.replay_client(PID, path)
