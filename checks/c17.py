"""C17 - generated APIs: client stub calls reach the server method with equal arguments.

Spec: RpcMacro.tla.  Binding: B - every call TLC enumerates is replayed through the real `#[rpc(server, client)]`
expansion: the shape list of the TLC run is turned into harness/apis/src/generated.rs (one trait per shape, compiled
with the proc-macro of the tree under test) and each call goes through a loop-back async Client into the merged
RpcModule; the server impls record what they were called with."""
import json, os
import vlib
import gen_c17_apis as gen
from checks import g

PID = "C17"
QUICK_VARIANTS = {"stub", "rawPosTailOmitted", "rawPosNulls", "rawNamedOmit", "rawNamedAlias", "missingRequired"}
KINDS = {"sync", "async", "blocking", "sub", "alias"}


def _seq(x):
    """ToJson prints an empty sequence that went through a function constructor as {}"""
    return [] if x in ({}, None) else x


def _normalise(c):
    for f in ("flags", "pres", "args"):
        c[f] = _seq(c.get(f))
    c["wire"]["toks"] = _seq(c["wire"].get("toks"))
    c["wire"]["members"] = _seq(c["wire"].get("members"))
    c["id"] = gen.shape_id(c["flags"], c["pk"], c["ns"])
    return c


def run(tier):
    rep = vlib.Report(PID, tier)
    cfg = "MC_RpcMacro.cfg" if tier == "quick" else "MC_RpcMacro_thorough.cfg"
    res = vlib.tlc("MC_RpcMacro", cfg, workers=8, timeout=300)
    rep.add_tlc(res, "design: every call of the family (shape x handler kind x presence vector x encoding variant) through "
                     "Encode and Decode; Inv_ArgsEqual, Inv_MissingRequiredIsError, Inv_SameHandlerUnderAliasAndNamespace")
    z = vlib.zero_coverage(res, ["Encode", "Decode"])
    if z:
        raise vlib.ToolError("vacuity: actions never taken: %s" % z)
    cases = [_normalise(c) for c in res["replay"]]

    # ---- vacuity guards: the whole family, every kind, every variant, both outcomes
    shapes = sorted({(tuple(c["flags"]), c["pk"], c["ns"]) for c in cases})
    if set(shapes) != set(gen.all_shapes()):
        raise vlib.ToolError("TLC emitted %d shapes, the family has %d" % (len(shapes), len(gen.all_shapes())))
    kinds = {c["kind"] for c in cases}
    variants = {c["variant"] for c in cases}
    if kinds != KINDS:
        raise vlib.ToolError("vacuity: handler kinds seen %s" % sorted(kinds))
    if not QUICK_VARIANTS <= variants:
        raise vlib.ToolError("vacuity: variants seen %s" % sorted(variants))
    for kd in KINDS:
        for v in variants:
            if not any(c["kind"] == kd and c["variant"] == v for c in cases):
                raise vlib.ToolError("vacuity: no call with kind %s and variant %s" % (kd, v))
    n_err = sum(1 for c in cases if not c["ok"])
    if n_err == 0 or any((not c["ok"]) != (c["variant"] == "missingRequired") for c in cases):
        raise vlib.ToolError("expected outcomes do not line up with the variants (%d error cases)" % n_err)
    if len(cases) < 20000:
        raise vlib.ToolError("too few cases emitted: %d" % len(cases))

    # ---- the list of distinct shapes (kept next to the cases for inspection)
    json.dump([{"id": gen.shape_id(*s), "flags": list(s[0]), "pk": s[1], "ns": s[2]} for s in shapes],
              open(os.path.join(rep.wd, "shapes-c17.json"), "w"), indent=0)

    # ---- the program family: regenerate only when the enumeration changed (keeps the build incremental)
    out = os.path.join(vlib.HARNESS, "apis", "src", "generated.rs")
    if gen.write_if_changed(shapes, out):
        vlib.log("[c17] regenerated %s for %d shapes" % (out, len(shapes)))

    k = 1 if tier == "quick" else 10

    def nontrivial(c):   # at least one Option slot is None, or the call must be refused
        return (not c["ok"]) or "none" in c["pres"]
    rows = g.replay_flow(rep, "c17", cases, k=k, nontrivial=nontrivial, timeout=1500)
    rep.cov["evaluations"] = len([r for r in rows if "ok" in r])
    rep.cov["exhaustive"] = True
    rep.cov["shapes"] = len(shapes)
    rep.cov["rule"] = ("TLC enumerates every call of the family: 31 flag vectors (0..4 params, each required or Option) x param_kind "
                       "{array, map} x namespace {none, ns_, ns.} = 186 shapes + 31 by-name shapes with odd parameter names (_limit, type_, chainID, rename = block-hash) = 217, x handler kind {sync, async, blocking, subscription, "
                       "alias} x every presence vector of the Option slots x encoding variant {generated stub, raw positional with "
                       "the none tail dropped, raw positional with nulls, raw by-name omitting none, raw by-name under the other-case "
                       "spelling, positional cut before the last required slot (thorough: + by-name with nulls, by-name reversed)}. "
                       "The 217 shapes are generated as #[rpc(server, client)] traits and compiled with the tree's proc-macro; each "
                       "call is made k times with seeded values (u64/i64 boundaries, Unicode strings, nested struct + enum, empty and "
                       "300-element vectors; one call in four carries the marker that makes the server return an error object) "
                       "through a loop-back async Client. Compared: exactly one invocation, of the handler the spec resolves the name "
                       "to, with JSON-equal arguments; the Echo value / first subscription item / error object (code, message, data) "
                       "received by the client; -32602 and no invocation where a required argument is missing; for the stub the shape "
                       "of the params text on the wire. non-trivial = a call with at least one None argument or an expected refusal")
    rep.assumptions += ["argument values are sampled (seeded generators per slot type), not enumerated: value equality is checked per sample",
                        "the family covers non-generic traits with owned argument types; generics, lifetimes / borrowed arguments, custom "
                        "client_bounds / server_bounds and #[argument(rename)] are outside it",
                        "map-typed arguments are not among the four slot types",
                        "transport is an in-memory loop-back (Methods::raw_json_request behind the async client); ws / http framing is covered by C01/C19"]
    return rep.finish()


def replay(path):
    return g.replay_one("c17", path)
