"""X02 (beyond the listed properties) - the shipped HTTP layers (ProxyGetRequest, HostFilter) in front of the service, the server's
dispatch by upgrade headers and mode. Spec: HttpStack.tla. Binding: every (mode, layer configuration, request) triple replayed
through the real layers around the real TowerService.  Kept apart from C19: it models the tree exactly (for instance the status of
a handshake the server cannot accept), which is more than C19's statement says."""
import vlib
from checks import g

PID = "X02"


def run(tier):
    rep = vlib.Report(PID, tier)
    r3 = vlib.tlc("HttpStack", "MC_HttpStack.cfg", workers=4, timeout=300)
    rep.add_tlc(r3, "the shipped HTTP layers in front of the service (ProxyGetRequest, HostFilter; absent / present, either order) and the "
                    "server's dispatch by upgrade headers and mode (both / http_only / ws_only): "
                    "one action per layer inwards and outwards; Inv_OnlyJsonPostReachesRpc, Inv_ProxyCallsMapped, "
                    "Inv_RefusedRunsNothing, Inv_ModeRespected, Inv_FilterAlwaysDecides, Inv_ProxiedAnswerIsBare, Inv_UnproxiedAnswerUntouched")
    if vlib.zero_coverage(r3, ["ProxyIn", "FilterIn", "Gate", "Rpc", "PassOut", "Deliver"]):
        raise vlib.ToolError("vacuity: a layer action of HttpStack was never taken")
    if len(r3["replay"]) < 29000:
        raise vlib.ToolError("too few stack cases: %d" % len(r3["replay"]))
    g.replay_flow(rep, "c19", r3["replay"], k=1 if tier == "quick" else 3, timeout=1800,
                  nontrivial=lambda c: c["proxied"] or c["ans"]["k"] in ("text", "upgrade"))
    rep.cov["exhaustive"] = True
    rep.cov["rule"] = ("every request of 4 methods x 15 path classes (10 registered paths by the kind of answer of the mapped method, query / "
                       "trailing-slash / letter-case spellings, unregistered, root) x 3 hosts x 3 content types x 3 bodies, and the same as a "
                       "WebSocket handshake (complete / without a key), against each of the 5 layer configurations x 3 server modes (both, "
                       "http_only, ws_only), through the real ProxyGetRequestLayer / HostFilterLayer / TowerService: status, kind and content "
                       "of the answer (bare result value, bare error object with code and data, JSON-RPC envelope, refusal, 101) and the exact "
                       "handler log; non-trivial = refused, upgraded or rewritten by the proxy")
    return rep.finish()


def replay(path):
    return g.replay_one("c19", path)
