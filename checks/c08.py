"""C08 - response-size limit. Spec: Limits.tla (single / batch writer state machines). Binding: B, byte lengths measured on the wire."""
import vlib
from checks import g

PID = "C08"


def run(tier):
    rep = vlib.Report(PID, tier)
    r1 = vlib.tlc("Limits", "MC_Limits_single.cfg", workers=2, timeout=300)
    rep.add_tlc(r1, "single responses: limits x total length M-2..M+2 x id width x content x result/error-with-data")
    r2 = vlib.tlc("Limits", "MC_Limits_batch.cfg" if tier == "quick" else "MC_Limits_batch_thorough.cfg", workers=2, timeout=600)
    rep.add_tlc(r2, "batch builder state machine: boundary-relative entry lengths at every position")
    if {c["expect"] for c in r2["replay"]} != {"unchanged", "e32011"} or max(len(c["lens"]) for c in r2["replay"]) < 3:
        raise vlib.ToolError("vacuity: batch builder cases incomplete")
    cases = r1["replay"] + r2["replay"]
    outcomes = {c["expect"] for c in cases}
    if outcomes != {"unchanged", "e32008", "e32011"}:
        raise vlib.ToolError("vacuity: outcomes missing: %s" % outcomes)
    g.replay_flow(rep, "c08", cases, k=1 if tier == "quick" else 3, timeout=2400,
                  nontrivial=lambda c: c["expect"] != "unchanged" or c["total"] == c["case"]["m"])
    rep.cov["exhaustive"] = True
    rep.cov["rule"] = ("single: limits {100,200,1024} x serialised response length limit-2..limit+2 x id width {1 digit, 20 digits, "
                       "escaped string} x payload {ascii, needs escaping, multi-byte} x {result, error with data}; batch: every "
                       "sequence of <= MaxEntries entry-response lengths chosen relative to the remaining room (room-1, room, room+1, "
                       "room+2, small) so the running total crosses the limit at every position; the harness builds payloads of exactly "
                       "these lengths, runs HTTP and WS, and checks the byte length of every frame, the outcome class, the id and that "
                       "a fitting reply is byte-for-byte the expected length and value; non-trivial = replaced by an error or exactly "
                       "at the limit")
    rep.assumptions += ["fixed library errors (-32601 etc.) are not size-bounded by design and are outside this alphabet",
                        "request limit set far above every request (independence from the request limit is C07's grid)"]
    return rep.finish()


def replay(path):
    return g.replay_one("c08", path)
