"""C03 - call routing. Spec: Client.tla. Binding: A (trace validation of seeded scenarios against the real async client)."""
import vlib
from checks import client

PID = "C03"


def run(tier):
    rep = vlib.Report(PID, tier)
    n = 250 if tier == "quick" else 3000
    client.run_client(PID, tier, rep,
        design_cfgs=[("MC_Client_route.cfg", ["FeAlloc", "FeEnqueue", "FeObserve", "StStep", "RtRecv"],
                      "3 concurrent calls; the peer answers seen and foreign ids in any order with duplicates and omissions; all interleavings")],
        asis=[("MC_Client_asis_F10.cfg", "Inv_IdsUnique", "batch ids overlap later ids when the counter advances by one (F10)")],
        groups=["route", "mixed", "batch"], nscen=n)
    rep.cov["rule"] = ("design: every interleaving of front ends, send task, read task and an adversarial peer for 3 calls / 4 peer texts; "
                       "conformance: seeded random scenarios (calls, subscribes, batches; peer answers to seen / foreign / repeated ids, "
                       "numeric and string ids, singly and in arrays; faults) recorded from the real client and validated event by event: "
                       "each completion must carry the token of a consumed text whose id is the id that operation put on the wire; "
                       "non-trivial = scenario contains a fault, an array, a close or a stream operation")
    return rep.finish()


def replay(path):
    return client.replay_client(PID, path)
