"""C03 - call routing. Specs: Client.tla (async client; binding A: trace validation of seeded scenarios), HttpClient.tla (HTTP client; binding B: replay)."""
import vlib
from checks import client

PID = "C03"


def run(tier):
    rep = vlib.Report(PID, tier)
    n = 250 if tier == "quick" else 3000
    client.run_client(PID, tier, rep,
        design_cfgs=[("MC_Client_route.cfg", ["FeAlloc", "FeEnqueue", "FeObserve", "StStep", "RtRecv"],
                      "3 concurrent calls; the peer answers seen and foreign ids in any order with duplicates and omissions; all interleavings")],
        asis=[("MC_Client_asis_F10.cfg", "Inv_IdsUnique", "batch ids overlap later ids when the counter advances by one (F10)")],
        groups=["route", "mixed", "batch"], nscen=n)
    # ---- the HTTP client (HttpClient.tla): every sequence of calls / notifications x reply classes, replayed against a scripted
    # tower service that sees each request and answers it
    from checks import g
    rh = vlib.tlc("HttpClient", "MC_HttpClient.cfg" if tier == "quick" else "MC_HttpClient_thorough.cfg", workers=4, timeout=600)
    rep.add_tlc(rh, "HTTP client: every sequence of <= %d calls / notifications x 18 reply classes; Inv_OkOnlyForOwnId, "
                    "Inv_OutcomeAllowed, Inv_IdsDistinct, Inv_ErrorObjectDelivered" % (2 if tier == "quick" else 3))
    if len(rh["replay"]) < 1300 or vlib.zero_coverage(rh, ["Call", "Finish"]):
        raise vlib.ToolError("vacuity: HTTP client enumeration incomplete")
    rows = g.replay_flow(rep, "c03http", rh["replay"], timeout=1800,
                         nontrivial=lambda c: any(x["reply"] != "okOwn" for x in c["calls"]))
    rep.cov["http_client_outcomes_differing_from_model_but_acceptable"] = sum(r["n"] for r in rows if r.get("stat") == "model_drift")
    rep.cov["rule"] = ("design: every interleaving of front ends, send task, read task and an adversarial peer for 3 calls / 4 peer texts; "
                       "conformance: seeded random scenarios (calls, subscribes, batches; peer answers to seen / foreign / repeated ids, "
                       "numeric and string ids, singly and in arrays; faults) recorded from the real client and validated event by event: "
                       "each completion must carry the token of a consumed text whose id is the id that operation put on the wire; "
                       "HTTP client: every sequence of calls / notifications (2 in quick, 3 in thorough) x 18 reply classes (own / next / previous / null / "
                       "other-typed id, undecodable result, error objects, both / neither member, not JSON, empty, an array, non-2xx, oversize) "
                       "replayed through the real HttpClient over a scripted service: one request per call with the next id in the "
                       "configured kind, `Ok` only for the own id's result and with that value, an error object delivered unaltered, "
                       "anything else an error of the client; "
                       "non-trivial = scenario contains a fault, an array, a close or a stream operation (HTTP: a reply other than the plain answer)")
    return rep.finish()


def replay(path):
    import json
    if json.load(open(path)).get("key", "").startswith("http-client:"):
        from checks import g
        return g.replay_one("c03http", path)
    return client.replay_client(PID, path)
