"""C06 - server subscription bookkeeping. Spec: ServerSubs.tla. Binding: B, driver-serialised behaviours on the real server."""
import vlib
from checks import g

PID = "C06"


def run(tier):
    rep = vlib.Report(PID, tier)
    cfg = "MC_ServerSubs_book.cfg" if tier == "quick" else "MC_ServerSubs_book_thorough.cfg"
    res = vlib.tlc("MC_ServerSubs", cfg, workers=4, timeout=1500)
    rep.add_tlc(res, "permits / subscriber table / sinks over every call sequence; Inv_Cap, Inv_PermitConservation, Inv_TableExact")
    for dev, inv in (("F4", "Inv_TableExact"),):
        a = vlib.tlc("MC_ServerSubs", "MC_ServerSubs_asis_%s.cfg" % dev, workers=2, timeout=300, expect_violation=True, coverage=False)
        if a["violated"] != inv:
            raise vlib.ToolError("as-is %s did not violate %s" % (dev, inv))
        rep.add_tlc(a, "as-is %s: counterexample to %s found, as expected" % (dev, inv))
    cases = res["replay"]
    ops = {(c["path"][-1]["op"]["o"], c["path"][-1]["res"]) for c in cases}
    need = {("subscribe", "started"), ("subscribe", "e32006"), ("accept", "ok"), ("accept", "err"), ("reject", "ok"), ("dropPending", "ok"),
            ("clone", "ok"), ("dropSink", "ok"), ("panic", "ok"), ("unsub", "true"), ("unsub", "false"), ("return", "ok"), ("connClose", "ok")}
    if need - ops:
        raise vlib.ToolError("vacuity: transitions never enumerated: %s" % (need - ops))
    g.replay_flow(rep, "c06", cases, timeout=3000,
                  nontrivial=lambda c: c["path"][-1]["res"] in ("e32006", "false", "err") or c["path"][-1]["op"]["o"] in ("unsub", "connClose", "dropSink", "return", "panic"))
    rep.cov["exhaustive"] = True
    rep.cov["rule"] = ("one case per transition of ServerSubs.tla's bounded state graph: the shortest sequence of driver calls reaching the "
                       "pre-state (subscribe, accept, reject, drop-pending, clone / drop a sink, unsubscribe from either connection with a "
                       "live / stale / never-issued id, handler return with or without a closing value, connection close) plus one more "
                       "call, for caps 0..2, two connections; replayed on the real server over in-process WebSocket connections with "
                       "scripted handlers, one acknowledged step at a time; every step's output (started / -32006, accept ok / err, "
                       "unsubscribe true / false) must equal the spec's, and at the end is_closed of every live sink and the "
                       "admission of a probe subscription on every open connection must match the spec's permits")
    rep.assumptions += ["the driver serialises the system (one acknowledged step at a time); concurrent schedules are C04's trace validation",
                        "the window between accept()'s response and its table insert (F5) is not reachable without a scheduling hook"]
    return rep.finish()


def replay(path):
    return g.replay_one("c06", path)
