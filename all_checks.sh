#!/bin/bash
# run every check of one tier on the current /repo tree, one summary line each (evidence is rewritten by each run)
tier=${1:-quick}
cd "$(dirname "$0")"
rc=0
for i in $(seq -w 1 20); do
  out=$(./check C$i --tier $tier 2>&1); r=$?
  echo "$out" | grep -E "^C$i $tier:|VIOLATION|KNOWN-FINDING|TOOL" | cut -c1-220
  [ $r -ne 0 ] && { rc=$r; echo "C$i exit $r"; echo "$out" | tail -5 | cut -c1-400; }
done
# beyond the listed properties (evidence-extras/): spec modules with their own replay
for x in X01 X02; do
  out=$(./check $x --tier $tier 2>&1); r=$?
  echo "$out" | grep -E "^$x $tier:|VIOLATION|KNOWN-FINDING|TOOL" | cut -c1-220
  [ $r -ne 0 ] && { rc=$r; echo "$x exit $r"; echo "$out" | tail -5 | cut -c1-400; }
done
exit $rc
