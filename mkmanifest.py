#!/usr/bin/env python3
"""Regenerates MANIFEST.json from the table below (kept in one place so it is always valid)."""
import json, os, subprocess
ROOT = os.path.dirname(os.path.abspath(__file__))
ALL = ["C%02d" % i for i in range(1, 21)]
CHECKS = {
 "C03": dict(engine="tlc+tlc-trace", technique="explicit TLA+ model of the async client (Client.tla) model-checked by TLC over all interleavings; recorded executions of the real client validated against it (trace validation, impl->spec)",
             text="Client.tla models front-end futures, the front->back queue, send task, read task, the request manager tables, streams and the shutdown hand-over, with an adversarial peer; TLC checks routing / unique-wire-id invariants over every interleaving of the bounded config, the as-is config shows that ids overlap without range reservation (F10); seeded scenarios are run against the real client over an in-memory transport and every recorded trace must be a behaviour of the spec with all invariants holding at each step (a completion must carry the token of a consumed text with the operation's own id).",
             note="TLC exhausts the model's interleavings for small constants; the real tokio schedules are sampled (seeded yields on a current_thread runtime), numeric and string ids", ref="5 (C03)"),
 "C17": dict(engine="tlc+vh-replay", technique="TLA+ model of the generated-stub parameter convention (RpcMacro.tla: Encode -> wire -> Decode) enumerated by TLC; API family generated from the enumerated shapes and expanded by the real proc-macro; every call replayed over a loop-back client",
             text="RpcMacro.tla enumerates every method shape (0..4 required/optional slots x array/map x namespace form) and every call on it (handler kind, presence vector, encoding variant incl. raw positional with omitted tail / nulls, raw named with omitted optionals / other-case aliases, missing required) with invariants ArgsEqual / MissingRequiredIsError / SameHandlerUnderAliasAndNamespace; 186 #[rpc(server, client)] traits are generated from that enumeration and compiled with the tree's proc-macro; each of the 20850 calls is replayed through a real async client looped back into the generated RpcModule, comparing recorded server arguments, returned value / error object and the params shape on the wire.",
             note="argument values are seeded samples (boundary integers, Unicode strings, nested struct/enum, vectors); generics, lifetimes and custom bounds are outside the family", ref="5 (C17)"),
 "C15": dict(engine="tlc+vh-replay", technique="TLA+ acceptance predicate over response member sequences and error-code table (WireResp.tla) enumerated / checked by TLC; replayed into the real parser; i32 sweep against the exported table; sampled value round trips",
             text="WireResp.tla states when a response object is accepted (as a predicate over member sequences, so order and duplication are covered) and the code<->kind table with its round-trip invariants (as-is config documents F11); TLC enumerates all 66430 member sequences and the probe codes; each is replayed into serde_json::from_str::<Response<_>> / ErrorCode; the harness additionally sweeps i32 codes against the table TLC exported and round-trips seeded values of every public wire type.",
             note="member classes exhaustive; concrete values, ids and payloads are seeded samples; full 2^32 sweep only in the thorough tier", ref="5 (C15)"),
 "C14": dict(engine="tlc+vh-replay", technique="independent matcher written in TLA+ (HostFilter.tla) enumerated by TLC over all bounded allow-lists x request forms; differential replay through the real HostFilterLayer",
             text="HostFilter.tla defines label-sequence matching with one-or-more-label wildcards, port classes, authority determination from Host header and request target, and the allowed verdict set (soundness for every list, completeness where one pattern matches); TLC checks the matcher's own meta-properties and emits ~140k (list, request) pairs which are sent through the real layer around a counting inner service.",
             note="hosts/patterns over 3 labels; entries and requests spelled in several concrete ways (schemes with default ports, userinfo, case, trailing dot, zero-padded ports, malformed headers)", ref="5 (C14)"),
 "C07": dict(engine="tlc+vh-replay", technique="TLA+ spec Limits.tla (request gate as a function of size and request limit only) enumerated by TLC; every case replayed on four entry points incl. Server::start over loopback TCP",
             text="Limits.tla states Outcome = (size <= max_request_body_size) with the response limit absent from the right-hand side and TLC checks the effective per-entry-point limit against it (as-is config documents F6); all grid cases (unequal limit pairs, boundary sizes, framings) are replayed on Server::start, TowerService, ws::connect and http::call_with_service_builder with bodies padded to the exact byte size; handler log, rejection form and WebSocket liveness are compared.",
             note="grid {64,100,1000}^2 and 7 boundary sizes; HTTP rejection may be 413 or 500", ref="5 (C07)"),
 "C08": dict(engine="tlc+vh-replay", technique="TLA+ state machines of the bounded response writer and the batch response builder (Limits.tla) model-checked by TLC; lengths replayed exactly into the real server and measured on the wire",
             text="The single-response writer and the batch builder are modelled on integers (one Append action per entry, boundary-relative lengths at every position); TLC checks no-oversize-on-wire and fits-iff-sent-unchanged; the harness builds payloads whose serialised responses have exactly the enumerated lengths, sends them over HTTP and WS and checks every frame's byte length, outcome class, id and content.",
             note="limits {100,200,1024}; fixed library errors are not size-bounded by design and lie outside the alphabet", ref="5 (C08)"),
 "C19": dict(engine="tlc+vh-replay", technique="TLA+ spec HttpGate.tla: gate table + body-reader state machine (one action per body frame) model-checked by TLC; every framing replayed through the tower service with explicit frames, differential against the one-chunk exchange",
             text="HttpGate.tla states the method/content-type gate and models the body reader frame by frame with the invariant that the sniffing verdict is a function of the concatenation; TLC enumerates every gate pair and every framing (cut subsets, blank/empty frame insertions, Content-Length on/off) of six bodies; each is replayed into the real tower service and compared with the one-chunk exchange of the same bytes and with the spec's answer class; the as-is config documents F14.",
             note="cut offsets and blank bytes are seeded; JSON content types with foreign parameters may go either way", ref="5 (C19)"),
 "C01": dict(engine="tlc+vh-replay", technique="TLA+ transcription of the message classifier (Wire.tla) enumerated exhaustively by TLC over a member-class alphabet; every case concretised and replayed over HTTP and WebSocket into the real server",
             text="Wire.tla transcribes the three-stage classification (call / notification / id recovery) and the reply owed per transport; TLC checks the property's own sentences as meta-invariants over all 8408 abstract texts and emits the expected reply of each; the harness concretises every case (seeded values, member order, whitespace, truncation) and compares reply count, well-formedness, id identity, code / handler result, handler log, HTTP=WS agreement and connection liveness on the real server.",
             note="abstract classes exhaustive; concrete bytes seeded samples; duplicate member names and >127 bytes of leading whitespace outside the alphabet; in-process rigs (tower service, duplex WebSocket)", ref="5 (C01)"),
 "C02": dict(engine="tlc+vh-replay", technique="TLA+ BatchReply operator (Wire.tla) enumerated by TLC over all entry-class sequences x batch configs; replayed on both transports with all frames to EOF collected and per-entry differential against single calls",
             text="TLC enumerates every batch of 0..3 (thorough 4) entries over 11 entry classes under 4 batch configurations with the expected reply shape; the harness sends each on HTTP and on its own WebSocket connection, collects every frame up to EOF after a graceful per-connection stop, matches array elements as a multiset, compares each call entry with its stand-alone reply and the handler log with the executed entries.",
             note="element order free; array-form (positional) entries outside the alphabet; F2 recorded as known finding", ref="5 (C02)"),
 "C13": dict(engine="tlc+vh-replay", technique="TLA+ spec Registry.tla; TLC state graph, every transition replayed on real RpcModule values with full state projection after each call",
             text="Registry.tla models a module as a name->handler-tag map with register/alias/merge/remove/clone; TLC checks atomicity of failed calls, exact additions and clone isolation on the model and emits one case per transition of the bounded state graph; each is replayed on real RpcModules comparing Result class, method_names() and the dispatch outcome of every name on every module value after every call.",
             note="names {a,b,c}, 3 module slots, call sequences up to MaxDepth+1; sync/async/blocking rotated by the harness", ref="5 (C13)"),
 "C16": dict(engine="tlc+vh-replay", technique="TLA+ spec ParamsSeq.tla (cursor state machine); TLC enumerates every (array shape, cursor position, typed read, second read) case; replayed into Params/ParamsSequence and compared with a plain serde_json parse",
             text="ParamsSeq.tla states the reader's result for every typed read at every cursor position (element / -32602 / absent, poisoning after a failure); TLC enumerates the bounded case space exhaustively and every case is run against the real reader under four whitespace patterns, comparing each returned element with the element of a plain JSON parse at that index.",
             note="element classes and Rust target types are abstract classes; concrete texts are seeded samples incl. delimiters inside strings, escapes, nested containers", ref="5 (C16)"),
 "C20": dict(engine="tlc+vh-replay", technique="TLA+ spec ParamsBuilder.tla exhaustively enumerated by TLC; every behaviour replayed into the real builders (spec->impl conformance)",
             text="TLC enumerates every bounded insert/failing-insert/build behaviour of ParamsBuilder.tla (design invariants: build never panics, build = successfully inserted values, empty = no params) and each behaviour is replayed against ArrayParams/ObjectParams/BatchRequestBuilder/ToRpcParams impls of the current tree with seeded concrete values; the as-is config documents finding F15.",
             note="abstract behaviours exhaustive up to MaxOps; concrete values are seeded samples; serde_json is the reference parser", ref="5 (C20)"),
}
NA_REASON = "check not built yet in this round (planned, see DESIGN.md section 5); not claimed until its machinery exists"
def main():
    hook_commits = []
    m = {
     "version": 1,
     "setup_cmd": "cd /verif/harness && ( [ -f Cargo.lock ] || cp /repo/Cargo.lock . ) && CARGO_NET_OFFLINE=true cargo build --offline --bins 2>&1 | tail -3 && cd /verif/spec && for f in *.tla; do tla-sany $f > /dev/null || exit 1; done",
     "hooks": {"guard": "jsonrpsee_verif", "enable": "RUSTFLAGS --cfg jsonrpsee_verif via /verif/harness/.cargo/config.toml (the harness crate has path dependencies on /repo)",
               "baseline_off_cmd": "cd /repo && cargo nextest run --workspace --no-fail-fast --test-threads 8 --offline || cargo test --workspace --no-fail-fast --offline",
               "source_commits": hook_commits, "add_only": True},
     "engines": [
       {"name": "tlc-design", "path": "spec/MC_*.cfg", "kind_free_text": "TLC exhaustive model checking of the bounded design configs; emits cases/behaviours as REPLAY lines"},
       {"name": "tlc-trace", "path": "spec/Trace_*.tla", "kind_free_text": "TLC trace validation of ndjson traces recorded from the real code"},
       {"name": "vh", "path": "harness/", "kind_free_text": "Rust conformance harness: replays TLC cases into /repo code, records traces of /repo code"}],
     "checks": [], "not_applicable": [],
     "notes": "All checks: ./check Cxx --tier quick|thorough. Exit 0 held / 1 VIOLATION / 2 tool error. See DESIGN.md."}
    for pid in ALL:
        if pid in CHECKS:
            c = CHECKS[pid]
            m["checks"].append({"property_id": pid, "quick_cmd": "./check %s --tier quick" % pid,
              "thorough_cmd": "./check %s --tier thorough" % pid, "evidence_file": "evidence/%s.json" % pid,
              "replay_cmd_template": "./check %s --replay {path}" % pid, "engine": c["engine"],
              "level_claimed": {"category": "model_checking", "text": c["text"], "design_ref": c["ref"]},
              "level_note": c["note"], "technique": c["technique"]})
        else:
            m["not_applicable"].append({"property_id": pid, "reason": NA_REASON})
    for e in m["engines"]:
        e["serves_properties"] = sorted(CHECKS)
    json.dump(m, open(os.path.join(ROOT, "MANIFEST.json"), "w"), indent=1)
main()
