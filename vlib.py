"""Shared machinery for ./check: TLC runs, harness build/run, evidence, known findings.

Exit code contract (DESIGN 2.1): 0 held; 1 VIOLATION line + replay file; 2 tool error / timeout / vacuity.
"""
import json, os, re, shutil, subprocess, sys, time, hashlib

ROOT = os.path.dirname(os.path.abspath(__file__))
SPEC = os.path.join(ROOT, "spec")
WORK = os.path.join(ROOT, "work")
HARNESS = os.path.join(ROOT, "harness")
EVID = os.path.join(ROOT, "evidence")
JAR = "/opt/veriftools/tla/tla2tools.jar"
CM = None


class ToolError(Exception):
    pass


class Died(Exception):
    """the harness process was killed by a signal while it ran code under test (abort after a failed allocation, SIGSEGV,
    SIGKILL): an observation about the code under test, reported as a violation with what is known about the run"""
    def __init__(self, what, detail):
        super().__init__(what)
        self.what, self.detail = what, detail


def _limits():
    # code under test must not be able to take the machine down with it: 16 GB of address space for the harness process
    import resource
    resource.setrlimit(resource.RLIMIT_AS, (16 << 30, 16 << 30))


def log(*a):
    print(*a, file=sys.stderr, flush=True)


def seed():
    try:
        return int(os.environ.get("VERIF_SEED", "1"))
    except ValueError:
        return 1


def workdir(pid):
    d = os.path.join(WORK, pid)
    os.makedirs(d, exist_ok=True)
    return d


# ----------------------------------------------------------------------------------------------- TLC

_STATS = re.compile(r"(\d+) states generated, (\d+) distinct states found, (\d+) states left on queue")
_DEPTH = re.compile(r"The depth of the complete state graph search is (\d+)")
_COV = re.compile(r"^<(\w+) line (\d+), col \d+ to line \d+, col \d+ of module (\w+)(?: \([\d ]+\))?>: (\d+):(\d+)")
_INVVIOL = re.compile(r"Error: Invariant (\w+) is violated")
_ACTVIOL = re.compile(r"Error: Action property (\w+) is violated")
_TMPVIOL = re.compile(r"Error: Temporal property (\w+) was violated")


def _java_classpath():
    # the `tlc` wrapper on PATH already has CommunityModules on the classpath; we call it.
    return None


def tlc(module, cfg, *, workers=8, timeout=300, env=None, simulate=None, depth=None, tag=None,
        coverage=True, java_opts=None, expect_violation=False, dfs=False, extra=None):
    """Run TLC on spec/<module>.tla with spec/<cfg>. Returns a dict with stats, coverage, replay lines.

    Raises ToolError on timeout / parse errors / unexpected TLC errors (never reported as violation)."""
    tag = tag or (cfg.replace(".cfg", ""))
    md = os.path.join(WORK, "tlc-" + tag + "-" + str(os.getpid()))
    shutil.rmtree(md, ignore_errors=True)
    os.makedirs(md, exist_ok=True)
    cmd = ["timeout", str(timeout), "tlc", "-workers", str(workers), "-metadir", md, "-cleanup",
           "-noGenerateSpecTE", "-config", cfg]
    if coverage:
        cmd += ["-coverage", "1"]
    if simulate:
        cmd += ["-simulate", "num=%d" % simulate]
        if depth:
            cmd += ["-depth", str(depth)]
        cmd += ["-seed", str(seed())]
    if extra:
        cmd += extra
    cmd.append(module + ".tla")
    e = dict(os.environ)
    jo = []
    if java_opts:
        jo += java_opts
    if dfs:
        jo += ["-Xss1g", "-Dtlc2.tool.queue.IStateQueue=StateDeque"]
    if jo:
        e["JAVA_TOOL_OPTIONS"] = " ".join(jo)
    if env:
        e.update(env)
    t0 = time.time()
    p = subprocess.run(cmd, cwd=SPEC, env=e, stdout=subprocess.PIPE, stderr=subprocess.STDOUT, text=True)
    wall = time.time() - t0
    shutil.rmtree(md, ignore_errors=True)
    out = p.stdout
    res = {"module": module, "cfg": cfg, "wall_s": round(wall, 2), "rc": p.returncode, "generated": 0,
           "distinct": 0, "depth": 0, "coverage": {}, "replay": [], "prints": [], "violated": None, "stdout": out}
    if p.returncode == 124:
        raise ToolError("TLC timeout after %ss on %s/%s" % (timeout, module, cfg))
    for line in out.splitlines():
        if line.startswith('<<"REPLAY", '):
            body = line[len('<<"REPLAY", '):]
            if body.endswith(">>"):
                body = body[:-2]
            try:
                res["replay"].append(json.loads(json.loads(body)))
            except Exception as ex:  # noqa
                raise ToolError("cannot parse REPLAY line: %r (%s)" % (line[:200], ex))
            continue
        if line.startswith('<<"'):
            res["prints"].append(line)
            continue
        m = _STATS.search(line)
        if m:
            res["generated"], res["distinct"] = int(m.group(1)), int(m.group(2))
            continue
        m = _DEPTH.search(line)
        if m:
            res["depth"] = int(m.group(1))
            continue
        m = _COV.match(line)
        if m:
            name = m.group(1)
            c = res["coverage"].setdefault(name, [0, 0])
            c[0] += int(m.group(4))
            c[1] += int(m.group(5))
            continue
        m = _INVVIOL.search(line) or _ACTVIOL.search(line) or _TMPVIOL.search(line)
        if m:
            res["violated"] = m.group(1)
    if simulate and res["generated"] == 0:
        m = re.search(r"(\d+) states checked", out)
        if m:
            res["generated"] = res["distinct"] = int(m.group(1))
    if res["violated"] is None and "Postcondition" in out and "is false" in out:
        res["violated"] = "Accepted"      # trace validation: the POSTCONDITION of the trace spec failed (a rejected trace)
    if res["violated"] and not expect_violation:
        # a violated *design* invariant is a spec problem (tool error), unless the caller asked for it
        dump = os.path.join(WORK, "tlc-fail-%s.log" % tag)
        open(dump, "w").write(out)
        raise ToolError("TLC: invariant %s violated in design config %s (log: %s)" % (res["violated"], cfg, dump))
    if p.returncode != 0 and not res["violated"]:
        dump = os.path.join(WORK, "tlc-fail-%s.log" % tag)
        open(dump, "w").write(out)
        raise ToolError("TLC failed rc=%s on %s/%s (log: %s)\n%s" % (p.returncode, module, cfg, dump, out[-1500:]))
    return res


def zero_coverage(res, actions):
    """names in `actions` whose coverage count is zero (vacuity guard)"""
    return [a for a in actions if res["coverage"].get(a, [0, 0])[1] == 0]


# ----------------------------------------------------------------------------------------------- harness

_built = False


def build_harness():
    """cargo build of harness/ against the current /repo tree with --cfg jsonrpsee_verif (see .cargo/config.toml)."""
    global _built
    if _built:
        return
    lock = os.path.join(HARNESS, "Cargo.lock")
    if not os.path.exists(lock):
        shutil.copy("/repo/Cargo.lock", lock)
    t0 = time.time()
    e = dict(os.environ)
    e["CARGO_NET_OFFLINE"] = "true"
    p = subprocess.run(["cargo", "build", "--offline", "--bins"], cwd=HARNESS, env=e, stdout=subprocess.PIPE,
                       stderr=subprocess.STDOUT, text=True)
    if p.returncode != 0:
        raise ToolError("harness build failed:\n" + p.stdout[-4000:])
    log("[build] harness built in %.1fs" % (time.time() - t0))
    _built = True


def vh(args, *, timeout=600, env=None, stdin=None):
    build_harness()
    e = dict(os.environ)
    e.setdefault("VERIF_SEED", str(seed()))
    e.setdefault("RUST_BACKTRACE", "0")
    if env:
        e.update(env)
    exe = os.path.join(HARNESS, "target", "debug", "vh")
    try:
        p = subprocess.run([exe] + args, cwd=ROOT, env=e, stdout=subprocess.PIPE, stderr=subprocess.PIPE, text=True,
                           timeout=timeout, input=stdin, preexec_fn=_limits)
    except subprocess.TimeoutExpired:
        raise ToolError("vh %s timed out after %ss" % (" ".join(args[:3]), timeout))
    if p.returncode < 0:
        import signal
        try:
            sig = signal.Signals(-p.returncode).name
        except ValueError:
            sig = str(-p.returncode)
        raise Died("process-died:%s:%s" % (sig, "-".join(args[:3])),
                   {"cmd": args, "signal": sig, "stderr_tail": p.stderr[-2000:], "stdout_tail": p.stdout[-500:],
                    "note": "the harness process was killed while running code under test (16 GB address-space limit; an abort "
                            "after a failed allocation shows as SIGABRT)"})
    if p.returncode != 0:
        raise ToolError("vh %s failed rc=%s\nstderr: %s\nstdout: %s" % (" ".join(args[:3]), p.returncode,
                                                                      p.stderr[-3000:], p.stdout[-1000:]))
    return p.stdout


def write_ndjson(path, rows):
    with open(path, "w") as f:
        for r in rows:
            f.write(json.dumps(r, separators=(",", ":")) + "\n")


def read_ndjson(path):
    rows = []
    # (what code under test produced may not even be UTF-8: a seeded change cut a string in the middle of a character)
    with open(path, encoding="utf-8", errors="replace") as f:
        for line in f:
            line = line.strip()
            if line:
                rows.append(json.loads(line))
    return rows


# ----------------------------------------------------------------------------------------------- findings

def known_findings(pid):
    p = os.path.join(ROOT, "known-findings.json")
    if not os.path.exists(p):
        return {}
    d = json.load(open(p))
    return {f["key"]: f for f in d.get("findings", []) if f["property"] == pid and f.get("status") == "known"}


class Report:
    """Collects mismatches grouped by structural key; prints VIOLATION / KNOWN-FINDING lines; writes evidence."""

    def __init__(self, pid, tier):
        self.pid, self.tier = pid, tier
        self.t0 = time.time()
        self.mism = {}  # key -> list of dicts
        self.cov = {"states": 0, "transitions": 0, "traces_validated_against_impl": 0, "evaluations": 0,
                    "distinct_nontrivial": 0, "rule": "", "samples": [], "exhaustive": False, "tlc_runs": [],
                    "coverage_zero_actions": [], "known_findings_seen": []}
        self.assumptions = []
        self.known = known_findings(pid)
        self.wd = workdir(pid)
        for f in os.listdir(self.wd):          # replay files of earlier runs would be misleading
            if f.startswith("replay-") and f.endswith(".json"):
                os.remove(os.path.join(self.wd, f))

    def add_tlc(self, res, note=None):
        self.cov["states"] += res["distinct"]
        self.cov["transitions"] += res["generated"]
        self.cov["tlc_runs"].append({"module": res["module"], "cfg": res["cfg"], "generated": res["generated"],
                                     "distinct": res["distinct"], "depth": res["depth"], "wall_s": res["wall_s"],
                                     "note": note or ""})

    def mismatch(self, key, detail):
        self.mism.setdefault(key, []).append(detail)

    def finish(self, level="model_checking"):
        viol = 0
        lines = []
        for key, items in sorted(self.mism.items()):
            safe = re.sub(r"[^A-Za-z0-9_.-]+", "_", key)[:120]
            path = os.path.join(self.wd, "replay-%s.json" % safe)
            json.dump({"property": self.pid, "key": key, "count": len(items), "cases": items[:20]},
                      open(path, "w"), indent=1)
            if key in self.known:
                lines.append("KNOWN-FINDING: property=%s key=%s %s (%d cases)" % (self.pid, key,
                                                                                   self.known[key].get("what", ""), len(items)))
                self.cov["known_findings_seen"].append(key)
            else:
                viol += 1
                lines.append("VIOLATION property=%s replay=%s" % (self.pid, path))
                log("  mismatch key=%s n=%d first=%s" % (key, len(items), json.dumps(items[0])[:600]))
        ev = {"property_id": self.pid, "tier": self.tier, "seed": seed(), "level": level, "coverage": self.cov,
              "assumptions": self.assumptions, "wall_s": round(time.time() - self.t0, 2), "violations": viol}
        evid = EVID if re.match(r"C\d\d$", self.pid) else os.path.join(ROOT, "evidence-extras")   # X..: beyond the listed properties
        os.makedirs(evid, exist_ok=True)
        json.dump(ev, open(os.path.join(evid, self.pid + ".json"), "w"), indent=1)
        for l in lines:
            print(l, flush=True)
        print("%s %s: states=%d transitions=%d impl_cases=%d nontrivial=%d violations=%d known=%d wall=%.1fs" % (
            self.pid, self.tier, self.cov["states"], self.cov["transitions"],
            self.cov["traces_validated_against_impl"], self.cov["distinct_nontrivial"], viol,
            len(self.cov["known_findings_seen"]), time.time() - self.t0), flush=True)
        return 1 if viol else 0


# ----------------------------------------------------------------------------------------------- trace validation

def split_scenarios(path):
    """ndjson trace file -> list of scenarios (each a list of raw lines starting with a Reset event)"""
    scs, cur = [], []
    with open(path) as f:
        for line in f:
            if not line.strip():
                continue
            if '"ev":"Reset"' in line and cur:
                scs.append(cur)
                cur = []
            cur.append(line)
    if cur:
        scs.append(cur)
    return scs


_UNM = re.compile(r'<<"UNMATCHED", (\d+), (".*")>>')
_LVAL = re.compile(r"^/\\ l = (\d+)", re.M)


def validate_traces(module, cfg, scenarios, tag, timeout=900):
    """Validate scenarios (lists of ndjson lines) against a trace spec. A rejection ends a TLC run, so the rejected
    scenario is cut out at its Reset boundaries and the remainder is validated again until every scenario has been
    examined. Returns (accepted_count, rejections, tlc_stats) ; rejection = {scenario, line_in_scenario, event|invariant}."""
    wd = workdir("traces")
    remaining = list(range(len(scenarios)))
    rejections = []
    stats = {"generated": 0, "distinct": 0, "runs": 0, "wall_s": 0.0}
    while remaining:
        path = os.path.join(wd, "%s-%d.ndjson" % (tag, os.getpid()))
        starts = []
        with open(path, "w") as f:
            n = 1
            for i in remaining:
                starts.append((n, i))
                for ln in scenarios[i]:
                    f.write(ln if ln.endswith("\n") else ln + "\n")
                    n += 1
        res = tlc(module, cfg, workers=1, timeout=timeout, env={"TRACE": path}, dfs=True, coverage=False,
                  expect_violation=True, tag="trace-" + tag, java_opts=["-Xmx4g"])
        stats["generated"] += res["generated"]
        stats["distinct"] += res["distinct"]
        stats["runs"] += 1
        stats["wall_s"] += res["wall_s"]
        out = res["stdout"]
        bad_line, what = None, None
        m = _UNM.search(out)
        if res["violated"] and res["violated"] != "Accepted":
            ls = _LVAL.findall(out)
            bad_line = int(ls[-1]) - 1 if ls else 1
            what = {"invariant": res["violated"]}
        elif m:
            bad_line = int(m.group(1))
            try:
                what = {"event": json.loads(json.loads(m.group(2)))}
            except Exception:
                what = {"event": {"ev": "?", "raw": m.group(2)}}
        elif res["rc"] != 0 or "Postcondition" in out and "is false" in out:
            raise ToolError("trace validation failed without a diagnosis (rc=%s)\n%s" % (res["rc"], out[-2000:]))
        try:
            os.remove(path)
        except OSError:
            pass
        if bad_line is None:
            break
        # which scenario contains bad_line
        idx = 0
        for k, (start, i) in enumerate(starts):
            if start <= bad_line:
                idx = k
        start, sc = starts[idx]
        rejections.append({"scenario": sc, "line_in_scenario": bad_line - start + 1, **what})
        # the concatenated trace is consumed in order, so every scenario before the rejected one was accepted in this run:
        # only the scenarios after it still have to be examined
        remaining = remaining[idx + 1:]
        if len(rejections) >= 40:
            log("  note: 40 rejected scenarios in %s, the remaining %d scenarios are left unexamined" % (tag, len(remaining)))
            stats["unexamined"] = len(remaining)
            break
    return len(scenarios) - len(rejections) - stats.get("unexamined", 0), rejections, stats
