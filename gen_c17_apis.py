#!/usr/bin/env python3
"""C17: generate harness/apis/src/generated.rs - the family of `#[rpc(server, client)]` APIs enumerated by RpcMacro.tla.

One `pub mod s_<id>` per *shape* (flag vector of 0..4 "req"/"opt" slots, param_kind array|map, namespace form
none|under|dot).  The file is a pure function of the shape list (sorted, no timestamps), so `./check C17` can compare
it byte for byte and only rewrite (= recompile) when the enumeration changed.

usage: gen_c17_apis.py [--out FILE] [--check]        (without arguments: the full 186-shape family)
"""
import argparse, itertools, os, sys

ROOT = os.path.dirname(os.path.abspath(__file__))
DEFAULT_OUT = os.path.join(ROOT, "harness", "apis", "src", "generated.rs")

# slot i -> (parameter name as declared, Rust type).  Spellings: second_param is snake_case (camel alias secondParam),
# thirdArg is camelCase (snake alias third_arg); p0 and d are the same in both cases (RpcMacro.tla OtherSpelling).
SLOTS = [("p0", "u64"), ("second_param", "String"), ("thirdArg", "Nested"), ("d", "Vec<u32>")]
# the "odd" family: (Rust identifier, wire name, attribute) - names that are neither their own snake_case nor their own
# lowerCamelCase form, and one renamed to something that is not an identifier at all
ODD = [("_limit", "_limit", ""), ("type_", "type_", ""), ("chainID", "chainID", ""), ("block_hash", "block-hash", '#[argument(rename = "block-hash")] ')]
PK_CH = {"array": "a", "map": "m"}
NS_CH = {"none": "n", "under": "u", "dot": "d", "odd": "x"}


def shape_id(flags, pk, ns):
    """('req','opt'), 'array', 'under' -> 'ro_au'; no params -> 'z_..'"""
    f = "".join("r" if x == "req" else "o" for x in flags) or "z"
    return "%s_%s%s" % (f, PK_CH[pk], NS_CH[ns])


def all_shapes(max_params=4):
    out = []
    for n in range(max_params + 1):
        for flags in itertools.product(("req", "opt"), repeat=n):
            for pk in ("array", "map"):
                for ns in ("none", "under", "dot"):
                    out.append((tuple(flags), pk, ns))
            out.append((tuple(flags), "map", "odd"))
    return out


def wire_name(sid, ns, base):
    """full JSON-RPC method name of `base` (m_sync | m_async | m_blocking | sub | unsub | subn) in shape sid"""
    return "%s.%s" % (sid, base) if ns == "dot" else "%s_%s" % (sid, base)


def alias_name(sid):
    return sid + "_alias"      # registered verbatim - aliases are not namespaced (render_server.rs:264-285)


def _module(flags, pk, ns):
    sid = shape_id(flags, pk, ns)
    n = len(flags)
    tys = [(SLOTS[i][1] if flags[i] == "req" else "Option<%s>" % SLOTS[i][1]) for i in range(n)]
    names = [(ODD[i][0] if ns == "odd" else SLOTS[i][0]) for i in range(n)]
    sig = "".join(", %s%s: %s" % ((ODD[i][2] if ns == "odd" else ""), names[i], tys[i]) for i in range(n))
    isig = "".join(", %s: %s" % (names[i], tys[i]) for i in range(n))          # the impl repeats no attributes
    argv = ", ".join(names)
    pkattr = ", param_kind = map" if pk == "map" else ""
    if ns in ("none", "odd"):
        rpc = "#[rpc(server, client)]"
        nm = lambda b: "%s_%s" % (sid, b)       # noqa: E731  the shape id is part of the method name itself
    elif ns == "under":
        rpc = '#[rpc(server, client, namespace = "%s")]' % sid
        nm = lambda b: b                         # noqa: E731
    else:
        rpc = '#[rpc(server, client, namespace = "%s", namespace_separator = ".")]' % sid
        nm = lambda b: b                         # noqa: E731
    logv = "vec![%s]" % ", ".join("jv(&%s)" % x for x in names)
    L = []
    w = L.append
    w("#[allow(non_snake_case)]")
    w("pub mod s_%s {" % sid)
    w("\tuse super::*;")
    w("\t%s" % rpc)
    w("\tpub trait Api {")
    w('\t\t#[method(name = "%s"%s)]' % (nm("m_sync"), pkattr))
    w("\t\tfn m_sync(&self%s) -> RpcResult<Echo>;" % sig)
    w('\t\t#[method(name = "%s", aliases = ["%s"]%s)]' % (nm("m_async"), alias_name(sid), pkattr))
    w("\t\tasync fn m_async(&self%s) -> RpcResult<Echo>;" % sig)
    w('\t\t#[method(name = "%s", blocking%s)]' % (nm("m_blocking"), pkattr))
    w("\t\tfn m_blocking(&self%s) -> RpcResult<Echo>;" % sig)
    w('\t\t#[subscription(name = "%s" => "%s", unsubscribe = "%s", item = Echo%s)]' % (nm("sub"), nm("subn"), nm("unsub"), pkattr))
    w("\t\tasync fn sub(&self%s) -> SubscriptionResult;" % sig)
    w("\t}")
    w("\tpub struct Impl(pub Log);")
    w("\t#[async_trait]")
    w("\timpl ApiServer for Impl {")
    w("\t\tfn m_sync(&self%s) -> RpcResult<Echo> {" % isig)
    w('\t\t\tfinish(&self.0, "%s/m_sync", %s)' % (sid, logv))
    w("\t\t}")
    w("\t\tasync fn m_async(&self%s) -> RpcResult<Echo> {" % isig)
    w('\t\t\tfinish(&self.0, "%s/m_async", %s)' % (sid, logv))
    w("\t\t}")
    w("\t\tfn m_blocking(&self%s) -> RpcResult<Echo> {" % isig)
    w('\t\t\tfinish(&self.0, "%s/m_blocking", %s)' % (sid, logv))
    w("\t\t}")
    w("\t\tasync fn sub(&self, pending: PendingSubscriptionSink%s) -> SubscriptionResult {" % isig)
    w('\t\t\tsub_finish(&self.0, pending, "%s/sub", %s).await' % (sid, logv))
    w("\t\t}")
    w("\t}")
    w("\t/// the generated client stub of this shape, called with typed arguments built from the JSON values.  A plain fn that")
    w("\t/// boxes the stub's future (awaited once, in `dispatch`): 744 per-stub async state machines cost 25 s of rustc time")
    w("\tpub fn call<'a>(c: &'a Client, kind: &str, a: &[Option<Value>]) -> Stub<'a> {")
    w("\t\tassert_eq!(a.len(), %d);" % n)
    for i in range(n):
        w("\t\tlet %s: %s = %s(&a[%d]);" % (names[i], tys[i], "req" if flags[i] == "req" else "opt", i))
    call_args = "c" + "".join(", " + x for x in names)
    w("\t\tmatch kind {")
    w('\t\t\t"sync" => Stub::Method(Box::pin(ApiClient::m_sync(%s))),' % call_args)
    w('\t\t\t"async" => Stub::Method(Box::pin(ApiClient::m_async(%s))),' % call_args)
    w('\t\t\t"blocking" => Stub::Method(Box::pin(ApiClient::m_blocking(%s))),' % call_args)
    w('\t\t\t"sub" => Stub::Sub(Box::pin(ApiClient::sub(%s))),' % call_args)
    w('\t\t\tk => panic!("no generated stub for kind {k}"),')
    w("\t\t}")
    w("\t}")
    w("}")
    return "\n".join(L)


HEADER = '''//! GENERATED by gen_c17_apis.py from the shape list of spec/RpcMacro.tla - do not edit.
//! C17: one `#[rpc(server, client)]` trait per shape (flag vector x param_kind x namespace form); the real proc-macro
//! of the tree under test expands every one of them.  Shape id = <r|o per slot, z for none>_<a|m><n|u|d>.
#![allow(clippy::all, unused_variables)]
use crate::{Echo, Log, Nested, Stub, finish, jv, opt, req, sub_finish};
use jsonrpsee::core::client::{Client, Error};
use jsonrpsee::core::{RpcResult, SubscriptionResult, async_trait};
use jsonrpsee::proc_macros::rpc;
use jsonrpsee::{PendingSubscriptionSink, RpcModule};
use serde_json::Value;
'''


def render(shapes):
    shapes = sorted(set((tuple(f), pk, ns) for f, pk, ns in shapes), key=lambda s: (len(s[0]), s[0], s[1], s[2]))
    ids = [shape_id(*s) for s in shapes]
    assert len(set(ids)) == len(ids)
    parts = [HEADER]
    parts.append("/// every shape id of the family, in generation order")
    parts.append("pub const SHAPES: &[&str] = &[%s];\n" % ", ".join('"%s"' % i for i in ids))
    for s in shapes:
        parts.append(_module(*s))
        parts.append("")
    parts.append("/// call the generated client stub of `shape`")
    parts.append("pub async fn dispatch(shape: &str, c: &Client, kind: &str, a: &[Option<Value>]) -> Result<Value, Error> {")
    parts.append("\tlet stub = match shape {")
    for i in ids:
        parts.append('\t\t"%s" => s_%s::call(c, kind, a),' % (i, i))
    parts.append('\t\ts => panic!("unknown shape {s}"),')
    parts.append("\t};")
    parts.append("\tstub.run().await")
    parts.append("}\n")
    parts.append("/// `into_rpc()` of every shape merged into one module (all names are distinct by construction)")
    parts.append("pub fn merged(log: &Log) -> RpcModule<()> {")
    parts.append("\tlet mut m = RpcModule::new(());")
    for i in ids:
        parts.append('\tm.merge(s_%s::ApiServer::into_rpc(s_%s::Impl(log.clone()))).expect("distinct names: %s");' % (i, i, i))
    parts.append("\tm")
    parts.append("}")
    return "\n".join(parts) + "\n"


def write_if_changed(shapes, out=DEFAULT_OUT):
    """returns True when the file was (re)written"""
    text = render(shapes)
    old = open(out).read() if os.path.exists(out) else None
    if old == text:
        return False
    tmp = out + ".tmp"
    open(tmp, "w").write(text)
    os.replace(tmp, out)
    return True


def main():
    ap = argparse.ArgumentParser()
    ap.add_argument("--out", default=DEFAULT_OUT)
    ap.add_argument("--check", action="store_true", help="exit 1 if the file on disk differs from what would be generated")
    a = ap.parse_args()
    shapes = all_shapes()
    if a.check:
        same = os.path.exists(a.out) and open(a.out).read() == render(shapes)
        print("up to date" if same else "stale")
        return 0 if same else 1
    ch = write_if_changed(shapes, a.out)
    print("%s %s (%d shapes)" % ("wrote" if ch else "unchanged", a.out, len(shapes)))
    return 0


if __name__ == "__main__":
    sys.exit(main())
