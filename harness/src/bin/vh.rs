use vh::common::{Out, read_cases};

fn main() {
	let args: Vec<String> = std::env::args().collect();
	if args.len() < 2 {
		eprintln!("usage: vh replay <module> <cases.ndjson> <out.ndjson> | vh record <scenario-set> <in> <out>");
		std::process::exit(2);
	}
	match args[1].as_str() {
		"replay" => {
			let cases = read_cases(&args[3]);
			let mut out = Out::create(&args[4]);
			match args[2].as_str() {
				"c20" => vh::c20_params_builder::replay(&cases, &mut out),
				"c13" => vh::c13_registry::replay(&cases, &mut out),
				"c16" => vh::c16_params_seq::replay(&cases, &mut out),
				m => {
					eprintln!("unknown module {m}");
					std::process::exit(2);
				}
			}
			println!("{{\"n\":{},\"bad\":{}}}", out.n, out.bad);
			out.finish();
		}
		c => {
			eprintln!("unknown command {c}");
			std::process::exit(2);
		}
	}
}
