use vh::common::{Out, read_cases};

fn main() {
	let args: Vec<String> = std::env::args().collect();
	// diagnosis only: VH_TRACE=<filter> prints the library's own tracing output to stderr
	if let Ok(f) = std::env::var("VH_TRACE") {
		let _ = tracing_subscriber::fmt().with_env_filter(f).with_writer(std::io::stderr).try_init();
	}
	if args.len() < 2 {
		eprintln!("usage: vh replay <module> <cases.ndjson> <out.ndjson> | vh record <scenario-set> <in> <out>");
		std::process::exit(2);
	}
	match args[1].as_str() {
		"replay" => {
			let cases = read_cases(&args[3]);
			let mut out = Out::create(&args[4]);
			match args[2].as_str() {
				"c17" => vh::c17_rpc_macro::replay(&cases, &mut out),
				"c19" => vh::c19_http_gate::replay(&cases, &mut out),
				"c20" => vh::c20_params_builder::replay(&cases, &mut out),
				"c01" => vh::c01_single::replay(&cases, &mut out),
				"c03http" => vh::c03_http::replay(&cases, &mut out),
				"wsconnect" => vh::ws_connect::replay(&cases, &mut out),
				"c02" => vh::c02_batch::replay(&cases, &mut out),
				"c06" => vh::c06_subs::replay(&cases, &mut out),
				"c07" | "c08" => vh::c07_limits::replay(&cases, &mut out),
				"c11" => vh::c11_guard::replay(&cases, &mut out),
				"c12" => vh::c12_batch::replay(&cases, &mut out),
				"c13" => vh::c13_registry::replay(&cases, &mut out),
				"c14" => vh::c14_host_filter::replay(&cases, &mut out),
				"c15" => vh::c15_wire_types::replay(&cases, &mut out),
				"c16" => vh::c16_params_seq::replay(&cases, &mut out),
				m => {
					eprintln!("unknown module {m}");
					std::process::exit(2);
				}
			}
			println!("{{\"n\":{},\"bad\":{}}}", out.n, out.bad);
			out.finish();
		}
		"record" => match args[2].as_str() {
			"client" => vh::client_scen::run(&args[3], args[4].parse().unwrap(), &args[5]),
			"clientscript" => vh::client_scen::run_scripts(&args[3], &args[4], &args[5]),
			"clientfuzz" => vh::client_scen::fuzz(args[4].parse().unwrap(), &args[5]),
			"subs" => vh::c04_subs_conc::run(args[4].parse().unwrap(), &args[5]),
			"stop" => vh::c10_stop::run(args[4].parse().unwrap(), &args[5]),
			o => {
				eprintln!("unknown scenario set {o}");
				std::process::exit(2);
			}
		},
		// diagnosis: send one text on a fresh WebSocket connection of the standard rig, then a probe call; print every frame to EOF
		"wsraw" => {
			let rt = tokio::runtime::Builder::new_multi_thread().worker_threads(4).enable_all().build().unwrap();
			rt.block_on(async {
				use std::time::Duration;
				let rig = vh::server_rig::Rig::new(Default::default());
				let mut ws = rig.ws().await.unwrap();
				ws.send_text(&args[2]).await;
				ws.send_text(r#"{"jsonrpc":"2.0","id":"probe","method":"echo"}"#).await;
				let (a, hit) = ws.recv_until(Duration::from_secs(3), |v| v["id"] == "probe").await;
				let (b, clean) = ws.stop_and_drain(Duration::from_secs(3)).await;
				println!("until probe ({hit}): {a:#?}\nafter stop (clean={clean}): {b:#?}\nhandler log: {:?}", rig.take_log());
			});
		}
		"smoke" => {
			let rt = tokio::runtime::Builder::new_multi_thread().worker_threads(4).enable_all().build().unwrap();
			rt.block_on(async {
				use std::time::Duration;
				let rig = vh::server_rig::Rig::new(Default::default());
				let r = rig.http_json(br#"{"jsonrpc":"2.0","id":1,"method":"echo","params":[1,"x"]}"#).await;
				println!("http {} {}", r.status, String::from_utf8_lossy(&r.body));
				let r = rig.http_json(br#"{"jsonrpc":"2.0","id":1,"method":"boom"}"#).await;
				println!("http {} {}", r.status, String::from_utf8_lossy(&r.body));
				let t0 = std::time::Instant::now();
				for i in 0..1000 {
					let mut ws = rig.ws().await.unwrap();
					ws.send_text(r#"{"jsonrpc":"2.0","id":7,"method":"echo_blocking","params":{"a":1}}"#).await;
					ws.send_text(r#"{"jsonrpc":"2.0","id":"probe","method":"echo"}"#).await;
					let (a, hit) = ws.recv_until(Duration::from_secs(5), |v| v["id"] == "probe").await;
					let (b, clean) = ws.stop_and_drain(Duration::from_secs(5)).await;
					if i == 0 { println!("ws {a:?} {hit} | {b:?} {clean}"); }
				}
				println!("1000 ws conns in {:?}", t0.elapsed());
				let t0 = std::time::Instant::now();
				for _ in 0..10000 {
					let _ = rig.http_json(br#"{"jsonrpc":"2.0","id":1,"method":"echo","params":[1,"x"]}"#).await;
				}
				println!("10000 http calls in {:?}", t0.elapsed());
				println!("log entries {}", rig.take_log().len());
			});
		}
		c => {
			eprintln!("unknown command {c}");
			std::process::exit(2);
		}
	}
}
