//! C02: every abstract batch case of Wire.tla (cfg x entry-class sequence) against the real server on both transports.
use crate::common::*;
use crate::server_rig::*;
use crate::wire::*;
use jsonrpsee_server::BatchRequestConfig;
use rand::Rng;
use rand::rngs::StdRng;
use serde_json::{Value, json};
use std::time::Duration;

const WAIT: Duration = Duration::from_secs(10);

struct Entry {
	text: String,
	cls: String,
	id: Option<Value>,
	params: Option<Value>,
	handler: Option<&'static str>,
}

fn entry(cls: &str, rng: &mut StdRng, uniq: u64, earlier_call_id: Option<&Value>) -> Entry {
	let idt = |rng: &mut StdRng| id_text(pick(rng, &["num", "str", "num", "null"]), rng, uniq).unwrap();
	let obj = |ms: Vec<(&str, String)>, rng: &mut StdRng| object_text(&ms, rng);
	let v2 = || "\"2.0\"".to_string();
	let (text, id, params, handler): (String, Option<String>, Option<String>, Option<&'static str>) = match cls {
		"callOk" | "dupIdCall" => {
			let (m, h) = [("\"echo\"", "echo"), ("\"echo_async\"", "echo_async"), ("\"echo_blocking\"", "echo_blocking")][rng.random_range(0..3)];
			let id = match (cls, earlier_call_id) {
				("dupIdCall", Some(v)) => v.to_string(),
				_ => idt(rng),
			};
			let p = params_text(pick(rng, &["arrOk", "objOk", "absent", "scalar", "null"]), rng);
			let mut ms = vec![("jsonrpc", v2()), ("id", id.clone()), ("method", m.to_string())];
			if let Some(p) = &p {
				ms.push(("params", p.clone()));
			}
			(obj(ms, rng), Some(id), p, Some(h))
		}
		"callUnknown" => {
			let id = idt(rng);
			(obj(vec![("jsonrpc", v2()), ("id", id.clone()), ("method", "\"nope\"".into())], rng), Some(id), None, None)
		}
		"callBadParams" => {
			let id = idt(rng);
			let p = params_text(pick(rng, &["arrBad", "objBad"]), rng).unwrap();
			(obj(vec![("jsonrpc", v2()), ("id", id.clone()), ("method", "\"echo\"".into()), ("params", p.clone())], rng), Some(id), Some(p), Some("echo"))
		}
		"notif" => (obj(vec![("jsonrpc", v2()), ("method", pick(rng, &["\"echo\"", "\"nope\"", "\"sub\""]).into()), ("params", "[1]".into())], rng), None, None, None),
		"notifBadId" => {
			let id = id_text("bad", rng, uniq).unwrap();
			(obj(vec![("jsonrpc", v2()), ("id", id), ("method", "\"echo\"".into())], rng), None, None, None)
		}
		"invalidWithId" => {
			let id = idt(rng);
			let t = match rng.random_range(0..3) {
				0 => obj(vec![("jsonrpc", v2()), ("id", id.clone())], rng),
				1 => obj(vec![("jsonrpc", "\"1.0\"".into()), ("id", id.clone()), ("method", "\"echo\"".into())], rng),
				_ => obj(vec![("jsonrpc", v2()), ("id", id.clone()), ("method", "7".into())], rng),
			};
			(t, Some(id), None, None)
		}
		"invalidNoId" => {
			let t = match rng.random_range(0..4) {
				0 => "{}".to_string(),
				1 => obj(vec![("jsonrpc", v2()), ("method", "1".into())], rng),
				2 => obj(vec![("method", "\"echo\"".into())], rng),
				_ => obj(vec![("jsonrpc", v2()), ("id", "-1".into())], rng),
			};
			(t, Some("null".into()), None, None)
		}
		"nonObject" => (pick(rng, &["1", "\"x\"", "null", "[]", "[true]", "true", "[{}]"]).to_string(), Some("null".into()), None, None),
		"subCall" => {
			let id = idt(rng);
			(obj(vec![("jsonrpc", v2()), ("id", id.clone()), ("method", "\"sub\"".into())], rng), Some(id), None, Some("sub"))
		}
		"unsubCall" => {
			let id = idt(rng);
			(obj(vec![("jsonrpc", v2()), ("id", id.clone()), ("method", "\"unsub\"".into()), ("params", "[1]".into())], rng), Some(id), None, None)
		}
		o => panic!("entry class {o}"),
	};
	Entry {
		text,
		cls: cls.to_string(),
		id: id.map(|t| serde_json::from_str(&t).unwrap()),
		params: params.map(|t| serde_json::from_str(&t).unwrap()),
		handler,
	}
}

fn elem_matches(exp: &Value, e: &Entry, v: &Value) -> bool {
	let want_id = if exp["id"] == "own" { e.id.clone().unwrap_or(Value::Null) } else { Value::Null };
	if v["id"] != want_id {
		return false;
	}
	if exp["kind"] == "error" {
		v.get("error").map(|er| er["code"] == exp["code"]).unwrap_or(false)
	} else {
		match (exp["what"].as_str().unwrap(), v.get("result")) {
			(_, None) => false,
			("echo", Some(r)) => *r == json!({"echo": e.params.clone().unwrap_or(Value::Null)}),
			("subId", Some(r)) => r.is_string() || r.is_u64(),
			("false", Some(r)) => *r == json!(false),
			_ => false,
		}
	}
}

fn cfg_of(s: &str) -> BatchRequestConfig {
	match s {
		"Disabled" => BatchRequestConfig::Disabled,
		"Limit1" => BatchRequestConfig::Limit(1),
		"Limit2" => BatchRequestConfig::Limit(2),
		_ => BatchRequestConfig::Unlimited,
	}
}

pub fn replay(cases: &[Value], out: &mut Out) {
	std::panic::set_hook(Box::new(|_| {}));
	let rt = tokio::runtime::Builder::new_multi_thread().worker_threads(8).enable_all().build().unwrap();
	let ks = k_concretisations();
	rt.block_on(async {
		let all: Vec<(usize, Value)> = cases.iter().cloned().enumerate().collect();
		let mut handles = vec![];
		for chunk in all.chunks((all.len() / 8).max(1)) {
			let chunk = chunk.to_vec();
			handles.push(tokio::spawn(async move {
				let mut rigs = std::collections::HashMap::new();
				for c in ["Disabled", "Limit1", "Limit2", "Unlimited"] {
					rigs.insert(c, Rig::new(RigCfg { batch: cfg_of(c), ..Default::default() }));
				}
				let mut v = vec![];
				for (i, c) in chunk {
					for k in 0..ks {
						let rig = &rigs[c["case"]["cfg"].as_str().unwrap()];
						v.push((i, k, one_case(rig, i, k, &c).await));
					}
				}
				v
			}));
		}
		let mut extra = Some(under_response_limit().await);
		for h in handles {
			for (i, k, (mut probs, detail)) in h.await.unwrap() {
				if let Some(e) = extra.take() {
					probs.extend(e); // (reported with the first verdict)
				}
				out.problems(i, k, probs, detail);
			}
		}
	});
}

/// "Only the response-size limit may replace the array by a single error": a batch of two valid calls whose reply array is a
/// few bytes above max_response_body_size (twenty: more than any per-entry slack), the second reply being the big one.  Either the single -32011 object comes back, or an
/// array - and then each element is what the entry gets when it is sent alone (never a per-entry "too big" of the batch's making).
async fn under_response_limit() -> Vec<(String, Value)> {
	let mut probs = vec![];
	let wide = Rig::new(RigCfg::default());
	let e1 = r#"{"jsonrpc":"2.0","id":1,"method":"echo","params":["small"]}"#.to_string();
	let e2 = format!(r#"{{"jsonrpc":"2.0","id":2,"method":"echo","params":["{}"]}}"#, "w".repeat(400));
	let batch = format!("[{e1},{e2}]");
	let full = wide.http_json(batch.as_bytes()).await;
	let alone: Vec<Value> = vec![wide.http_json(e1.as_bytes()).await.json().unwrap_or(Value::Null), wide.http_json(e2.as_bytes()).await.json().unwrap_or(Value::Null)];
	if full.json().map(|v| v.as_array().map(|a| a.len())) != Some(Some(2)) {
		return vec![("http:batch:under-response-limit:reference-batch-not-answered-by-an-array".into(), json!({"body": String::from_utf8_lossy(&full.body)}))];
	}
	for (tr, limit) in [("http", full.body.len() as u32 - 20), ("ws", full.body.len() as u32 - 20)] {
		let tight = Rig::new(RigCfg { max_resp: limit, ..Default::default() });
		let got: Option<Value> = if tr == "http" {
			tight.http_json(batch.as_bytes()).await.json()
		} else {
			match ws_exchange(&tight, &batch, "probe-url", false).await {
				Ok(frames) => frames.iter().filter_map(|f| serde_json::from_str::<Value>(f).ok()).find(|v| v.is_array() || v["id"].is_null()),
				Err(_) => None,
			}
		};
		match got {
			Some(Value::Array(a)) => {
				for (j, el) in a.iter().enumerate() {
					let same = alone.iter().any(|x| x == el);
					if !same {
						probs.push((
							format!("{tr}:batch:under-response-limit:element-differs-from-the-entry-sent-alone"),
							json!({"limit": limit, "element": el.to_string().chars().take(200).collect::<String>(), "position": j}),
						));
					}
				}
			}
			Some(v) if v["error"]["code"] == json!(-32011) && v["id"].is_null() => {}
			other => probs.push((format!("{tr}:batch:under-response-limit:neither-array-nor-32011"), json!({"got": other.map(|v| v.to_string().chars().take(200).collect::<String>())}))),
		}
	}
	probs
}

/// all frames a WS connection produces for `text`, followed by a probe, up to EOF after a graceful stop
async fn ws_exchange(rig: &Rig, text: &str, probe_id: &str, with_batch_in_flight: bool) -> Result<Vec<String>, String> {
	let mut ws = rig.ws().await?;
	if with_batch_in_flight {
		// another batch of this connection - one slow call - is still being executed when `text` arrives: each batch is
		// answered on its own
		ws.send_text(r#"[{"jsonrpc":"2.0","id":"in-flight","method":"slow"}]"#).await;
	}
	if !ws.send_text(text).await {
		return Err("send failed".into());
	}
	let probe = format!(r#"{{"jsonrpc":"2.0","id":"{probe_id}","method":"echo","params":["probe"]}}"#);
	ws.send_text(&probe).await;
	let pid = json!(probe_id);
	let (mut frames, hit) = ws.recv_until(WAIT, |v| v["id"] == pid).await;
	let (rest, clean) = ws.stop_and_drain(WAIT).await;
	frames.extend(rest);
	if !hit {
		return Err(format!("probe unanswered; frames={frames:?}"));
	}
	if !clean {
		return Err(format!("no EOF after stop; frames={frames:?}"));
	}
	Ok(frames
		.into_iter()
		.filter(|f| serde_json::from_str::<Value>(f).map(|v| v["id"] != pid && v[0]["id"] != json!("in-flight")).unwrap_or(true))
		.collect())
}

async fn one_case(rig: &Rig, i: usize, k: usize, c: &Value) -> (Vec<(String, Value)>, Value) {
	let mut rng = rng_for(i, k);
	let classes: Vec<&str> = c["case"]["entries"].as_array().unwrap().iter().map(|e| e.as_str().unwrap()).collect();
	let mut entries: Vec<Entry> = vec![];
	for (j, cl) in classes.iter().enumerate() {
		let earlier = entries.iter().find(|e| e.handler.is_some() && e.cls != "subCall").and_then(|e| e.id.clone());
		entries.push(entry(cl, &mut rng, (i as u64) * 40 + (k as u64) * 8 + j as u64, earlier.as_ref()));
	}
	let sp = |rng: &mut StdRng| if rng.random_bool(0.25) { blanks(rng, 1) } else { String::new() };
	let mut text = blanks(&mut rng, [0, 0, 1, 100][i % 4]);
	text.push('[');
	text += &sp(&mut rng);
	for (j, e) in entries.iter().enumerate() {
		if j > 0 {
			text.push(',');
			text += &sp(&mut rng);
		}
		text += &e.text;
		text += &sp(&mut rng);
	}
	text.push(']');
	let cfgname = c["case"]["cfg"].as_str().unwrap();
	let mut problems: Vec<(String, Value)> = vec![];

	for tr in ["http", "ws"] {
		let exp = &c[tr];
		rig.take_log();
		// frames: every reply text seen for the batch on this transport
		let frames: Vec<String> = if tr == "http" {
			let r = rig.http_json(text.as_bytes()).await;
			if r.body.is_empty() || r.body == b"null" { vec![] } else { vec![String::from_utf8_lossy(&r.body).into_owned()] }
		} else {
			// (where batching is disabled the companion batch would be refused with the same id-less error as the case's own)
			match ws_exchange(rig, &text, &format!("probe-{i}-{k}"), (i + k) % 3 == 2 && cfgname != "Disabled").await {
				Ok(f) => f,
				Err(e) => {
					problems.push((format!("ws:batch:connection-not-serving:{cfgname}"), json!({"err": e})));
					continue;
				}
			}
		};
		let log: Vec<Value> = rig.take_log().into_iter().filter(|e| e["params"] != json!(["probe"])).collect();
		// whatever was sent must be JSON-RPC 2.0 at all (C15's emission clause; C15 runs these exchanges for this key only)
		for f in &frames {
			if let Some(p) = crate::wire::emitted_problem(f) {
				problems.push((format!("emitted:{tr}:{p}"), json!({"frame": f, "batch": text})));
			}
		}
		let kx = exp["k"].as_str().unwrap();
		// which handler invocations are expected
		let mut want_log: Vec<&str> = if exp["executed"] == json!(true) {
			entries.iter().filter(|e| !(tr == "http" && e.cls == "subCall")).filter_map(|e| e.handler).collect()
		} else {
			vec![]
		};
		let mut got_log: Vec<&str> = log.iter().filter_map(|e| e["h"].as_str()).collect();
		want_log.sort();
		got_log.sort();
		if want_log != got_log {
			problems.push((format!("{tr}:batch:{kx}:handlers-run-differ"), json!({"want": want_log, "got": got_log})));
			continue;
		}
		match kx {
			"none" => {
				if !frames.is_empty() {
					problems.push((format!("{tr}:batch:reply-to-all-notification-batch"), json!({"frames": frames})));
				}
			}
			"single" => {
				if frames.len() != 1 {
					problems.push((format!("{tr}:batch:single-error:frames-{}", frames.len()), json!({"frames": frames})));
					continue;
				}
				match well_formed_response(&frames[0]) {
					Ok(v) if v["id"].is_null() && v["error"]["code"] == exp["code"] => {}
					Ok(v) => problems.push((format!("{tr}:batch:single-error:exp{}-got{}", exp["code"], v["error"]["code"]), json!({"frame": frames[0]}))),
					Err(e) => problems.push((format!("{tr}:batch:single-error:malformed"), json!({"why": e, "frame": frames[0]}))),
				}
			}
			"array" => {
				let arrays: Vec<&String> = frames.iter().filter(|f| f.trim_start().starts_with('[')).collect();
				let others: Vec<&String> = frames.iter().filter(|f| !f.trim_start().starts_with('[')).collect();
				if arrays.len() != 1 {
					problems.push((format!("{tr}:batch:array:{}-array-frames", arrays.len()), json!({"frames": frames})));
					continue;
				}
				if !others.is_empty() {
					let has_sub = entries.iter().any(|e| e.cls == "subCall");
					problems.push((
						if has_sub { format!("{tr}:batch:subscribe-response-outside-array") } else { format!("{tr}:batch:response-outside-array") },
						json!({"frames": frames}),
					));
					// keep checking the array itself
				}
				let arr: Vec<Value> = match serde_json::from_str::<Value>(arrays[0]) {
					Ok(Value::Array(a)) => a,
					_ => {
						problems.push((format!("{tr}:batch:array:not-json-array"), json!({"frame": arrays[0]})));
						continue;
					}
				};
				let exp_elems: Vec<(usize, &Value)> =
					exp["elems"].as_array().unwrap().iter().enumerate().filter(|(_, e)| e["n"] == 1).collect();
				if arr.len() != exp_elems.len() {
					problems.push((format!("{tr}:batch:array:len-exp{}-got{}", exp_elems.len(), arr.len()), json!({"frame": arrays[0]})));
					continue;
				}
				let mut bad_elem = None;
				for el in &arr {
					if let Err(e) = well_formed_response(&el.to_string()) {
						bad_elem = Some(e);
					}
				}
				if let Some(e) = bad_elem {
					problems.push((format!("{tr}:batch:array:malformed-element"), json!({"why": e, "frame": arrays[0]})));
					continue;
				}
				// multiset match (order is not demanded by the property)
				let mut used = vec![false; arr.len()];
				let mut unmatched = None;
				for (j, ee) in &exp_elems {
					let hit = (0..arr.len()).find(|&x| !used[x] && elem_matches(ee, &entries[*j], &arr[x]));
					match hit {
						Some(x) => used[x] = true,
						None => {
							unmatched = Some(*j);
							break;
						}
					}
				}
				if let Some(j) = unmatched {
					problems.push((format!("{tr}:batch:array:no-element-for-{}", entries[j].cls), json!({"entry": entries[j].text, "frame": arrays[0]})));
					continue;
				}
				// differential: a valid call entry sent alone gets the same response object (deterministic handlers)
				for (j, _) in &exp_elems {
					let e = &entries[*j];
					if !["callOk", "callUnknown", "callBadParams", "unsubCall"].contains(&e.cls.as_str()) {
						continue;
					}
					if entries.iter().filter(|o| o.id == e.id).count() > 1 {
						continue; // duplicate ids: the element cannot be attributed by id
					}
					let alone: Option<Value> = if tr == "http" {
						rig.http_json(e.text.as_bytes()).await.json()
					} else {
						ws_exchange(rig, &e.text, "probe-alone", false).await.ok().and_then(|f| f.first().and_then(|t| serde_json::from_str(t).ok()))
					};
					let in_batch = arr.iter().find(|x| Some(&x["id"]) == e.id.as_ref());
					if alone.as_ref() != in_batch {
						problems.push((format!("{tr}:batch:element-differs-from-single-reply:{}", e.cls), json!({"alone": alone, "in_batch": in_batch})));
						break;
					}
				}
				rig.take_log();
			}
			o => panic!("batch reply kind {o}"),
		}
	}
	let probs = problems.into_iter().map(|(key, d)| (key, json!({"case": c, "text": text, "detail": d}))).collect();
	(probs, json!({"text": text}))
}
