//! Concretisation (abstract member classes -> bytes) and projection (reply bytes -> abstract observation) for the
//! server-side wire checks (C01, C02, C19).  The parsing done here is the harness' own (serde_json::Value plus a
//! top-level key scanner), never jsonrpsee types.
use rand::Rng;
use rand::rngs::StdRng;
use serde::de::{IgnoredAny, MapAccess, Visitor};
use serde_json::{Value, json};

pub fn pick<'a>(rng: &mut StdRng, xs: &[&'a str]) -> &'a str {
	xs[rng.random_range(0..xs.len())]
}

/// concrete JSON text of an id of class `cls`; `uniq` makes num/str ids distinct within a connection / batch
pub fn id_text(cls: &str, rng: &mut StdRng, uniq: u64) -> Option<String> {
	Some(match cls {
		"absent" => return None,
		"null" => "null".into(),
		"num" => match rng.random_range(0..6) {
			0 => format!("{}", uniq),
			1 => format!("{}", 4294967296u64 + uniq),
			2 => format!("{}", 9007199254740993u64 + uniq),
			3 => format!("{}", u64::MAX - uniq),
			4 => format!("{}", rng.random::<u64>() | 1 << 40),
			_ => format!("{}", uniq + 1000),
		},
		"str" => match rng.random_range(0..6) {
			0 => format!("\"{}\"", uniq),
			1 => format!("\"id-{}\"", uniq),
			2 => format!("\"\\u00e9\\n\\\"q{}\"", uniq),
			3 => format!("\"\\u0041{}\"", uniq),
			4 => format!("\"{} \u{1F600}\"", uniq),
			_ => {
				if uniq == 0 {
					"\"\"".into()
				} else {
					format!("\"{}\"", "x".repeat(uniq as usize % 40 + 1))
				}
			}
		},
		// (1e400: a number by the JSON grammar that no f64 holds - serde_json reports it as a *syntax* error when it is decoded,
		// but skips over it fine when the member is ignored)
		"bad" => pick(rng, &["-1", "1.0", "1e2", "18446744073709551616", "true", "false", "{}", "[1]", "{\"a\":1}", "-0", "1.5", "1e400", "-1E999"]).into(),
		o => panic!("id class {o}"),
	})
}

pub fn jsonrpc_text(cls: &str, rng: &mut StdRng) -> Option<String> {
	Some(match cls {
		"absent" => return None,
		"v2" => "\"2.0\"".into(),
		"otherStr" => pick(rng, &["\"1.0\"", "\"2\"", "\"2.00\"", "\"\"", "\" 2.0\"", "\"2.0 \""]).into(),
		"nonStr" => pick(rng, &["2", "2.0", "null", "[\"2.0\"]", "{\"v\":\"2.0\"}", "true"]).into(),
		o => panic!("jsonrpc class {o}"),
	})
}

pub fn method_text(cls: &str, rng: &mut StdRng) -> Option<String> {
	Some(match cls {
		"absent" => return None,
		// (the last two are strings by the JSON grammar - an escape naming a lone surrogate - that decode to no Rust string)
		"nonStr" => pick(rng, &["1", "null", "[\"echo\"]", "{\"a\":1}", "true", "\"\\ud800\"", "\"echo\\udfff\""]).into(),
		"unknown" => pick(rng, &["\"nope\"", "\"\"", "\"Echo\"", "\"echo \"", "\"rpc.echo\"", "\"\\u0000\""]).into(),
		"sync" => "\"echo\"".into(),
		"syncEsc" => pick(rng, &["\"ech\\u006f\"", "\"\\u0065cho\"", "\"\\u0065\\u0063\\u0068\\u006f\""]).into(),
		"async" => "\"echo_async\"".into(),
		"blocking" => "\"echo_blocking\"".into(),
		"boom" => "\"boom\"".into(),
		"sub" => "\"sub\"".into(),
		"unsub" => "\"unsub\"".into(),
		o => panic!("method class {o}"),
	})
}

pub fn params_text(cls: &str, rng: &mut StdRng) -> Option<String> {
	Some(match cls {
		"absent" => return None,
		"arrOk" => pick(rng, &["[1,\"x\"]", "[]", "[[1],{\"a\":null}]", "[ 18446744073709551615 , \"a,b]\" ]", "[\"\\u00e9\"]", "[null]"]).into(),
		"arrBad" => pick(rng, &["[\"bad\"]", "[\"bad\",1]", "[ \"bad\" , [] ]"]).into(),
		"objOk" => pick(rng, &["{\"a\":1}", "{}", "{\"a\":{\"b\":[1,2]},\"c\":\"}\"}"]).into(),
		"objBad" => pick(rng, &["{\"bad\":1}", "{\"a\":2,\"bad\":null}"]).into(),
		"scalar" => pick(rng, &["3", "\"s\"", "true", "1.5"]).into(),
		"null" => "null".into(),
		o => panic!("params class {o}"),
	})
}

pub fn blanks(rng: &mut StdRng, n: usize) -> String {
	(0..n).map(|_| [' ', '\t', '\r', '\n'][rng.random_range(0..4)]).collect()
}

/// Builds the object text from present members in a random order with random interior whitespace.
pub fn object_text(members: &[(&str, String)], rng: &mut StdRng) -> String {
	let mut ms: Vec<&(&str, String)> = members.iter().collect();
	for i in (1..ms.len()).rev() {
		ms.swap(i, rng.random_range(0..=i));
	}
	let sp = |rng: &mut StdRng| if rng.random_bool(0.3) { blanks(rng, 1) } else { String::new() };
	let mut s = String::from("{");
	s += &sp(rng);
	for (i, (k, v)) in ms.iter().enumerate() {
		if i > 0 {
			s.push(',');
			s += &sp(rng);
		}
		s += &format!("\"{}\"", k);
		s += &sp(rng);
		s.push(':');
		s += &sp(rng);
		s += v;
		s += &sp(rng);
	}
	s.push('}');
	s
}

#[derive(Debug, Clone)]
pub struct Concrete {
	pub bytes: Vec<u8>,
	pub id: Option<Value>,
	pub params: Option<Value>,
}

/// concretise one abstract single-message object case (Wire.tla `Objects`)
pub fn concretise_object(c: &Value, rng: &mut StdRng, uniq: u64, lead_ws: usize) -> Concrete {
	let mut members: Vec<(&str, String)> = vec![];
	if let Some(t) = jsonrpc_text(c["jsonrpc"].as_str().unwrap(), rng) {
		members.push(("jsonrpc", t));
	}
	let idt = id_text(c["id"].as_str().unwrap(), rng, uniq);
	if let Some(t) = &idt {
		members.push(("id", t.clone()));
	}
	if let Some(t) = method_text(c["method"].as_str().unwrap(), rng) {
		members.push(("method", t));
	}
	let pt = params_text(c["params"].as_str().unwrap(), rng);
	if let Some(t) = &pt {
		members.push(("params", t.clone()));
	}
	if c["extra"].as_bool().unwrap_or(false) {
		members.push((pick(rng, &["extra", "zzz", "result", "Id", "ID", "meta"]), pick(rng, &["{\"a\":[1,2]}", "1", "null", "\"x\"", "[]"]).to_string()));
	}
	let mut text = object_text(&members, rng);
	match c["syntax"].as_str().unwrap_or("ok") {
		"ok" => {}
		"truncated" => {
			// cut somewhere before the closing brace, at a char boundary
			let mut cut = rng.random_range(1..text.len());
			while !text.is_char_boundary(cut) {
				cut -= 1;
			}
			text.truncate(cut.max(1));
		}
		"trailing" => text += pick(rng, &["x", " {}", "]", ",", "}", " 1", "\"\""]),
		o => panic!("syntax {o}"),
	}
	let mut bytes = blanks(rng, lead_ws).into_bytes();
	bytes.extend_from_slice(text.as_bytes());
	Concrete {
		bytes,
		// (an id outside the domain is never compared: a placeholder stands in where serde_json::Value cannot hold it)
		id: idt.map(|t| serde_json::from_str(&t).unwrap_or_else(|_| serde_json::json!({"unrepresentable": t}))),
		params: pt.map(|t| serde_json::from_str(&t).expect("params text is JSON")),
	}
}

pub fn nonobject_bytes(text: &str, rng: &mut StdRng) -> Vec<u8> {
	match text {
		"garbage" => pick(rng, &["hello", "{]", "<xml/>", "{\"jsonrpc\":\"2.0\",", "}{", "\u{feff}{}", "'{}'", "{\"a\"}", "{\u{0}}", "\u{1}\u{2}"]).as_bytes().to_vec(),
		"blank" => {
			let n = rng.random_range(1..40);
			blanks(rng, n).into_bytes()
		}
		"empty" => vec![],
		"number" => pick(rng, &["1", "-3.5", "0"]).as_bytes().to_vec(),
		"string" => pick(rng, &["\"x\"", "\"{}\"", "\"[]\""]).as_bytes().to_vec(),
		"true" => b"true".to_vec(),
		"nullLit" => b"null".to_vec(),
		"brokenUtf8" => {
			let mut v = b"{\"jsonrpc\":\"2.0\",\"id\":1,\"method\":\"ec".to_vec();
			v.extend_from_slice(&[0xff, 0xfe]);
			v.extend_from_slice(b"ho\"}");
			v
		}
		o => panic!("nonobject {o}"),
	}
}

/// top-level member names of a JSON object text, duplicates preserved (serde_json::Value would hide them)
pub fn top_level_keys(text: &str) -> Option<Vec<String>> {
	struct K;
	impl<'de> Visitor<'de> for K {
		type Value = Vec<String>;
		fn expecting(&self, f: &mut std::fmt::Formatter) -> std::fmt::Result {
			f.write_str("object")
		}
		fn visit_map<A: MapAccess<'de>>(self, mut m: A) -> Result<Vec<String>, A::Error> {
			let mut ks = vec![];
			while let Some(k) = m.next_key::<String>()? {
				m.next_value::<IgnoredAny>()?;
				ks.push(k);
			}
			Ok(ks)
		}
	}
	let mut de = serde_json::Deserializer::from_str(text);
	let r = serde::Deserializer::deserialize_map(&mut de, K).ok()?;
	de.end().ok()?;
	Some(r)
}

/// Is `text` one well-formed JSON-RPC 2.0 response object?  Returns the parsed value or what is wrong with it.
pub fn well_formed_response(text: &str) -> Result<Value, String> {
	let v: Value = serde_json::from_str(text).map_err(|e| format!("not-json:{e}"))?;
	let keys = top_level_keys(text).ok_or("not-an-object")?;
	let mut sorted = keys.clone();
	sorted.sort();
	let ok_result = sorted == ["id", "jsonrpc", "result"];
	let ok_error = sorted == ["error", "id", "jsonrpc"];
	if !ok_result && !ok_error {
		return Err(format!("members:{keys:?}"));
	}
	if v["jsonrpc"] != json!("2.0") {
		return Err("jsonrpc-not-2.0".into());
	}
	match &v["id"] {
		Value::Null | Value::String(_) => {}
		Value::Number(n) if n.is_u64() => {}
		o => return Err(format!("id-outside-domain:{o}")),
	}
	if ok_error {
		let e = &v["error"];
		if !e.is_object() || !e["code"].is_i64() || !e["message"].is_string() {
			return Err("error-object-malformed".into());
		}
		let ek = top_level_keys(&e.to_string()).unwrap_or_default();
		if ek.iter().any(|k| !["code", "message", "data"].contains(&k.as_str())) {
			return Err(format!("error-object-members:{ek:?}"));
		}
	}
	Ok(v)
}

/// abstract observation of a reply object against the message it answers
pub fn project_reply(v: &Value, own_id: &Option<Value>) -> Value {
	let idk = if v["id"].is_null() {
		if own_id == &Some(Value::Null) { "own" } else { "null" }
	} else if Some(&v["id"]) == own_id.as_ref() {
		"own"
	} else {
		"foreign"
	};
	if v.get("error").is_some() {
		json!({"n": 1, "kind": "error", "code": v["error"]["code"], "id": idk})
	} else {
		json!({"n": 1, "kind": "result", "id": idk, "result": v["result"]})
	}
}

/// Is `text` something a JSON-RPC 2.0 server may put on the wire: a response object, a non-empty array of response objects,
/// or a notification (`method` + optional `params`, no `id`)?  Returns what is wrong with it.
pub fn emitted_problem(text: &str) -> Option<String> {
	let v: Value = match serde_json::from_str(text) {
		Ok(v) => v,
		Err(_) => return Some("not-json".into()),
	};
	match &v {
		Value::Array(a) if a.is_empty() => Some("empty-array".into()),
		Value::Array(a) => a.iter().find_map(|e| well_formed_response(&e.to_string()).err().map(|w| format!("array-element:{}", w.split(':').next().unwrap_or("")))),
		Value::Object(o) if o.contains_key("method") => {
			if v["jsonrpc"] != json!("2.0") || !v["method"].is_string() || o.contains_key("id") || o.keys().any(|k| !["jsonrpc", "method", "params"].contains(&k.as_str())) {
				Some("notification-malformed".into())
			} else {
				None
			}
		}
		Value::Object(_) => well_formed_response(text).err().map(|w| format!("response:{}", w.split(':').next().unwrap_or(""))),
		Value::Null => Some("bare-null".into()),
		_ => Some("bare-scalar".into()),
	}
}
