//! C10: graceful stop.  Scenarios on the real server (tower service over duplex, or `Server::start` on loopback) with
//! handlers that block on gates: calls are parked in every stage (on the wire, read, executing, finished, enqueued) when
//! `stop()` lands; a watcher logs the instant `stopped()` resolves.  One ndjson trace per scenario for Trace_Server.tla.
use crate::client_rig::Tracer;
use crate::common::*;
use crate::server_rig::*;
use futures_util::io::{BufReader, BufWriter};
use jsonrpsee_server::RpcModule;
use parking_lot::Mutex;
use rand::Rng;
use rand::rngs::StdRng;
use serde_json::{Value, json};
use std::collections::HashMap;
use std::sync::Arc;
use std::time::Duration;
use tokio::io::{AsyncReadExt, AsyncWriteExt};
use tokio::sync::oneshot;
use tokio_util::compat::TokioAsyncReadCompatExt;

const WAIT: Duration = Duration::from_secs(6);

struct Ctx {
	tracer: Tracer,
	gates: Mutex<HashMap<u64, oneshot::Receiver<()>>>,
}

fn module(ctx: Arc<Ctx>) -> RpcModule<Arc<Ctx>> {
	let mut m = RpcModule::new(ctx);
	m.register_async_method("gated", |p, ctx, _| async move {
		let q: u64 = p.one().unwrap_or(0);
		ctx.tracer.ev(json!({"ev": "HStart", "q": q}));
		let gate = ctx.gates.lock().remove(&q);
		if let Some(g) = gate {
			let _ = g.await;
		}
		ctx.tracer.ev(json!({"ev": "HFinish", "q": q}));
		q
	})
	.unwrap();
	// the same, answering with 12 MB: the answer is "produced but not yet handed to the transport" for as long as the peer reads slowly
	m.register_async_method("gated_big", |p, ctx, _| async move {
		let q: u64 = p.one().unwrap_or(0);
		ctx.tracer.ev(json!({"ev": "HStart", "q": q}));
		let gate = ctx.gates.lock().remove(&q);
		if let Some(g) = gate {
			let _ = g.await;
		}
		ctx.tracer.ev(json!({"ev": "HFinish", "q": q}));
		"x".repeat(12 << 20)
	})
	.unwrap();
	// 3 MB: more than a duplex pipe of 1 MiB holds, quick to serialise
	m.register_async_method("gated_mid", |p, ctx, _| async move {
		let q: u64 = p.one().unwrap_or(0);
		ctx.tracer.ev(json!({"ev": "HStart", "q": q}));
		let gate = ctx.gates.lock().remove(&q);
		if let Some(g) = gate {
			let _ = g.await;
		}
		ctx.tracer.ev(json!({"ev": "HFinish", "q": q}));
		"x".repeat(3 << 20)
	})
	.unwrap();
	// a subscribe call: its answer is the response that accepts the subscription, handed to the connection by `accept`
	m.register_subscription("gated_sub", "gated_notif", "gated_unsub", |p, pending, ctx, _| async move {
		let q: u64 = p.one().unwrap_or(0);
		ctx.tracer.ev(json!({"ev": "HStart", "q": q}));
		let gate = ctx.gates.lock().remove(&q);
		if let Some(g) = gate {
			let _ = g.await;
		}
		ctx.tracer.ev(json!({"ev": "HFinish", "q": q}));
		let _ = pending.accept().await;
	})
	.unwrap();
	m
}

/// A subscribe call whose handler accepts after `stop()` while the connection's outbound side is saturated: a 3 MB answer
/// blocks the writer on a peer that is not reading, a small answer fills the one buffer slot, the subscribe handler (call 6,
/// started before the stop) then has to wait for room in `accept`.  The peer stays connected and reads on: every answer,
/// the subscribe call's included, must arrive before the connection ends and `stopped()` resolves.
async fn sub_pressure_scenario(sc: usize) -> Vec<Value> {
	let tracer = Tracer::default();
	let ctx = Arc::new(Ctx { tracer: tracer.clone(), gates: Mutex::new(HashMap::new()) });
	let methods: jsonrpsee_server::Methods = module(ctx.clone()).into();
	tracer.ev(json!({"ev": "Reset", "sc": sc, "limit": 10, "rig": "tower", "ping": false, "sub_pressure": true}));
	let cfg = RigCfg { buf_cap: 1, max_conns: 10, max_resp: 64 << 20, ..Default::default() };
	let rig = Rig::with_methods(cfg, Default::default(), methods);
	let (stop, handle) = jsonrpsee_server::stop_channel();
	let mut mode = Mode::Tower { rig, stop: Some(stop) };
	let mut gate_tx: HashMap<u64, oneshot::Sender<()>> = HashMap::new();
	for q in [1u64, 2, 6] {
		let (tx, rx) = oneshot::channel();
		ctx.gates.lock().insert(q, rx);
		gate_tx.insert(q, tx);
	}
	let t2 = tracer.clone();
	let h2 = handle.clone();
	let watcher = tokio::spawn(async move {
		h2.stopped().await;
		t2.ev(json!({"ev": "StoppedResolved"}));
	});
	let done = |tracer: Tracer, handle| {
		drop(handle);
		tracer.ev(json!({"ev": "End"}));
		tracer.take()
	};
	let Some(client_io) = mode.connect().await else { return done(tracer, handle) };
	let mut client = soketto::handshake::Client::new(BufReader::new(BufWriter::new(client_io.compat())), "localhost", "/");
	if !matches!(client.handshake().await, Ok(soketto::handshake::ServerResponse::Accepted { .. })) {
		return done(tracer, handle);
	}
	tracer.ev(json!({"ev": "Open", "c": 1}));
	let (mut tx, mut rx) = client.into_builder().finish();
	let has = |t: &Tracer, ev: &str, q: u64| t.0.lock().iter().any(|e| e["ev"] == ev && e["q"] == q);
	let wait_for = |ev: &'static str, q: u64| {
		let t = tracer.clone();
		async move {
			for _ in 0..1000 {
				if has(&t, ev, q) {
					return;
				}
				tokio::time::sleep(Duration::from_millis(2)).await;
			}
		}
	};
	// the peer does not read; call 1 is answered with 3 MB (the writer blocks in the middle of it), call 2's answer fills the slot
	for (q, method) in [(1u64, "gated_mid"), (2, "gated")] {
		tracer.ev(json!({"ev": "PeerSend", "q": q}));
		let _ = tx.send_text(format!(r#"{{"jsonrpc":"2.0","id":{q},"method":"{method}","params":[{q}]}}"#)).await;
		let _ = tx.flush().await;
		wait_for("HStart", q).await;
		if let Some(g) = gate_tx.remove(&q) {
			let _ = g.send(());
		}
		wait_for("HFinish", q).await;
		// (time for the answer to be serialised, queued and - call 1 - taken by the writer, which then blocks on the full pipe)
		tokio::time::sleep(Duration::from_millis(if q == 1 { 150 } else { 30 })).await;
	}
	// the subscribe call: its handler starts and parks at its gate; then the stop; then the handler goes on into `accept`
	tracer.ev(json!({"ev": "PeerSend", "q": 6}));
	let _ = tx.send_text(r#"{"jsonrpc":"2.0","id":6,"method":"gated_sub","params":[6]}"#).await;
	let _ = tx.flush().await;
	wait_for("HStart", 6).await;
	tracer.ev(json!({"ev": "Stop"}));
	let _ = handle.stop();
	if let Mode::Tower { stop, .. } = &mut mode {
		drop(stop.take());
	}
	tokio::time::sleep(Duration::from_millis(5)).await;
	if let Some(g) = gate_tx.remove(&6) {
		let _ = g.send(());
	}
	wait_for("HFinish", 6).await;
	tokio::time::sleep(Duration::from_millis(30)).await;
	// now the peer reads everything there is
	let t3 = tracer.clone();
	let reader = tokio::spawn(async move {
		loop {
			let mut data = Vec::new();
			match rx.receive(&mut data).await {
				Ok(soketto::Incoming::Data(_)) => {
					let v: Value = serde_json::from_slice(&data).unwrap_or(Value::Null);
					t3.ev(json!({"ev": "Recv", "q": v["id"]}));
				}
				Ok(soketto::Incoming::Pong(_)) => {}
				Ok(soketto::Incoming::Closed(_)) => {
					t3.ev(json!({"ev": "Eof", "c": 1}));
					break;
				}
				Err(e) => {
					t3.ev(json!({"ev": "Eof", "c": 1, "err": format!("{e:?}")}));
					break;
				}
			}
		}
	});
	if tokio::time::timeout(WAIT, reader).await.is_err() {
		tracer.ev(json!({"ev": "Timeout", "what": "peer never saw EOF after stop"}));
	}
	if tokio::time::timeout(WAIT, watcher).await.is_err() {
		tracer.ev(json!({"ev": "Timeout", "what": "stopped() did not resolve"}));
	}
	drop(tx);
	done(tracer, handle)
}

pub fn run(nscen: usize, out_path: &str) {
	let rt = tokio::runtime::Builder::new_multi_thread().worker_threads(4).enable_all().build().unwrap();
	let mut outf = crate::common::Out::create(out_path);
	let only: Option<usize> = std::env::var("VH_ONLY_SC").ok().and_then(|s| s.parse().ok());
	for sc in 0..nscen {
		if only.is_some_and(|o| o != sc) {
			continue;
		}
		let mut rng = rng_for(sc, 10);
		let evs = if sc % 12 == 7 { rt.block_on(sub_pressure_scenario(sc)) } else { rt.block_on(scenario(&mut rng, sc)) };
		for e in evs {
			outf.raw(&e);
		}
	}
	outf.finish();
}

fn conn_of(q: u64) -> u64 {
	match q {
		1 | 2 => 1,
		3 | 4 => 2,
		_ => 3,
	}
}

pub trait Io: tokio::io::AsyncRead + tokio::io::AsyncWrite + Unpin + Send {}
impl<T: tokio::io::AsyncRead + tokio::io::AsyncWrite + Unpin + Send> Io for T {}
type BoxIo = Box<dyn Io>;
type WsTx = soketto::Sender<BufReader<BufWriter<tokio_util::compat::Compat<BoxIo>>>>;

/// how the server of a scenario is assembled
enum Mode {
	/// the tower service over in-process duplex connections, one stop channel shared by all of them
	Tower { rig: Rig, stop: Option<jsonrpsee_server::StopHandle> },
	/// `Server::start` on a loopback listener: the real accept loop
	Server { addr: std::net::SocketAddr },
}
impl Mode {
	async fn connect(&self) -> Option<BoxIo> {
		match self {
			Mode::Tower { rig, stop } => {
				let stop = stop.as_ref()?;
				let svc = rig.svc(stop.clone());
				let (client_io, server_io) = tokio::io::duplex(1 << 20);
				let stopped = stop.clone().shutdown();
				tokio::spawn(async move {
					let _ = jsonrpsee_server::serve_with_graceful_shutdown(server_io, svc, stopped).await;
				});
				Some(Box::new(client_io))
			}
			Mode::Server { addr } => tokio::net::TcpStream::connect(addr).await.ok().map(|s| Box::new(s) as BoxIo),
		}
	}
}

async fn pause(rng_n: u8) {
	for _ in 0..rng_n {
		tokio::task::yield_now().await;
	}
	if rng_n > 3 {
		tokio::time::sleep(Duration::from_micros(100 * rng_n as u64)).await;
	}
}

async fn scenario(rng: &mut StdRng, sc: usize) -> Vec<Value> {
	let tracer = Tracer::default();
	let ctx = Arc::new(Ctx { tracer: tracer.clone(), gates: Mutex::new(HashMap::new()) });
	let methods: jsonrpsee_server::Methods = module(ctx.clone()).into();
	let use_server = sc % 3 == 2;
	tracer.ev(json!({"ev": "Reset", "sc": sc, "limit": 10, "rig": if use_server { "Server::start" } else { "tower" }, "ping": sc % 4 == 1}));
	// a quarter of the scenarios run with WebSocket pings every few milliseconds (the peers answer them while they read): the
	// graceful drain then sees Pong frames while it waits for the handlers
	let pinging = sc % 4 == 1;
	// On the listener path, every other scenario is "one slow HTTP reader and nothing else": a 12 MB answer that the peer reads
	// only after the stop - the answer is produced, not yet handed to the transport, and no other connection is open
	let big_http = use_server && sc % 6 == 5;
	let cfg = RigCfg { buf_cap: 1, max_conns: 10, max_resp: 64 << 20, ping_ms: if pinging { Some((3, 60_000)) } else { None }, ..Default::default() };
	let (mut mode, handle) = if use_server {
		let server = jsonrpsee_server::Server::builder().set_config(cfg.server_config()).build("127.0.0.1:0").await.expect("bind loopback");
		let addr = server.local_addr().unwrap();
		let handle = server.start(methods);
		(Mode::Server { addr }, handle)
	} else {
		let rig = Rig::with_methods(cfg, Default::default(), methods);
		// one stop channel for the whole "server" of this scenario
		let (stop, handle) = jsonrpsee_server::stop_channel();
		(Mode::Tower { rig, stop: Some(stop) }, handle)
	};
	let mut gate_tx: HashMap<u64, oneshot::Sender<()>> = HashMap::new();
	for q in 1..=5u64 {
		let (tx, rx) = oneshot::channel();
		ctx.gates.lock().insert(q, rx);
		gate_tx.insert(q, tx);
	}
	// watcher for `stopped()`
	let t2 = tracer.clone();
	let h2 = handle.clone();
	let watcher = tokio::spawn(async move {
		h2.stopped().await;
		t2.ev(json!({"ev": "StoppedResolved"}));
	});
	// ---- connections
	let n_ws = if big_http { 0 } else { rng.random_range(1..3u64) };
	let with_http = big_http || rng.random_bool(0.6);
	let mut ws_tx: HashMap<u64, WsTx> = HashMap::new();
	let mut readers = vec![];
	for c in 1..=n_ws {
		let Some(client_io) = mode.connect().await else { continue };
		let mut client = soketto::handshake::Client::new(BufReader::new(BufWriter::new(client_io.compat())), "localhost", "/");
		if !matches!(client.handshake().await, Ok(soketto::handshake::ServerResponse::Accepted { .. })) {
			continue;
		}
		tracer.ev(json!({"ev": "Open", "c": c}));
		let (tx, mut rx) = client.into_builder().finish();
		ws_tx.insert(c, tx);
		// some peers withhold reading for a while: responses stay "answered but unsent" longer
		let hold = if !pinging && rng.random_bool(0.3) { rng.random_range(1..6u64) } else { 0 };
		let t3 = tracer.clone();
		readers.push(tokio::spawn(async move {
			if hold > 0 {
				tokio::time::sleep(Duration::from_millis(hold)).await;
			}
			loop {
				let mut data = Vec::new();
				match rx.receive(&mut data).await {
					Ok(soketto::Incoming::Data(_)) => {
						let v: Value = serde_json::from_slice(&data).unwrap_or(Value::Null);
						t3.ev(json!({"ev": "Recv", "q": v["id"]}));
					}
					Ok(soketto::Incoming::Pong(_)) => {}
					// the server's close frame: everything it wrote before has been read
					Ok(soketto::Incoming::Closed(_)) => {
						t3.ev(json!({"ev": "Eof", "c": c}));
						break;
					}
					Err(e) => {
						// No close frame seen.  With pings on, soketto answers each ping from inside `receive`; a pong written after
						// the server has closed its socket fails (duplex: broken pipe with answers still unread in the pipe) or
						// triggers a TCP reset that discards what the peer has not read yet - the peer's own doing, not an answer
						// the server failed to hand to its transport.  Without pings the peer writes nothing on its own and a
						// stream that ends without a close frame is reported as it is.
						t3.ev(json!({"ev": if pinging { "EofAbort" } else { "Eof" }, "c": c, "err": format!("{e:?}")}));
						break;
					}
				}
			}
		}));
	}
	// ---- the driver's plan: a random interleaving of sends, gate openings, the HTTP request and one stop
	let mut calls: Vec<u64> = (1..=4u64).filter(|q| ws_tx.contains_key(&conn_of(*q))).collect();
	calls.retain(|_| rng.random_bool(0.85));
	#[derive(Debug, Clone)]
	enum Act {
		Send(u64),
		Gate(u64),
		Http,
		Stop,
	}
	let mut plan: Vec<Act> = vec![];
	for q in &calls {
		plan.push(Act::Send(*q));
		plan.push(Act::Gate(*q));
	}
	if with_http {
		plan.push(Act::Http);
		plan.push(Act::Gate(5));
	}
	plan.push(Act::Stop);
	// shuffle, keeping Send(q) before Gate(q) and Http before Gate(5)
	for i in (1..plan.len()).rev() {
		plan.swap(i, rng.random_range(0..=i));
	}
	let pos = |p: &Vec<Act>, pred: &dyn Fn(&Act) -> bool| p.iter().position(|a| pred(a));
	for q in (1..=5u64).collect::<Vec<_>>() {
		let s = pos(&plan, &|a| matches!(a, Act::Send(x) if *x == q) || (q == 5 && matches!(a, Act::Http)));
		let g = pos(&plan, &|a| matches!(a, Act::Gate(x) if *x == q));
		if let (Some(s), Some(g)) = (s, g) {
			if g < s {
				plan.swap(s, g);
			}
		}
	}
	if big_http {
		plan = vec![Act::Http, Act::Gate(5), Act::Stop];
	}
	let (resume_tx, resume_rx) = oneshot::channel::<()>();
	let mut resume_tx = Some(resume_tx);
	let mut resume_rx = Some(resume_rx);
	let mut stopped_requested = false;
	let mut http_task = None;
	for act in plan {
		pause(rng.random_range(0..6)).await;
		match act {
			Act::Send(q) => {
				if let Some(tx) = ws_tx.get_mut(&conn_of(q)) {
					tracer.ev(json!({"ev": "PeerSend", "q": q}));
					let ok = tx.send_text(format!(r#"{{"jsonrpc":"2.0","id":{q},"method":"gated","params":[{q}]}}"#)).await.is_ok() && tx.flush().await.is_ok();
					if !ok {
						tracer.ev(json!({"ev": "PeerSendFailed", "q": q}));
					}
				}
			}
			Act::Gate(q) => {
				if let Some(g) = gate_tx.remove(&q) {
					let _ = g.send(());
				}
				if big_http {
					tokio::time::sleep(Duration::from_millis(150)).await;
				}
			}
			Act::Http => {
				if stopped_requested {
					continue; // the driver does not open new connections after its own stop (that is the after-stop probe's job)
				}
				let client: Option<BoxIo> = if big_http {
					// a peer with a small receive buffer that reads slowly
					match &mode {
						Mode::Server { addr } => {
							let sock = tokio::net::TcpSocket::new_v4().unwrap();
							let _ = sock.set_recv_buffer_size(16 * 1024);
							sock.connect(*addr).await.ok().map(|s| Box::new(s) as BoxIo)
						}
						_ => mode.connect().await,
					}
				} else {
					mode.connect().await
				};
				let Some(mut client) = client else { continue };
				tracer.ev(json!({"ev": "Open", "c": 3}));
				tracer.ev(json!({"ev": "PeerSend", "q": 5}));
				let body = format!(r#"{{"jsonrpc":"2.0","id":5,"method":"{}","params":[5]}}"#, if big_http { "gated_big" } else { "gated" });
				let req = format!("POST / HTTP/1.1\r\nHost: localhost\r\nContent-Type: application/json\r\nContent-Length: {}\r\n\r\n{}", body.len(), body);
				let _ = client.write_all(req.as_bytes()).await;
				let t4 = tracer.clone();
				let wait_for = if big_http { resume_rx.take() } else { None };
				http_task = Some(tokio::spawn(async move {
					let mut buf: Vec<u8> = vec![];
					let mut chunk = vec![0u8; 65536];
					let mut wait_for = wait_for;
					let mut complete = false;
					loop {
						match tokio::time::timeout(WAIT, client.read(&mut chunk)).await {
							Ok(Ok(n)) if n > 0 => {
								buf.extend_from_slice(&chunk[..n]);
								// the answer has been received when the whole body announced by Content-Length is there
								if let Some(h) = buf.windows(4).position(|w| w == b"\r\n\r\n") {
									let head = String::from_utf8_lossy(&buf[..h]).to_ascii_lowercase();
									let cl: Option<usize> = head.lines().find_map(|l| l.strip_prefix("content-length:").and_then(|v| v.trim().parse().ok()));
									if !complete && cl.is_some_and(|cl| buf.len() >= h + 4 + cl) {
										complete = true;
										t4.ev(json!({"ev": "Recv", "q": 5}));
									}
								}
								if let Some(w) = wait_for.take() {
									// the slow reader: it has the beginning of the answer and takes its time over the rest
									let _ = w.await;
								}
							}
							_ => break,
						}
					}
					t4.ev(json!({"ev": "Eof", "c": 3, "bytes": buf.len(), "complete": complete}));
				}));
			}
			Act::Stop => {
				stopped_requested = true;
				tracer.ev(json!({"ev": "Stop"}));
				let _ = handle.stop();
				// the harness' own clone of the stop handle must go, otherwise `stopped()` can never resolve
				if let Mode::Tower { stop, .. } = &mut mode {
					drop(stop.take());
				}
				if rng.random_bool(0.5) {
					let r = handle.stop();
					tracer.ev(json!({"ev": "StopAgain", "ok": r.is_ok()}));
				}
				if pinging {
					// let a few ping/pong rounds pass while the connections drain
					tokio::time::sleep(Duration::from_millis(15)).await;
				}
				if big_http {
					tokio::time::sleep(Duration::from_millis(250)).await;
					if let Some(r) = resume_tx.take() {
						let _ = r.send(());
					}
				}
			}
		}
	}
	if let Some(r) = resume_tx.take() {
		let _ = r.send(());
	}
	// open every gate that is still closed, read everything, wait for `stopped`
	pause(rng.random_range(0..6)).await;
	for (_, g) in gate_tx.drain() {
		let _ = g.send(());
	}
	for r in readers {
		if tokio::time::timeout(WAIT, r).await.is_err() {
			tracer.ev(json!({"ev": "Timeout", "what": "peer never saw EOF after stop"}));
		}
	}
	if let Some(h) = http_task {
		let _ = tokio::time::timeout(WAIT, h).await;
	}
	if tokio::time::timeout(WAIT, watcher).await.is_err() {
		tracer.ev(json!({"ev": "Timeout", "what": "stopped() did not resolve"}));
	}
	// ---- after `stopped`: nothing new may be executed
	for (c, tx) in ws_tx.iter_mut() {
		let q = if *c == 1 { 1 } else { 3 };
		let _ = tx.send_text(format!(r#"{{"jsonrpc":"2.0","id":9{q},"method":"gated","params":[{q}]}}"#)).await;
		let _ = tx.flush().await;
	}
	tokio::time::sleep(Duration::from_millis(3)).await;
	drop(handle);
	tracer.ev(json!({"ev": "End"}));
	tracer.take()
}
