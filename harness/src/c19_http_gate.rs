//! C19: HTTP method / content-type gate and body framing independence, through the tower service with explicit frames.
use crate::common::*;
use crate::server_rig::*;
use rand::Rng;
use serde_json::{Value, json};

const SPELLINGS: [&str; 6] = [
	"application/json",
	"application/json; charset=utf-8",
	"application/json;charset=utf-8",
	"application/json-rpc",
	"application/json-rpc;charset=utf-8",
	"application/json-rpc; charset=utf-8",
];
const CALL: &str = r#"{"jsonrpc":"2.0","id":1,"method":"echo","params":["a b",{"k":[1,2]}]}"#;

fn content_type_headers(ct: &Value, rng: &mut rand::rngs::StdRng) -> Vec<(String, String)> {
	let one = |v: String| vec![("content-type".to_string(), v)];
	match ct["cls"].as_str().unwrap() {
		"accepted" => {
			let s = SPELLINGS[ct["spelling"].as_u64().unwrap() as usize - 1];
			let v: String = match ct["casing"].as_str().unwrap() {
				"lower" => s.to_string(),
				"upper" => s.to_ascii_uppercase(),
				_ => s.chars().map(|c| if rng.random_bool(0.5) { c.to_ascii_uppercase() } else { c }).collect(),
			};
			one(v)
		}
		"notJson" => match ct["form"].as_str().unwrap() {
			"missing" => vec![],
			"empty" => one("".into()),
			"textPlain" => one("text/plain".into()),
			"textJson" => one("text/json".into()),
			"appXml" => one("application/xml".into()),
			"jsonrequest" => one("application/jsonrequest".into()),
			"leadingBlank" => one(" application/json".into()),
			"trailingBlank" => one("application/json ".into()),
			_ => one(["application/json-patch+json", "application/jsonx", "application/json;", "json", "application/ json"][rng.random_range(0..5)].into()),
		},
		_ => match ct["form"].as_str().unwrap() {
			"utf16" => one("application/json; charset=utf-16".into()),
			"extraParam" => one("application/json; charset=utf-8; boundary=x".into()),
			"commaJoined" => one("application/json, application/json".into()),
			_ => vec![("content-type".into(), "application/json".into()), ("content-type".into(), "application/json".into())],
		},
	}
}

fn body_of(cls: &str, rng: &mut rand::rngs::StdRng) -> (Vec<u8>, usize) {
	// returns bytes and the length of the leading-whitespace prefix
	match cls {
		"call" => (CALL.as_bytes().to_vec(), 0),
		"notif" => (br#"{"jsonrpc":"2.0","method":"echo","params":[1]}"#.to_vec(), 0),
		"batch" => (br#"[{"jsonrpc":"2.0","id":1,"method":"echo"},{"jsonrpc":"2.0","id":2,"method":"nope"}]"#.to_vec(), 0),
		"wsCall" => {
			let l = [1usize, 3, 60, 120][rng.random_range(0..4)];
			let mut b = crate::wire::blanks(rng, l).into_bytes();
			b.extend_from_slice(br#"{"jsonrpc":"2.0","id":"x","method":"echo_async","params":{"a":1}}"#);
			(b, l)
		}
		"invalid" => (br#"{"jsonrpc":"2.0","id":5}"#.to_vec(), 0),
		_ => (b"hello world, not json".to_vec(), 0),
	}
}

fn classify(r: &HttpReply) -> String {
	if r.body.is_empty() || r.body == b"null" {
		return format!("ack-{}", r.status);
	}
	match r.json() {
		Some(Value::Array(_)) => "array".into(),
		Some(v) if v.get("result").is_some() => "result".into(),
		Some(v) if v.get("error").is_some() => format!("e{}", -v["error"]["code"].as_i64().unwrap_or(0)),
		_ => format!("status-{}", r.status),
	}
}

pub fn replay(cases: &[Value], out: &mut Out) {
	let rt = tokio::runtime::Builder::new_multi_thread().worker_threads(4).enable_all().build().unwrap();
	rt.block_on(async {
		let rig = Rig::new(RigCfg::default());
		let small = Rig::new(RigCfg { max_req: 256, ..Default::default() });
		for (i, c) in cases.iter().enumerate() {
			for k in 0..k_concretisations() {
				let mut rng = rng_for(i, k);
				let mut probs: Vec<(String, Value)> = vec![];
				if c.get("allowed").is_some() {
					// ---- gate case
					let m = c["case"]["method"].as_str().unwrap();
					let hs = content_type_headers(&c["case"]["ct"], &mut rng);
					rig.take_log();
					let valid_hdrs = hs.iter().all(|(_, v)| http::HeaderValue::from_str(v).is_ok());
					if !valid_hdrs {
						out.verdict(i, k, None, json!({"skipped": "header value not representable"}));
						continue;
					}
					// the body the request carries (the verdict of a refusal must not depend on it) and its framing
					let gbody = c["case"]["body"].as_str().unwrap_or("call");
					let (use_rig, frames): (&Rig, Vec<Vec<u8>>) = match gbody {
						"garbage" => (&rig, vec![b"hello world, ".to_vec(), b"not json".to_vec()]),
						"empty" => (&rig, vec![]),
						"blank" => (&rig, vec![b" \n".to_vec(), b"  ".to_vec()]),
						"oversize" => (&small, vec![vec![b' '; 150], format!(r#"{{"jsonrpc":"2.0","id":1,"method":"echo","params":["{}"]}}"#, "x".repeat(400)).into_bytes()]),
						_ => (&rig, vec![CALL.as_bytes().to_vec()]),
					};
					let mut hs = hs;
					if c["case"]["cl"] == json!(true) && gbody != "call" {
						hs.push(("content-length".into(), frames.iter().map(|f| f.len()).sum::<usize>().to_string()));
					}
					use_rig.take_log();
					let r = use_rig.http(m, &hs, frames).await;
					let log = use_rig.take_log();
					let allowed: Vec<&str> = c["allowed"].as_array().unwrap().iter().map(|a| a.as_str().unwrap()).collect();
					let got = match r.status {
						200 => "rpc".to_string(),
						s => s.to_string(),
					};
					let ctc = c["case"]["ct"]["cls"].as_str().unwrap();
					if !allowed.contains(&got.as_str()) {
						probs.push((format!("gate:{}:{ctc}:body-{gbody}:exp-{}-got-{got}", if m == "POST" { "POST" } else { "other-method" }, allowed.join("|")), json!({"headers": hs, "status": r.status})));
					}
					if got == "rpc" {
						if classify(&r) != "result" || log.len() != 1 {
							probs.push((format!("gate:rpc-reached-but-no-result"), json!({"body": String::from_utf8_lossy(&r.body), "log": log})));
						}
					} else if !log.is_empty() {
						probs.push((format!("gate:handler-ran-for-refused-request"), json!({"status": r.status, "log": log})));
					}
					let d = json!({"case": c, "problems": probs.iter().map(|p| p.1.clone()).collect::<Vec<_>>()});
					out.problems(i, k, probs.into_iter().map(|(k2, _)| (k2, d.clone())).collect(), Value::Null);
					continue;
				}
				// ---- chunk case
				let (body, lead) = body_of(c["case"]["body"].as_str().unwrap(), &mut rng);
				let n = body.len();
				let mut cutpos = vec![if lead > 0 { lead } else { 1 }, n / 3, n / 2, n - 1, rng.random_range(2..n - 1)];
				// keep cut j meaningful and strictly inside the body
				for p in cutpos.iter_mut() {
					*p = (*p).clamp(1, n - 1);
				}
				let mut cuts: Vec<usize> = c["case"]["cuts"].as_array().unwrap().iter().map(|j| cutpos[j.as_u64().unwrap() as usize - 1]).collect();
				cuts.sort();
				cuts.dedup();
				// cut 1 must stay the first boundary for the whitespace-prefix body
				let mut pieces: Vec<Vec<u8>> = vec![];
				let mut prev = 0;
				for p in cuts.iter().chain(std::iter::once(&n)) {
					pieces.push(body[prev..*p].to_vec());
					prev = *p;
				}
				let frames_spec = c["frames"].as_array().unwrap();
				let mut frames: Vec<Vec<u8>> = vec![];
				let mut pi = 0;
				for f in frames_spec {
					match f["k"].as_str().unwrap() {
						"piece" => {
							if pi < pieces.len() {
								frames.push(pieces[pi].clone());
								pi += 1;
							}
						}
						"empty" => frames.push(vec![]),
						_ => frames.push(b" \n ".to_vec()),
					}
				}
				while pi < pieces.len() {
					// deduplicated cuts produced fewer pieces than the abstract case has: append the rest
					frames.push(pieces[pi].clone());
					pi += 1;
				}
				let concat: Vec<u8> = frames.iter().flatten().cloned().collect();
				let mut hs = vec![("content-type".to_string(), "application/json".to_string())];
				if c["case"]["cl"] == json!(true) {
					hs.push(("content-length".into(), concat.len().to_string()));
				}
				rig.take_log();
				let r = rig.http("POST", &hs, frames.clone()).await;
				let log = rig.take_log();
				let r1 = rig.http("POST", &hs, vec![concat.clone()]).await;
				let log1 = rig.take_log();
				let bodyc = c["case"]["body"].as_str().unwrap();
				let ins = c["case"]["ins"]["k"].as_str().unwrap();
				let firstblank = frames.first().map(|f| f.iter().all(|b| b.is_ascii_whitespace())).unwrap_or(false);
				let ctx = if firstblank { "first-frame-blank" } else if ins != "none" { "blank-frame-later" } else { "plain-split" };
				if r.status != r1.status || r.body != r1.body || log != log1 {
					probs.push((
						format!("chunks:{ctx}:answer-differs-from-single-chunk:{}-vs-{}", classify(&r), classify(&r1)),
						json!({"frames": frames.iter().map(|f| String::from_utf8_lossy(f).into_owned()).collect::<Vec<_>>(), "chunked": [r.status, String::from_utf8_lossy(&r.body)], "single": [r1.status, String::from_utf8_lossy(&r1.body)]}),
					));
				}
				let exp = c["answer"].as_str().unwrap();
				if exp != "differential" {
					let want = match exp {
						"ack" => "ack-200".to_string(),
						"e32700" => "e32700".to_string(),
						o => o.to_string(),
					};
					let got = classify(&r1);
					if got != want {
						probs.push((format!("chunks:single-chunk-answer:{bodyc}:exp-{want}-got-{got}"), json!({"body": String::from_utf8_lossy(&concat)})));
					}
				}
				let d = json!({"case": c, "problems": probs.iter().map(|p| p.1.clone()).collect::<Vec<_>>()});
				out.problems(i, k, probs.into_iter().map(|(k2, _)| (k2, d.clone())).collect(), Value::Null);
			}
		}
	});
}
