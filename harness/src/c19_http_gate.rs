//! C19: HTTP method / content-type gate and body framing independence, through the tower service with explicit frames.
use crate::common::*;
use crate::server_rig::*;
use rand::Rng;
use serde_json::{Value, json};

const SPELLINGS: [&str; 6] = [
	"application/json",
	"application/json; charset=utf-8",
	"application/json;charset=utf-8",
	"application/json-rpc",
	"application/json-rpc;charset=utf-8",
	"application/json-rpc; charset=utf-8",
];
const CALL: &str = r#"{"jsonrpc":"2.0","id":1,"method":"echo","params":["a b",{"k":[1,2]}]}"#;

fn content_type_headers(ct: &Value, rng: &mut rand::rngs::StdRng) -> Vec<(String, String)> {
	let one = |v: String| vec![("content-type".to_string(), v)];
	match ct["cls"].as_str().unwrap() {
		"accepted" => {
			let s = SPELLINGS[ct["spelling"].as_u64().unwrap() as usize - 1];
			let v: String = match ct["casing"].as_str().unwrap() {
				"lower" => s.to_string(),
				"upper" => s.to_ascii_uppercase(),
				_ => s.chars().map(|c| if rng.random_bool(0.5) { c.to_ascii_uppercase() } else { c }).collect(),
			};
			one(v)
		}
		"notJson" => match ct["form"].as_str().unwrap() {
			"missing" => vec![],
			"empty" => one("".into()),
			"textPlain" => one("text/plain".into()),
			"textJson" => one("text/json".into()),
			"appXml" => one("application/xml".into()),
			"jsonrequest" => one("application/jsonrequest".into()),
			"leadingBlank" => one(" application/json".into()),
			"trailingBlank" => one("application/json ".into()),
			_ => one(["application/json-patch+json", "application/jsonx", "application/json;", "json", "application/ json"][rng.random_range(0..5)].into()),
		},
		_ => match ct["form"].as_str().unwrap() {
			"utf16" => one("application/json; charset=utf-16".into()),
			"extraParam" => one("application/json; charset=utf-8; boundary=x".into()),
			"commaJoined" => one("application/json, application/json".into()),
			_ => vec![("content-type".into(), "application/json".into()), ("content-type".into(), "application/json".into())],
		},
	}
}

fn body_of(cls: &str, rng: &mut rand::rngs::StdRng) -> (Vec<u8>, usize) {
	// returns bytes and the length of the leading-whitespace prefix
	match cls {
		"call" => (CALL.as_bytes().to_vec(), 0),
		"notif" => (br#"{"jsonrpc":"2.0","method":"echo","params":[1]}"#.to_vec(), 0),
		"batch" => (br#"[{"jsonrpc":"2.0","id":1,"method":"echo"},{"jsonrpc":"2.0","id":2,"method":"nope"}]"#.to_vec(), 0),
		"wsCall" => {
			let l = [1usize, 3, 60, 120][rng.random_range(0..4)];
			let mut b = crate::wire::blanks(rng, l).into_bytes();
			b.extend_from_slice(br#"{"jsonrpc":"2.0","id":"x","method":"echo_async","params":{"a":1}}"#);
			(b, l)
		}
		"invalid" => (br#"{"jsonrpc":"2.0","id":5}"#.to_vec(), 0),
		_ => (b"hello world, not json".to_vec(), 0),
	}
}

fn classify(r: &HttpReply) -> String {
	if r.body.is_empty() || r.body == b"null" {
		return format!("ack-{}", r.status);
	}
	match r.json() {
		Some(Value::Array(_)) => "array".into(),
		Some(v) if v.get("result").is_some() => "result".into(),
		Some(v) if v.get("error").is_some() => format!("e{}", -v["error"]["code"].as_i64().unwrap_or(0)),
		_ => format!("status-{}", r.status),
	}
}

pub fn replay(cases: &[Value], out: &mut Out) {
	let rt = tokio::runtime::Builder::new_multi_thread().worker_threads(4).enable_all().build().unwrap();
	rt.block_on(async {
		let rig = Rig::new(RigCfg::default());
		let small = Rig::new(RigCfg { max_req: 256, ..Default::default() });
		let stacks = [stack_rig("both"), stack_rig("httpOnly"), stack_rig("wsOnly")];
		for (i, c) in cases.iter().enumerate() {
			for k in 0..k_concretisations() {
				let mut rng = rng_for(i, k);
				let mut probs: Vec<(String, Value)> = vec![];
				if c.get("cfg").is_some() {
					let stack = stacks.iter().find(|r| c["mode"] == json!(r.cfg.mode)).expect("mode");
					stack_case(stack, i, k, c, &mut rng, out).await;
					continue;
				}
				if c.get("allowed").is_some() {
					// ---- gate case
					let m = c["case"]["method"].as_str().unwrap();
					let hs = content_type_headers(&c["case"]["ct"], &mut rng);
					rig.take_log();
					let valid_hdrs = hs.iter().all(|(_, v)| http::HeaderValue::from_str(v).is_ok());
					if !valid_hdrs {
						out.verdict(i, k, None, json!({"skipped": "header value not representable"}));
						continue;
					}
					// the body the request carries (the verdict of a refusal must not depend on it) and its framing
					let gbody = c["case"]["body"].as_str().unwrap_or("call");
					let (use_rig, frames): (&Rig, Vec<Vec<u8>>) = match gbody {
						"garbage" => (&rig, vec![b"hello world, ".to_vec(), b"not json".to_vec()]),
						"empty" => (&rig, vec![]),
						"blank" => (&rig, vec![b" \n".to_vec(), b"  ".to_vec()]),
						"oversize" => (&small, vec![vec![b' '; 150], format!(r#"{{"jsonrpc":"2.0","id":1,"method":"echo","params":["{}"]}}"#, "x".repeat(400)).into_bytes()]),
						_ => (&rig, vec![CALL.as_bytes().to_vec()]),
					};
					let mut hs = hs;
					if c["case"]["cl"] == json!(true) && gbody != "call" {
						hs.push(("content-length".into(), frames.iter().map(|f| f.len()).sum::<usize>().to_string()));
					}
					use_rig.take_log();
					let r = use_rig.http(m, &hs, frames).await;
					let log = use_rig.take_log();
					let allowed: Vec<&str> = c["allowed"].as_array().unwrap().iter().map(|a| a.as_str().unwrap()).collect();
					let got = match r.status {
						200 => "rpc".to_string(),
						s => s.to_string(),
					};
					let ctc = c["case"]["ct"]["cls"].as_str().unwrap();
					if !allowed.contains(&got.as_str()) {
						probs.push((format!("gate:{}:{ctc}:body-{gbody}:exp-{}-got-{got}", if m == "POST" { "POST" } else { "other-method" }, allowed.join("|")), json!({"headers": hs, "status": r.status})));
					}
					if got == "rpc" {
						if classify(&r) != "result" || log.len() != 1 {
							probs.push((format!("gate:rpc-reached-but-no-result"), json!({"body": String::from_utf8_lossy(&r.body), "log": log})));
						}
					} else if !log.is_empty() {
						probs.push((format!("gate:handler-ran-for-refused-request"), json!({"status": r.status, "log": log})));
					}
					let d = json!({"case": c, "problems": probs.iter().map(|p| p.1.clone()).collect::<Vec<_>>()});
					out.problems(i, k, probs.into_iter().map(|(k2, _)| (k2, d.clone())).collect(), Value::Null);
					continue;
				}
				// ---- chunk case
				let (body, lead) = body_of(c["case"]["body"].as_str().unwrap(), &mut rng);
				let n = body.len();
				let mut cutpos = vec![if lead > 0 { lead } else { 1 }, n / 3, n / 2, n - 1, rng.random_range(2..n - 1)];
				// keep cut j meaningful and strictly inside the body
				for p in cutpos.iter_mut() {
					*p = (*p).clamp(1, n - 1);
				}
				let mut cuts: Vec<usize> = c["case"]["cuts"].as_array().unwrap().iter().map(|j| cutpos[j.as_u64().unwrap() as usize - 1]).collect();
				cuts.sort();
				cuts.dedup();
				// cut 1 must stay the first boundary for the whitespace-prefix body
				let mut pieces: Vec<Vec<u8>> = vec![];
				let mut prev = 0;
				for p in cuts.iter().chain(std::iter::once(&n)) {
					pieces.push(body[prev..*p].to_vec());
					prev = *p;
				}
				let frames_spec = c["frames"].as_array().unwrap();
				let mut frames: Vec<Vec<u8>> = vec![];
				let mut pi = 0;
				for f in frames_spec {
					match f["k"].as_str().unwrap() {
						"piece" => {
							if pi < pieces.len() {
								frames.push(pieces[pi].clone());
								pi += 1;
							}
						}
						"empty" => frames.push(vec![]),
						_ => frames.push(b" \n ".to_vec()),
					}
				}
				while pi < pieces.len() {
					// deduplicated cuts produced fewer pieces than the abstract case has: append the rest
					frames.push(pieces[pi].clone());
					pi += 1;
				}
				let concat: Vec<u8> = frames.iter().flatten().cloned().collect();
				let mut hs = vec![("content-type".to_string(), "application/json".to_string())];
				if c["case"]["cl"] == json!(true) {
					hs.push(("content-length".into(), concat.len().to_string()));
				}
				rig.take_log();
				let r = rig.http("POST", &hs, frames.clone()).await;
				let log = rig.take_log();
				let r1 = rig.http("POST", &hs, vec![concat.clone()]).await;
				let log1 = rig.take_log();
				let bodyc = c["case"]["body"].as_str().unwrap();
				let ins = c["case"]["ins"]["k"].as_str().unwrap();
				let firstblank = frames.first().map(|f| f.iter().all(|b| b.is_ascii_whitespace())).unwrap_or(false);
				let ctx = if firstblank { "first-frame-blank" } else if ins != "none" { "blank-frame-later" } else { "plain-split" };
				if r.status != r1.status || r.body != r1.body || log != log1 {
					probs.push((
						format!("chunks:{ctx}:answer-differs-from-single-chunk:{}-vs-{}", classify(&r), classify(&r1)),
						json!({"frames": frames.iter().map(|f| String::from_utf8_lossy(f).into_owned()).collect::<Vec<_>>(), "chunked": [r.status, String::from_utf8_lossy(&r.body)], "single": [r1.status, String::from_utf8_lossy(&r1.body)]}),
					));
				}
				// the same frames followed by a frame of blanks that takes the body over max_request_body_size (no Content-Length:
				// the limit is only found while reading): refused, no handler, and the same answer as for the one-chunk body
				if c["case"]["cl"] == json!(false) && matches!(bodyc, "call" | "batch" | "notif") {
					let mut over = frames.clone();
					over.push(vec![b' '; 300]);
					let over_concat: Vec<u8> = over.iter().flatten().cloned().collect();
					small.take_log();
					let ra = small.http("POST", &hs, over).await;
					let la = small.take_log();
					let rb = small.http("POST", &hs, vec![over_concat]).await;
					let lb = small.take_log();
					if !la.is_empty() || !lb.is_empty() {
						probs.push(("chunks:over-the-request-limit:handler-ran".into(), json!({"status": [ra.status, rb.status], "log": [la, lb]})));
					} else if ra.status != rb.status || ra.body != rb.body {
						probs.push((
							format!("chunks:over-the-request-limit:answer-differs-from-single-chunk:{}-vs-{}", classify(&ra), classify(&rb)),
							json!({"chunked": [ra.status, String::from_utf8_lossy(&ra.body)], "single": [rb.status, String::from_utf8_lossy(&rb.body)]}),
						));
					} else if ra.status == 200 {
						probs.push(("chunks:over-the-request-limit:answered-200".into(), json!({"body": String::from_utf8_lossy(&ra.body)})));
					}
				}
				let exp = c["answer"].as_str().unwrap();
				if exp != "differential" {
					let want = match exp {
						"ack" => "ack-200".to_string(),
						"e32700" => "e32700".to_string(),
						o => o.to_string(),
					};
					let got = classify(&r1);
					if got != want {
						probs.push((format!("chunks:single-chunk-answer:{bodyc}:exp-{want}-got-{got}"), json!({"body": String::from_utf8_lossy(&concat)})));
					}
				}
				let d = json!({"case": c, "problems": probs.iter().map(|p| p.1.clone()).collect::<Vec<_>>()});
				out.problems(i, k, probs.into_iter().map(|(k2, _)| (k2, d.clone())).collect(), Value::Null);
			}
		}
	});
}

// ------------------------------------------------------------------------------------------------------------------
// HttpStack.tla: the shipped HTTP layers (ProxyGetRequest, HostFilter) in front of the service, in every configuration.

const STACK_PATHS: [(&str, &str, &str); 10] = [
	("ok", "/health", "health"),
	("nullres", "/null", "nullres"),
	("strres", "/str", "strres"),
	("fail", "/fail", "fail"),
	("failData", "/fail_data", "fail_data"),
	("missing", "/missing", "no_such_method"),
	("sub", "/sub", "sub"),
	("panic", "/panic", "panic"),
	("tooBig", "/too_big", "too_big"),
	("errLooksOk", "/err_looks_ok", "err_looks_ok"),
];
const STR_RES: &str = "a \"quoted\" \u{e9} string, with {\"result\": 1}";

fn stack_rig(mode: &'static str) -> Rig {
	use jsonrpsee_core::server::RpcModule;
	use jsonrpsee_types::ErrorObjectOwned;
	let log: Log = Default::default();
	let mut m = RpcModule::new(log.clone());
	fn note(log: &Log, h: &str, p: &jsonrpsee_types::Params<'_>) {
		log.lock().push(json!({"h": h, "params": p.parse::<Value>().unwrap_or(json!("undecodable"))}));
	}
	m.register_method("echo", |p, log, _| {
		note(log, "echo", &p);
		json!({"echo": p.parse::<Value>().unwrap_or(Value::Null)})
	})
	.unwrap();
	// (a result with a member called "error", an error with a member called "result": the unwrapping must look at the top level only)
	m.register_method("health", |p, log, _| {
		note(log, "health", &p);
		json!({"up": true, "peers": [1, 2, 3], "error": null})
	})
	.unwrap();
	m.register_method("nullres", |p, log, _| {
		note(log, "nullres", &p);
		Value::Null
	})
	.unwrap();
	m.register_async_method("strres", |p, log, _| async move {
		note(&log, "strres", &p);
		STR_RES.to_string()
	})
	.unwrap();
	m.register_method("fail", |p, log, _| -> Result<Value, ErrorObjectOwned> {
		note(log, "fail", &p);
		Err(ErrorObjectOwned::owned(7, "app error", None::<()>))
	})
	.unwrap();
	m.register_method("fail_data", |p, log, _| -> Result<Value, ErrorObjectOwned> {
		note(log, "fail_data", &p);
		Err(ErrorObjectOwned::owned(9, "with data", Some(json!({"d": [1, 2]}))))
	})
	.unwrap();
	m.register_method("err_looks_ok", |p, log, _| -> Result<Value, ErrorObjectOwned> {
		note(log, "err_looks_ok", &p);
		Err(ErrorObjectOwned::owned(8, "looks ok", Some(json!({"result": 1}))))
	})
	.unwrap();
	m.register_blocking_method("panic", |p, log, _| -> Result<Value, ErrorObjectOwned> {
		note(&log, "panic", &p);
		panic!("handler panics on purpose");
	})
	.unwrap();
	m.register_method("too_big", |p, log, _| {
		note(log, "too_big", &p);
		"x".repeat(5000)
	})
	.unwrap();
	m.register_subscription("sub", "notif", "unsub", |p, pending, log, _| async move {
		note(&log, "sub", &p);
		let _ = pending.accept().await;
	})
	.unwrap();
	Rig::with_methods(RigCfg { max_resp: 2048, mode, ..Default::default() }, log, m.into())
}

async fn stack_case(rig: &Rig, i: usize, k: usize, c: &Value, rng: &mut rand::rngs::StdRng, out: &mut Out) {
	use jsonrpsee_server::middleware::http::{HostFilterLayer, ProxyGetRequestLayer};
	use tower::Layer;
	let r = &c["req"];
	let pick = |rng: &mut rand::rngs::StdRng, xs: &[&str]| xs[rng.random_range(0..xs.len())].to_string();
	let pcls = r["path"].as_str().unwrap();
	let uri = match pcls {
		"okQuery" => pick(rng, &["/health?verbose=1", "/health?", "/health?x=%2Fa&y=[1]", "/health?/other"]),
		"okSlash" => pick(rng, &["/health/", "//health", "/health/.", "/health%20"]),
		"okUpper" => pick(rng, &["/HEALTH", "/Health", "/healtH"]),
		"unreg" => pick(rng, &["/other", "/healthz", "/health/x", "/healt", "/echo"]),
		"root" => pick(rng, &["/", "/?health"]),
		p => STACK_PATHS.iter().find(|x| x.0 == p).expect("path class").1.to_string(),
	};
	let mut hs: Vec<(String, String)> = vec![];
	match r["host"].as_str().unwrap() {
		"allowed" => hs.push(("host".into(), pick(rng, &["rpc.test:8080", "rpc.test"]))),
		"denied" => hs.push(("host".into(), pick(rng, &["evil.test", "rpc.test.evil.test", "rpc.test:9999", "xrpc.test:8080"]))),
		_ => {}
	}
	match r["ct"].as_str().unwrap() {
		"json" => hs.push(("content-type".into(), "application/json".into())),
		"text" => hs.push(("content-type".into(), pick(rng, &["text/plain", "application/xml"]))),
		_ => {}
	}
	match r["upg"].as_str().unwrap() {
		"good" => {
			hs.push(("connection".into(), pick(rng, &["Upgrade", "upgrade", "keep-alive, Upgrade"])));
			hs.push(("upgrade".into(), pick(rng, &["websocket", "WebSocket"])));
			hs.push(("sec-websocket-key".into(), "dGhlIHNhbXBsZSBub25jZQ==".into()));
			hs.push(("sec-websocket-version".into(), "13".into()));
		}
		"noKey" => {
			hs.push(("connection".into(), "Upgrade".into()));
			hs.push(("upgrade".into(), "websocket".into()));
		}
		_ => {}
	}
	let frames: Vec<Vec<u8>> = match r["body"].as_str().unwrap() {
		"call" => vec![CALL.as_bytes().to_vec()],
		"garbage" => vec![b"hello world, not json".to_vec()],
		_ => vec![],
	};
	let method = r["method"].as_str().unwrap();
	let proxy = ProxyGetRequestLayer::new(STACK_PATHS.iter().map(|(_, p, m)| (*p, *m))).expect("paths start with /");
	let filter = HostFilterLayer::new(["rpc.test:8080", "rpc.test"]).expect("allow-list");
	let svc = rig.svc(rig.http_stop.0.clone());
	let layers: Vec<&str> = c["cfg"].as_array().unwrap().iter().map(|l| l.as_str().unwrap()).collect();
	rig.take_log();
	let prev = std::panic::take_hook();
	std::panic::set_hook(Box::new(|_| {}));
	let reply = match layers.as_slice() {
		[] => {
			let mut s = svc;
			http_call(&mut s, method, &uri, &hs, frames).await
		}
		["proxy"] => {
			let mut s = proxy.layer(svc);
			http_call(&mut s, method, &uri, &hs, frames).await
		}
		["filter"] => {
			let mut s = filter.layer(svc);
			http_call(&mut s, method, &uri, &hs, frames).await
		}
		["proxy", "filter"] => {
			let mut s = proxy.layer(filter.layer(svc));
			http_call(&mut s, method, &uri, &hs, frames).await
		}
		["filter", "proxy"] => {
			let mut s = filter.layer(proxy.layer(svc));
			http_call(&mut s, method, &uri, &hs, frames).await
		}
		o => panic!("HARNESS layers {o:?}"),
	};
	std::panic::set_hook(prev);
	let log = rig.take_log();
	let ans = &c["ans"];
	let (ek, estatus, ecode) = (ans["k"].as_str().unwrap(), ans["status"].as_u64().unwrap() as u16, ans["code"].as_i64().unwrap());
	let body = reply.json();
	let mut probs: Vec<(String, Value)> = vec![];
	let ctx = format!("{}:{}:{}", c["mode"].as_str().unwrap(), if layers.is_empty() { "bare".to_string() } else { layers.join(">") }, if c["proxied"] == json!(true) { "proxied" } else if r["upg"] != "no" { "upgrade" } else { "passed" });
	let mut bad = |what: String| probs.push((format!("stack:{ctx}:{what}"), Value::Null));
	if reply.status != estatus {
		bad(format!("status-exp-{estatus}-got-{}", reply.status));
	} else {
		let is_json_ct = reply.content_type.as_deref().map(|t| t.to_ascii_lowercase().starts_with("application/json")).unwrap_or(false);
		match ek {
			"upgrade" => {}
			"text" => {
				if body.as_ref().map(|b| b.get("result").is_some()).unwrap_or(false) {
					bad("refusal-carries-a-result".into());
				}
			}
			"envResult" | "envError" => match &body {
				Some(b) if b.get("jsonrpc") == Some(&json!("2.0")) => {
					if ek == "envResult" && (b.get("result").is_none() || b.get("error").is_some()) {
						bad("envelope-exp-result".into());
					}
					if ek == "envError" && b["error"]["code"].as_i64() != Some(ecode) {
						bad(format!("envelope-exp-code{ecode}-got-{}", b["error"]["code"]));
					}
				}
				_ => bad("answer-is-no-jsonrpc-envelope".into()),
			},
			"bareResult" => {
				let mapped = STACK_PATHS.iter().find(|x| x.0 == if pcls == "okQuery" { "ok" } else { pcls }).expect("mapped").2;
				let want = match mapped {
					"health" => json!({"up": true, "peers": [1, 2, 3], "error": null}),
					"nullres" => Value::Null,
					_ => json!(STR_RES),
				};
				if body.as_ref() != Some(&want) {
					bad(format!("bare-result-of-{mapped}-differs"));
				}
				if !is_json_ct {
					bad("bare-result-content-type".into());
				}
			}
			"bareError" => match &body {
				Some(b) if b.is_object() && b.get("jsonrpc").is_none() && b.get("id").is_none() => {
					if b["code"].as_i64() != Some(ecode) {
						bad(format!("bare-error-exp-code{ecode}-got-{}", b["code"]));
					}
					let want_data = match ecode {
						9 => Some(json!({"d": [1, 2]})),
						8 => Some(json!({"result": 1})),
						_ => None,
					};
					if let Some(w) = want_data {
						if b.get("data") != Some(&w) {
							bad(format!("bare-error-code{ecode}-data-differs"));
						}
					}
					if !b["message"].is_string() {
						bad("bare-error-without-message".into());
					}
				}
				_ => bad("bare-error-is-no-bare-error-object".into()),
			},
			o => panic!("HARNESS ans.k {o}"),
		}
	}
	// the handlers that ran
	let want_ran: Vec<Value> = c["ran"]
		.as_array()
		.unwrap()
		.iter()
		.map(|x| {
			let m = x["m"].as_str().unwrap();
			if m == "echo" {
				json!({"h": "echo", "params": ["a b", {"k": [1, 2]}]})
			} else {
				json!({"h": STACK_PATHS.iter().find(|p| p.0 == m).expect("ran.m").2, "params": null})
			}
		})
		.collect();
	if log != want_ran {
		let refused = matches!(estatus, 400 | 403 | 405 | 415 | 101);
		bad(if refused && !log.is_empty() { "handler-ran-for-refused-request".to_string() } else { format!("handlers-exp-{}-got-{}", want_ran.len(), log.len()) });
	}
	let d = json!({"case": c, "uri": uri, "headers": hs, "status": reply.status, "content_type": reply.content_type, "body": String::from_utf8_lossy(&reply.body), "log": log});
	out.problems(i, k, probs.into_iter().map(|(k2, _)| (k2, d.clone())).collect(), Value::Null);
}
