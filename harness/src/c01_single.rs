//! C01: every abstract single-message case of Wire.tla, concretised and sent over HTTP (tower service) and over
//! WebSocket (text and binary frames) to the real server; replies projected and compared with the spec's Reply.
use crate::common::*;
use crate::server_rig::*;
use crate::wire::*;
use rand::Rng;
use serde_json::{Value, json};
use std::time::Duration;

/// how long an exchange waits for frames that should come; cut to half a second once several exchanges of a run have waited in vain
/// (a tree on which replies go missing is reported all the same, and the run stays short)
static WAIT_MS: std::sync::atomic::AtomicU64 = std::sync::atomic::AtomicU64::new(10_000);
static WAITED_IN_VAIN: std::sync::atomic::AtomicU64 = std::sync::atomic::AtomicU64::new(0);
fn wait() -> Duration {
	Duration::from_millis(WAIT_MS.load(std::sync::atomic::Ordering::Relaxed))
}

/// compare one observed reply (None = no reply) with the spec's expectation; returns what is wrong
fn compare(exp: &Value, got: Option<&Value>, own_id: &Option<Value>, params: &Option<Value>) -> Option<String> {
	let n = exp["n"].as_u64().unwrap();
	match (n, got) {
		(0, None) => None,
		(0, Some(_)) => Some("reply-to-notification".into()),
		(1, None) => Some("no-reply".into()),
		(_, Some(v)) if exp.get("alt").is_some() && v["id"].is_null() && v["error"]["code"] == json!(-32700) => None,
		(_, Some(v)) => {
			let want_id = if exp["id"] == "own" { own_id.clone().unwrap_or(Value::Null) } else { Value::Null };
			if v["id"] != want_id {
				return Some(if v["id"].is_null() { "id-lost".into() } else { "id-wrong".into() });
			}
			if exp["kind"] == "error" {
				match v.get("error") {
					None => Some(format!("result-instead-of-error-{}", exp["code"])),
					Some(e) if e["code"] != exp["code"] => Some(format!("code-exp{}-got{}", exp["code"], e["code"])),
					_ => None,
				}
			} else {
				match v.get("result") {
					None => Some(format!("error{}-instead-of-result", v["error"]["code"])),
					Some(r) => match exp["what"].as_str().unwrap() {
						"echo" => {
							let want = json!({"echo": params.clone().unwrap_or(Value::Null)});
							if *r == want { None } else { Some("result-not-the-handlers".into()) }
						}
						"subId" => {
							if r.is_string() || r.is_u64() { None } else { Some("subscribe-result-not-an-id".into()) }
						}
						"false" => {
							if *r == json!(false) { None } else { Some("unsubscribe-result-not-false".into()) }
						}
						o => panic!("what {o}"),
					},
				}
			}
		}
		_ => unreachable!(),
	}
}

fn check_log(log: &[Value], want_handler: &str, params: &Option<Value>) -> Option<String> {
	let relevant: Vec<&Value> = log.iter().filter(|e| e["h"] != "probe").collect();
	if want_handler == "none" {
		if relevant.is_empty() { None } else { Some(format!("handler-ran-{}", relevant[0]["h"].as_str().unwrap_or("?"))) }
	} else if relevant.len() != 1 {
		Some(format!("handler-ran-{}-times", relevant.len()))
	} else if relevant[0]["h"] != want_handler {
		Some("wrong-handler".into())
	} else if relevant[0].get("params").is_some() && relevant[0]["params"] != params.clone().unwrap_or(Value::Null) {
		Some("handler-saw-other-params".into())
	} else {
		None
	}
}

fn label(c: &Value, kind: &str) -> String {
	if kind == "call" { format!("call-{}", c["method"].as_str().unwrap()) } else { kind.to_string() }
}

pub fn replay(cases: &[Value], out: &mut Out) {
	std::panic::set_hook(Box::new(|_| {}));
	let rt = tokio::runtime::Builder::new_multi_thread().worker_threads(8).enable_all().build().unwrap();
	let ks = k_concretisations();
	rt.block_on(async {
		// cases are independent: run them in parallel chunks, each chunk with its own rig (own handler log)
		let chunks: Vec<Vec<(usize, Value)>> = {
			let all: Vec<(usize, Value)> = cases.iter().cloned().enumerate().collect();
			all.chunks((all.len() / 8).max(1)).map(|c| c.to_vec()).collect()
		};
		let mut handles = vec![];
		for chunk in chunks {
			handles.push(tokio::spawn(async move {
				let rig = Rig::new(RigCfg::default());
				// the same server with a message buffer of one: for WebSocket exchanges under back-pressure
				let bp = Rig::new(RigCfg { buf_cap: 1, ..Default::default() });
				// the same server with a response limit of 4 KiB: for exchanges that follow a call whose result did not fit
				let small = Rig::new(RigCfg { max_resp: 4096, ..Default::default() });
				let mut verdicts = vec![];
				for (i, c) in chunk {
					for k in 0..ks {
						// one exchange in ten comes right after a call that was answered "response too big" (-32008): whatever the
						// server did about that answer, this message is treated like any other
						let after_big = (i + k) % 10 == 3;
						// (a case that does not come back - a server task that died holding something - is an observation, not a hang)
						let r = if after_big { &small } else { &rig };
						let v = match tokio::time::timeout(std::time::Duration::from_secs(40), one_case(r, &bp, i, k, &c, after_big)).await {
							Ok(v) => v,
							Err(_) => (vec![("exchange-stalled:no-verdict-within-40s".to_string(), json!({"case": c, "after_big": after_big}))], Value::Null),
						};
						if v.0.iter().any(|(key, _)| key.contains("not-serving") || key.contains("stalled") || key.contains("no-eof") || key.contains("no-reply")) {
							if WAITED_IN_VAIN.fetch_add(1, std::sync::atomic::Ordering::Relaxed) >= 6 {
								WAIT_MS.store(500, std::sync::atomic::Ordering::Relaxed);
							}
						}
						verdicts.push((i, k, v));
					}
				}
				verdicts
			}));
		}
		for h in handles {
			for (i, k, (probs, detail)) in h.await.unwrap() {
				out.problems(i, k, probs, detail);
			}
		}
	});
}

async fn one_case(rig: &Rig, bp: &Rig, i: usize, k: usize, c: &Value, after_big: bool) -> (Vec<(String, Value)>, Value) {
	const BIG_CALL: &str = r#"{"jsonrpc":"2.0","id":"press-big","method":"big","params":[5000,"ascii"]}"#;
	let mut rng = rng_for(i, k);
	let case = &c["case"];
	let kind = c["kind"].as_str().unwrap();
	let lead = [0usize, 0, 1, 127, 5][rng.random_range(0..5)];
	let (bytes, own_id, params) = if kind == "nonobject" {
		let own = if case["text"] == "brokenUtf8" { Some(json!(1)) } else { None };
		(nonobject_bytes(case["text"].as_str().unwrap(), &mut rng), own, None)
	} else {
		let cc = concretise_object(case, &mut rng, (i as u64) * 7 + k as u64, lead);
		(cc.bytes, cc.id, cc.params)
	};
	let lbl = label(case, kind);
	let text_view = String::from_utf8_lossy(&bytes).into_owned();
	let mut problems: Vec<(String, Value)> = vec![];

	// ---- HTTP
	if after_big {
		let _ = rig.http_json(BIG_CALL.as_bytes()).await;
	}
	rig.take_log();
	let hr = rig.http_json(&bytes).await;
	let hlog = rig.take_log();
	let hreply: Option<Value> = if hr.body.is_empty() || hr.body == b"null" {
		None
	} else {
		match well_formed_response(&String::from_utf8_lossy(&hr.body)) {
			Ok(v) => Some(v),
			Err(e) => {
				problems.push((format!("http:{lbl}:malformed-reply"), json!({"why": e, "body": String::from_utf8_lossy(&hr.body)})));
				None
			}
		}
	};
	if problems.is_empty() {
		if let Some(p) = compare(&c["http"], hreply.as_ref(), &own_id, &params) {
			problems.push((format!("http:{lbl}:{p}"), json!({"status": hr.status, "body": String::from_utf8_lossy(&hr.body)})));
		}
		if c["http"]["n"] == 0 && hr.status != 200 {
			problems.push((format!("http:{lbl}:notification-ack-status-{}", hr.status), json!({})));
		}
	}
	if let Some(p) = check_log(&hlog, c["hhttp"].as_str().unwrap(), &params) {
		problems.push((format!("http:{lbl}:{p}"), json!({"log": hlog})));
	}

	// ---- WebSocket: text frame (when the bytes are valid UTF-8) and binary frame
	let mut wreply_for_cmp: Option<Option<Value>> = None;
	for mode in ["text", "binary"] {
		let as_text = std::str::from_utf8(&bytes).ok();
		if mode == "text" && as_text.is_none() {
			continue;
		}
		if mode == "binary" && as_text.is_some() && rng.random_range(0..4) != 0 {
			continue; // binary framing of valid text: a quarter of the cases
		}
		// one exchange in twelve happens while the connection's outbound side is saturated: a 32 KiB pipe, a message buffer of one
		// and three 150 kB results the peer has not read - the message must be treated exactly the same
		let pressed = (i + k) % 12 == 7;
		let rig = if pressed { bp } else { rig };
		rig.take_log();
		let connected = if pressed {
			let (stop, handle) = jsonrpsee_server::stop_channel();
			let svc = rig.svc(stop.clone());
			WsPeer::connect_with_pipe(svc, stop, handle, &[], 32 * 1024).await
		} else {
			rig.ws().await
		};
		let mut ws = match connected {
			Ok(w) => w,
			Err(e) => {
				problems.push((format!("ws:{lbl}:connect-failed"), json!({"err": e})));
				break;
			}
		};
		if after_big && !pressed {
			ws.send_text(BIG_CALL).await;
			tokio::time::sleep(std::time::Duration::from_millis(2)).await;
		}
		if pressed {
			for j in 0..3 {
				ws.send_text(&format!(r#"{{"jsonrpc":"2.0","id":"press-{j}","method":"big","params":[150000,"ascii"]}}"#)).await;
			}
			tokio::time::sleep(std::time::Duration::from_millis(15)).await;
		}
		let sent = if mode == "text" { ws.send_text(as_text.unwrap()).await } else { ws.send_binary(&bytes).await };
		let probe_id = format!("probe-{i}-{k}");
		let probe = format!(r#"{{"jsonrpc":"2.0","id":"{probe_id}","method":"echo","params":["probe"]}}"#);
		let sent2 = ws.send_text(&probe).await;
		let (mut frames, hit) = ws.recv_until(wait(), |v| v["id"] == json!(probe_id)).await;
		let (rest, clean) = ws.stop_and_drain(wait()).await;
		frames.extend(rest);
		let wlog: Vec<Value> = rig.take_log().into_iter().filter(|e| e["params"] != json!(["probe"]) && e["h"] != "big").collect();
		frames.retain(|f| serde_json::from_str::<Value>(f).map(|v| !v["id"].as_str().map(|s| s.starts_with("press-")).unwrap_or(false)).unwrap_or(true));
		if !sent || !sent2 || !hit {
			problems.push((format!("ws-{mode}:{lbl}:connection-not-serving-later-messages"), json!({"frames": frames, "sent": sent, "probe_sent": sent2})));
			continue;
		}
		if !clean {
			problems.push((format!("ws-{mode}:{lbl}:no-eof-after-stop"), json!({"frames": frames})));
		}
		let mut replies = vec![];
		let mut malformed = None;
		for f in &frames {
			match well_formed_response(f) {
				Ok(v) => {
					if v["id"] != json!(probe_id) {
						replies.push(v);
					}
				}
				Err(e) => malformed = Some((e, f.clone())),
			}
		}
		if let Some((e, f)) = malformed {
			problems.push((format!("ws-{mode}:{lbl}:malformed-reply"), json!({"why": e, "frame": f})));
			continue;
		}
		if replies.len() > 1 {
			problems.push((format!("ws-{mode}:{lbl}:more-than-one-reply"), json!({"frames": frames})));
			continue;
		}
		let wreply = replies.into_iter().next();
		if let Some(p) = compare(&c["ws"], wreply.as_ref(), &own_id, &params) {
			problems.push((format!("ws-{mode}:{lbl}:{p}"), json!({"frames": frames})));
		}
		if let Some(p) = check_log(&wlog, c["hws"].as_str().unwrap(), &params) {
			problems.push((format!("ws-{mode}:{lbl}:{p}"), json!({"log": wlog})));
		}
		if mode == "text" || wreply_for_cmp.is_none() {
			wreply_for_cmp = Some(wreply);
		}
	}
	// ---- same response object on both transports for non-subscription methods
	if kind != "nonobject" && !["sub", "unsub"].contains(&case["method"].as_str().unwrap_or("")) {
		if let Some(w) = &wreply_for_cmp {
			if problems.is_empty() && *w != hreply {
				problems.push((format!("both:{lbl}:http-and-ws-replies-differ"), json!({"http": hreply, "ws": w})));
			}
		}
	}
	let probs = problems.into_iter().map(|(key, d)| (key, json!({"case": c, "bytes": text_view, "detail": d}))).collect();
	(probs, json!({"bytes": text_view}))
}
