//! C06 (and the handler-side rig of C04): subscriptions on the real server with *scripted* handlers.  Every handler is a
//! little interpreter driven by the harness over a command channel, so the driver performs exactly one step at a time
//! and waits for its acknowledgement (serialised => the spec is deterministic => step outputs are an exact oracle).
use crate::common::*;
use crate::server_rig::*;
use jsonrpsee_server::{RpcModule, SubscriptionCloseResponse, SubscriptionMessage, SubscriptionSink};
use jsonrpsee_types::ErrorObjectOwned;
use parking_lot::Mutex;
use serde_json::{Value, json};
use std::collections::HashMap;
use std::sync::Arc;
use std::time::Duration;
use tokio::sync::mpsc;

const WAIT: Duration = Duration::from_secs(8);

#[derive(Debug)]
pub enum Cmd {
	Accept,
	Reject,
	DropPending,
	Clone,
	DropSink,
	Send(u64),
	IsClosed,
	Return(bool),
	/// the task holding the sinks panics
	Panic,
}
#[derive(Debug, Clone, PartialEq)]
pub enum Ack {
	Started,
	Ok,
	Err,
	Closed(Vec<bool>),
}

#[derive(Default)]
pub struct Script {
	/// per subscribe call k: the command receiver the handler will take, and the ack sender
	pub slots: Mutex<HashMap<u64, (mpsc::UnboundedReceiver<Cmd>, mpsc::UnboundedSender<Ack>)>>,
	/// which of the equivalent ways of doing a step the handlers of this case use (the spec does not distinguish them):
	/// bit 0: `dropSink` lets go of the oldest sink (the one `accept()` returned) instead of the newest clone;
	/// bits 1-2: notifications go out through `send`, `send_timeout` or `try_send` (retried while the queue is full)
	pub variant: std::sync::atomic::AtomicU64,
}

pub fn scripted_module(script: Arc<Script>) -> RpcModule<Arc<Script>> {
	let mut m = RpcModule::new(script);
	m.register_method("echo", |p, _, _| p.parse::<Value>().unwrap_or(Value::Null)).unwrap();
	m.register_subscription("sub", "notif", "unsub", |params, pending, ctx, _| async move {
		let k: u64 = params.one().unwrap_or(0);
		let Some((mut rx, ack)) = ctx.slots.lock().remove(&k) else {
			// probe subscription: started and given up at once (the slot comes back immediately)
			drop(pending);
			return SubscriptionCloseResponse::None;
		};
		let _ = ack.send(Ack::Started);
		let mut pending = Some(pending);
		// ---- stage 1, inside the handler future: the pending sink
		let first_sink = loop {
			let Some(cmd) = rx.recv().await else { return SubscriptionCloseResponse::None };
			match cmd {
				Cmd::Accept => match pending.take().expect("accept on a pending sink").accept().await {
					Ok(s) => {
						let _ = ack.send(Ack::Ok);
						break s;
					}
					Err(_) => {
						let _ = ack.send(Ack::Err);
					}
				},
				Cmd::Reject => {
					pending.take().expect("reject on a pending sink").reject(ErrorObjectOwned::owned(1, "rejected", None::<()>)).await;
					let _ = ack.send(Ack::Ok);
				}
				Cmd::DropPending => {
					drop(pending.take());
					let _ = ack.send(Ack::Ok);
				}
				Cmd::IsClosed => {
					let _ = ack.send(Ack::Closed(vec![]));
				}
				other => panic!("HARNESS: {other:?} before accept"),
			}
		};
		// ---- stage 2: the sinks live in a keeper task of their own, so that they can outlive the handler future
		let (ret_tx, ret_rx) = tokio::sync::oneshot::channel::<bool>();
		let variant = ctx.variant.load(std::sync::atomic::Ordering::Relaxed);
		tokio::spawn(async move {
			// declared before `sinks`, so dropped after them - also while unwinding: when the driver sees this channel close,
			// the sinks are gone
			let ack = ack;
			let mut sinks: Vec<SubscriptionSink> = vec![first_sink];
			let mut ret_tx = Some(ret_tx);
			while let Some(cmd) = rx.recv().await {
				match cmd {
					Cmd::Clone => {
						let c = sinks[0].clone();
						sinks.push(c);
						let _ = ack.send(Ack::Ok);
					}
					Cmd::DropSink => {
						if variant & 1 == 1 && sinks.len() > 1 {
							drop(sinks.remove(0));
						} else {
							sinks.pop();
						}
						let _ = ack.send(Ack::Ok);
					}
					Cmd::Send(n) => {
						let raw = serde_json::value::to_raw_value(&n).unwrap();
						let last = sinks.len() - 1;
						let ok = match (variant >> 1) % 3 {
							0 => sinks[0].send(SubscriptionMessage::from(raw)).await.is_ok(),
							1 => sinks[last].send_timeout(SubscriptionMessage::from(raw), Duration::from_secs(5)).await.is_ok(),
							_ => {
								// try_send, retried while the connection's queue is momentarily full: the same meaning as send
								let mut ok = false;
								for _ in 0..10_000 {
									match sinks[last].try_send(SubscriptionMessage::from(raw.clone())) {
										Ok(()) => {
											ok = true;
											break;
										}
										Err(jsonrpsee_server::TrySendError::Full(_)) => tokio::task::yield_now().await,
										Err(_) => break,
									}
								}
								ok
							}
						};
						let _ = ack.send(if ok { Ack::Ok } else { Ack::Err });
					}
					Cmd::IsClosed => {
						let _ = ack.send(Ack::Closed(sinks.iter().map(|s| s.is_closed()).collect()));
					}
					Cmd::Return(closing) => {
						// the handler future returns now; the sinks stay here
						if let Some(t) = ret_tx.take() {
							let _ = t.send(closing);
						}
						tokio::task::yield_now().await;
						let _ = ack.send(Ack::Ok);
					}
					Cmd::Panic => {
						// the sinks go while this task unwinds; the acknowledgement channel closing (after them) tells the driver
						panic!("scripted handler panic (C06)");
					}
					other => panic!("HARNESS: {other:?} after accept"),
				}
			}
		});
		match ret_rx.await {
			Ok(true) => SubscriptionCloseResponse::Notif(SubscriptionMessage::from(serde_json::value::to_raw_value(&"bye").unwrap())),
			_ => SubscriptionCloseResponse::None,
		}
	})
	.unwrap();
	m
}

pub struct Conn {
	pub tx: soketto::Sender<futures_util::io::BufReader<futures_util::io::BufWriter<tokio_util::compat::Compat<tokio::io::DuplexStream>>>>,
	pub frames: mpsc::UnboundedReceiver<String>,
	pub seen: Vec<String>,
	pub handle: jsonrpsee_server::ServerHandle,
	pub closed: Option<std::pin::Pin<Box<dyn std::future::Future<Output = ()> + Send>>>,
	pub open: bool,
}

impl Conn {
	pub async fn open(rig: &Rig) -> Conn {
		let (stop, handle) = jsonrpsee_server::stop_channel();
		let mut svc = rig.svc(stop.clone());
		let closed: std::pin::Pin<Box<dyn std::future::Future<Output = ()> + Send>> = Box::pin(svc.on_session_closed());
		let peer = WsPeer::connect(svc, stop, handle.clone(), &[]).await.expect("ws connect");
		let WsPeer { tx, mut rx, .. } = peer;
		let (ftx, frames) = mpsc::unbounded_channel();
		tokio::spawn(async move {
			loop {
				let mut data = Vec::new();
				match rx.receive_data(&mut data).await {
					Ok(_) => {
						if ftx.send(String::from_utf8_lossy(&data).into_owned()).is_err() {
							break;
						}
					}
					Err(_) => break,
				}
			}
		});
		Conn { tx, frames, seen: vec![], handle, closed: Some(closed), open: true }
	}
	pub async fn send(&mut self, text: &str) {
		let _ = self.tx.send_text(text).await;
		let _ = self.tx.flush().await;
	}
	/// wait for the frame whose id is `id`
	pub async fn reply(&mut self, id: u64) -> Option<Value> {
		let deadline = tokio::time::Instant::now() + WAIT;
		loop {
			match tokio::time::timeout_at(deadline, self.frames.recv()).await {
				Ok(Some(f)) => {
					self.seen.push(f.clone());
					if let Ok(v) = serde_json::from_str::<Value>(&f) {
						if v["id"] == json!(id) {
							return Some(v);
						}
					}
				}
				_ => return None,
			}
		}
	}
	pub async fn close(&mut self) {
		let _ = self.tx.close().await;
		self.open = false;
		if let Some(c) = self.closed.take() {
			let _ = tokio::time::timeout(WAIT, c).await;
		}
	}
}

pub struct World {
	pub rig: Rig,
	pub script: Arc<Script>,
	pub conns: HashMap<u64, Conn>,
	pub cmds: HashMap<u64, mpsc::UnboundedSender<Cmd>>,
	pub acks: HashMap<u64, mpsc::UnboundedReceiver<Ack>>,
	pub sub_ids: HashMap<u64, Value>,
	/// request id of an unsubscribe call -> the subscribe call it named
	pub unsub_calls: HashMap<u64, u64>,
	/// notifications successfully sent per subscribe call
	pub sent: HashMap<u64, u64>,
	pub next_id: u64,
}

impl World {
	pub async fn new(cap: u32, nconns: u64, buf_cap: u32) -> World {
		let script = Arc::new(Script::default());
		let log: Log = Default::default();
		let methods: jsonrpsee_server::Methods = scripted_module(script.clone()).into();
		let rig = Rig::with_methods(RigCfg { max_subs: cap, buf_cap, ..Default::default() }, log, methods);
		let mut conns = HashMap::new();
		for c in 1..=nconns {
			conns.insert(c, Conn::open(&rig).await);
		}
		World { rig, script, conns, cmds: HashMap::new(), acks: HashMap::new(), sub_ids: HashMap::new(), unsub_calls: HashMap::new(), sent: HashMap::new(), next_id: 1000 }
	}

	async fn ack(&mut self, k: u64) -> Option<Ack> {
		tokio::time::timeout(WAIT, self.acks.get_mut(&k)?.recv()).await.ok().flatten()
	}
	async fn cmd(&mut self, k: u64, c: Cmd) -> Option<Ack> {
		self.cmds.get(&k)?.send(c).ok()?;
		self.ack(k).await
	}

	/// perform one driver step; returns the observed result class
	pub async fn step(&mut self, op: &Value, conn_of: &(dyn Fn(u64) -> u64 + Send + Sync)) -> String {
		let k = op["k"].as_u64().unwrap_or(0);
		match op["o"].as_str().unwrap() {
			"subscribe" => {
				let c = conn_of(k);
				let (ctx, crx) = mpsc::unbounded_channel();
				let (atx, arx) = mpsc::unbounded_channel();
				self.script.slots.lock().insert(k, (crx, atx));
				self.cmds.insert(k, ctx);
				self.acks.insert(k, arx);
				let id = 100 + k;
				let conn = self.conns.get_mut(&c).unwrap();
				conn.send(&format!(r#"{{"jsonrpc":"2.0","id":{id},"method":"sub","params":[{k}]}}"#)).await;
				// either the handler starts, or the call is refused with -32006
				let r: String = tokio::select! {
					a = tokio::time::timeout(WAIT, self.acks.get_mut(&k).unwrap().recv()) => match a { Ok(Some(Ack::Started)) => "started".into(), o => format!("odd-ack:{o:?}") },
					r = conn.reply(id) => match r { Some(v) => format!("e{}", -v["error"]["code"].as_i64().unwrap_or(0)), None => "no-reply".into() },
				};
				if r != "started" {
					// no handler was started: nobody will ever answer commands for k
					self.cmds.remove(&k);
					self.acks.remove(&k);
					self.script.slots.lock().remove(&k);
				}
				r
			}
			"accept" => {
				let r = self.cmd(k, Cmd::Accept).await;
				match r {
					Some(Ack::Ok) => {
						let c = conn_of(k);
						match self.conns.get_mut(&c).unwrap().reply(100 + k).await {
							Some(v) if v.get("result").is_some() => {
								self.sub_ids.insert(k, v["result"].clone());
								"ok".into()
							}
							o => format!("accepted-but-response:{o:?}"),
						}
					}
					Some(Ack::Err) => {
						self.cmds.remove(&k);
						self.acks.remove(&k);
						"err".into()
					}
					o => format!("odd-ack:{o:?}"),
				}
			}
			"reject" | "dropPending" => {
				let c = if op["o"] == "reject" { Cmd::Reject } else { Cmd::DropPending };
				let r = match self.cmd(k, c).await { Some(Ack::Ok) => "ok".to_string(), o => format!("odd-ack:{o:?}") };
				// the library cancels the handler future of a subscription that was not accepted
				self.cmds.remove(&k);
				self.acks.remove(&k);
				r
			}
			"clone" => match self.cmd(k, Cmd::Clone).await { Some(Ack::Ok) => "ok".into(), o => format!("odd-ack:{o:?}") },
			"dropSink" => match self.cmd(k, Cmd::DropSink).await { Some(Ack::Ok) => "ok".into(), o => format!("odd-ack:{o:?}") },
			"send" => {
				// payloads are numbered 1, 2, .. per subscription, as the spec numbers the notifications it enqueues
				let n = self.sent.get(&k).cloned().unwrap_or(0) + 1;
				match self.cmd(k, Cmd::Send(n)).await {
					Some(Ack::Ok) => {
						self.sent.insert(k, n);
						"ok".into()
					}
					Some(Ack::Err) => "err".into(),
					o => format!("odd-ack:{o:?}"),
				}
			}
			"panic" => {
				// no acknowledgement can follow a panic: the command channel closing is the signal
				let _ = self.cmds.get(&k).map(|c| c.send(Cmd::Panic));
				let gone = tokio::time::timeout(WAIT, async {
					while let Some(rx) = self.acks.get_mut(&k) {
						if rx.recv().await.is_none() {
							break;
						}
					}
				})
				.await
				.is_ok();
				self.cmds.remove(&k);
				self.acks.remove(&k);
				if gone { "ok".into() } else { "keeper-did-not-end".into() }
			}
			"return" => match self.cmd(k, Cmd::Return(op["closing"] == json!(true))).await { Some(Ack::Ok) => "ok".to_string(), o => format!("odd-ack:{o:?}") },
			"unsub" => {
				let c = op["c"].as_u64().unwrap();
				self.next_id += 1;
				let id = self.next_id;
				let sid = self.sub_ids.get(&k).cloned().unwrap_or(json!(format!("never-issued-{k}")));
				self.unsub_calls.insert(id, k);
				let conn = self.conns.get_mut(&c).unwrap();
				conn.send(&format!(r#"{{"jsonrpc":"2.0","id":{id},"method":"unsub","params":[{sid}]}}"#)).await;
				match conn.reply(id).await {
					Some(v) => v["result"].to_string(),
					None => "no-reply".into(),
				}
			}
			"connClose" => {
				let c = op["c"].as_u64().unwrap();
				self.conns.get_mut(&c).unwrap().close().await;
				"ok".into()
			}
			o => panic!("op {o}"),
		}
	}

	/// which live handlers report at least one closed sink / all sinks closed
	pub async fn closed_views(&mut self, ks: &[u64]) -> HashMap<u64, Vec<bool>> {
		let mut m = HashMap::new();
		for k in ks {
			if let Some(Ack::Closed(v)) = self.cmd(*k, Cmd::IsClosed).await {
				m.insert(*k, v);
			}
		}
		m
	}

	/// wait (bounded) until connection c's peer has received `want` frames; frames are moved from the reader's channel to `seen`
	pub async fn await_frames(&mut self, c: u64, want: usize) {
		let Some(conn) = self.conns.get_mut(&c) else { return };
		let deadline = tokio::time::Instant::now() + Duration::from_secs(2);
		while conn.seen.len() < want {
			match tokio::time::timeout_at(deadline, conn.frames.recv()).await {
				Ok(Some(f)) => conn.seen.push(f),
				_ => break,
			}
		}
	}

	/// Everything connection c's peer has received so far, abstracted to the spec's frame records.  An open connection is
	/// asked one more call first (its reply travels through the same queue, so everything enqueued before has arrived when
	/// it does); a closed one is read to its end.
	pub async fn frames_of(&mut self, c: u64) -> Vec<Value> {
		let Some(conn) = self.conns.get_mut(&c) else { return vec![] };
		if conn.open {
			let id = 777_000 + c;
			conn.send(&format!(r#"{{"jsonrpc":"2.0","id":{id},"method":"echo","params":[0]}}"#)).await;
			let _ = conn.reply(id).await;
		} else {
			while let Ok(Some(f)) = tokio::time::timeout(WAIT, conn.frames.recv()).await {
				conn.seen.push(f);
			}
		}
		let mut out = vec![];
		for f in &conn.seen {
			let Ok(v) = serde_json::from_str::<Value>(f) else {
				out.push(json!({"t": "unparseable", "text": f}));
				continue;
			};
			if let Some(id) = v.get("id").and_then(|i| i.as_u64()) {
				if (101..200).contains(&id) {
					let k = id - 100;
					if v.get("result").is_some() { out.push(json!({"t": "resp", "k": k})) } else { out.push(json!({"t": "err", "k": k, "code": v["error"]["code"]})) }
				} else if let Some(k) = self.unsub_calls.get(&id) {
					out.push(json!({"t": "unsubResp", "k": k, "v": v["result"]}));
				}
				// (marker and probe calls are the harness' own)
				continue;
			}
			let sid = &v["params"]["subscription"];
			let k = self.sub_ids.iter().find(|(_, s)| *s == sid).map(|(k, _)| json!(k)).unwrap_or(json!(format!("unknown-subscription:{sid}")));
			if v["method"] != "notif" {
				out.push(json!({"t": "foreign-method", "method": v["method"], "k": k}));
			} else if v["params"]["result"].is_u64() {
				out.push(json!({"t": "notif", "k": k, "n": v["params"]["result"]}));
			} else {
				out.push(json!({"t": "close", "k": k}));
			}
		}
		out
	}

	/// can connection c start one more subscription right now? (a probe subscription that is given up immediately)
	pub async fn probe_slot(&mut self, c: u64) -> Option<bool> {
		self.next_id += 1;
		let id = self.next_id;
		let conn = self.conns.get_mut(&c)?;
		if !conn.open {
			return None;
		}
		conn.send(&format!(r#"{{"jsonrpc":"2.0","id":{id},"method":"sub","params":[9999]}}"#)).await;
		let v = conn.reply(id).await?;
		Some(v["error"]["code"] != json!(-32006))
	}
}

pub fn replay(cases: &[Value], out: &mut Out) {
	let rt = tokio::runtime::Builder::new_multi_thread().worker_threads(8).enable_all().build().unwrap();
	rt.block_on(async {
		let all: Vec<(usize, Value)> = cases.iter().cloned().enumerate().collect();
		let mut handles = vec![];
		for chunk in all.chunks((all.len() / 16).max(1)) {
			let chunk = chunk.to_vec();
			handles.push(tokio::spawn(async move {
				let mut v = vec![];
				for (i, c) in chunk {
					v.push((i, one_case(&c, i).await));
				}
				v
			}));
		}
		for h in handles {
			for (i, (probs, d)) in h.await.unwrap() {
				out.problems(i, 0, probs, d);
			}
		}
	});
}

async fn one_case(c: &Value, idx: usize) -> (Vec<(String, Value)>, Value) {
	let cap = c["cap"].as_u64().unwrap() as u32;
	let conn_of_map: HashMap<u64, u64> =
		c["connof"].as_array().map(|a| a.iter().enumerate().map(|(i, v)| (i as u64 + 1, v.as_u64().unwrap())).collect()).unwrap_or_default();
	let nconns = conn_of_map.values().max().cloned().unwrap_or(1);
	let conn_of = move |k: u64| *conn_of_map.get(&k).unwrap_or(&1);
	let mut w = World::new(cap, nconns, 64).await;
	w.script.variant.store(idx as u64, std::sync::atomic::Ordering::Relaxed);
	let mut probs: Vec<(String, Value)> = vec![];
	let path = c["path"].as_array().unwrap();
	let wire_mode = c["frames"].as_array().map(|a| !a.is_empty()).unwrap_or(false);
	let mut log = vec![];
	for (n, st) in path.iter().enumerate() {
		let got = w.step(&st["op"], &conn_of).await;
		log.push(json!({"op": st["op"], "got": got}));
		if wire_mode {
			// serialised C04 replay: the next step is taken when every writer has drained (the spec's `Drained`)
			if let Some(nf) = st["nf"].as_array() {
				for (ci, n) in nf.iter().enumerate() {
					w.await_frames(ci as u64 + 1, n.as_u64().unwrap_or(0) as usize).await;
				}
			}
		}
		let want = st["res"].as_str().unwrap();
		if got != want {
			let opn = st["op"]["o"].as_str().unwrap();
			probs.push((format!("step:{opn}:exp-{want}-got-{}", if got.len() > 24 { "other" } else { got.as_str() }), json!({"case": c, "step": n, "log": log})));
			return (probs, Value::Null);
		}
	}
	// ---- C04 (serialised): what every peer has received must be exactly what the spec has put on its connection, in order
	if let Some(exp) = c["frames"].as_array().filter(|a| !a.is_empty()) {
		for (ci, want) in exp.iter().enumerate() {
			let cn = ci as u64 + 1;
			let got = w.frames_of(cn).await;
			let want: Vec<Value> = want.as_array().cloned().unwrap_or_default();
			let norm = |v: &Value| -> String {
				// (field order / absent fields differ between the two sources)
				format!("{}:{}:{}:{}:{}", v["t"].as_str().unwrap_or("?"), v["k"], v.get("code").unwrap_or(&Value::Null), v.get("n").unwrap_or(&Value::Null), v.get("v").unwrap_or(&Value::Null))
			};
			// A closing notification is bounded from above only ("at most once, only for an accepted subscription, after the
			// response that accepted it"): one the spec has and the peer did not get is left out of the comparison (one the peer
			// got and the spec has not is still a difference).
			let want: Vec<Value> = {
				let mut kept = vec![];
				let mut gi = 0usize;
				for wv in want.iter() {
					let same = got.get(gi).map(|gv| norm(gv) == norm(wv)).unwrap_or(false);
					if same {
						gi += 1;
						kept.push(wv.clone());
					} else if wv["t"] == "close" {
						continue;
					} else {
						kept.push(wv.clone());
						gi += 1;
					}
				}
				kept
			};
			let (g, x): (Vec<String>, Vec<String>) = (got.iter().map(norm).collect(), want.iter().map(norm).collect());
			if g != x {
				// name the first difference by kind
				let i = g.iter().zip(x.iter()).position(|(a, b)| a != b).unwrap_or(g.len().min(x.len()));
				let kind = match (got.get(i), want.get(i)) {
					(Some(a), None) => format!("extra-{}", a["t"].as_str().unwrap_or("?")),
					(None, Some(b)) => format!("missing-{}", b["t"].as_str().unwrap_or("?")),
					(Some(a), Some(b)) => format!("got-{}-exp-{}", a["t"].as_str().unwrap_or("?"), b["t"].as_str().unwrap_or("?")),
					_ => "?".into(),
				};
				probs.push((format!("wire:{kind}"), json!({"case": c, "conn": cn, "got": got, "want": want, "log": log})));
			}
		}
		if !probs.is_empty() {
			return (probs, Value::Null);
		}
	}
	// ---- projection of the final state
	let fin = &c["final"];
	// (a) is_closed as seen by every handler that still holds sinks
	let live: Vec<u64> = w.cmds.keys().cloned().collect();
	let views = w.closed_views(&live).await;
	let want_closed: Vec<u64> = fin["closed"].as_array().unwrap().iter().map(|k| k.as_u64().unwrap()).collect();
	for (k, v) in &views {
		if v.is_empty() {
			continue;
		}
		let any = v.iter().any(|b| *b);
		let all = v.iter().all(|b| *b);
		let want = want_closed.contains(k);
		if any != all {
			probs.push(("final:sink-clones-disagree-on-closed".into(), json!({"case": c, "k": k, "views": v, "log": log})));
		} else if any != want {
			probs.push((format!("final:is_closed-exp-{want}-got-{any}"), json!({"case": c, "k": k, "log": log})));
		}
	}
	// (b) free slots: a probe subscription on every open connection must be admitted iff the spec has a free permit
	let permits = fin["permits"].as_array().unwrap();
	for (ci, p) in permits.iter().enumerate() {
		let cn = ci as u64 + 1;
		if let Some(admitted) = w.probe_slot(cn).await {
			let want = p.as_u64().unwrap() > 0;
			if admitted != want {
				probs.push((format!("final:free-slot-exp-{want}-got-{admitted}"), json!({"case": c, "conn": cn, "log": log})));
			}
		}
	}
	// (c) the subscriber table itself, last because asking changes it: an unsubscribe from the subscription's own connection
	// answers true exactly for the entries the spec still has
	let table: Vec<u64> = fin["table"].as_array().map(|a| a.iter().filter_map(|k| k.as_u64()).collect()).unwrap_or_default();
	let mut ks: Vec<u64> = w.sub_ids.keys().cloned().collect();
	ks.sort();
	for k in ks {
		let cn = conn_of(k);
		if !w.conns.get(&cn).map(|c| c.open).unwrap_or(false) {
			continue;
		}
		let got = w.step(&json!({"o": "unsub", "c": cn, "k": k}), &conn_of).await;
		let want = if table.contains(&k) { "true" } else { "false" };
		if got != want {
			probs.push((format!("final:table-entry-exp-{want}-got-{got}"), json!({"case": c, "k": k, "log": log})));
		}
	}
	(probs, Value::Null)
}
