//! `vh` - conformance harness binding the TLA+ specification in /verif/spec to the jsonrpsee tree in /repo.
#![allow(clippy::all)]
pub mod common;
pub mod server_rig;
pub mod wire;
pub mod endpoints;
pub mod client_rig;
pub mod client_scen;
pub mod c03_http;
pub mod c04_subs_conc;
pub mod c06_subs;
pub mod c07_limits;
pub mod c01_single;
pub mod c02_batch;
pub mod c19_http_gate;
pub mod c10_stop;
pub mod c11_guard;
pub mod c12_batch;
pub mod c13_registry;
pub mod c14_host_filter;
pub mod c15_wire_types;
pub mod c16_params_seq;
pub mod c17_rpc_macro;
pub mod c20_params_builder;

/// a string whose JSON serialisation (quotes included) is exactly `n` bytes (n >= 2); kind: ascii | esc | multi
pub fn limits_payload(n: usize, kind: &str) -> String {
	let body = n.saturating_sub(2);
	let mut s = String::new();
	match kind {
		"esc" => {
			for _ in 0..body / 2 {
				s.push('"');
			}
		}
		"multi" => {
			for _ in 0..body / 2 {
				s.push('\u{e9}');
			}
		}
		_ => {
			for _ in 0..body {
				s.push('a');
			}
		}
	}
	if kind != "ascii" && body % 2 == 1 {
		s.push('a');
	}
	debug_assert_eq!(serde_json::to_string(&s).unwrap().len(), n.max(2));
	s
}
pub mod ws_connect;
