//! `vh` - conformance harness binding the TLA+ specification in /verif/spec to the jsonrpsee tree in /repo.
#![allow(clippy::all)]
pub mod common;
pub mod c13_registry;
pub mod c16_params_seq;
pub mod c20_params_builder;
