//! C12 (replay part): every reply enumerated by ClientBatch.tla for one batch, against the async client (in-memory
//! transport) and against the HTTP client (scripted tower service instead of the network).
use crate::client_rig::*;
use crate::common::*;
use jsonrpsee_core::client::{BatchResponse, ClientT, Error};
use jsonrpsee_core::params::{ArrayParams, BatchRequestBuilder};
use jsonrpsee_http_client::{HttpClientBuilder, HttpRequest, HttpResponse};
use serde_json::{Value, json};
use std::sync::Arc;
use std::time::Duration;

/// the caller's result type R: `{"tok": <number>}` decodes, anything else does not
#[derive(serde::Deserialize, Debug)]
struct Tok {
	tok: i64,
}

/// the reply text: element i (1-based position p) answers `id` with token p; every third element is an error object; the
/// element at position `undec` (when it is a result) carries its token as a string, which does not decode into `Tok`
fn reply_text(ids: &[i64], string_ids: bool, undec: usize) -> String {
	let els: Vec<String> = ids
		.iter()
		.enumerate()
		.map(|(i, id)| {
			let p = i + 1;
			let idj = if string_ids { format!("\"{id}\"") } else { id.to_string() };
			if p % 3 == 0 {
				format!(r#"{{"jsonrpc":"2.0","id":{idj},"error":{{"code":-32000,"message":"e","data":{p}}}}}"#)
			} else if p == undec {
				format!(r#"{{"jsonrpc":"2.0","id":{idj},"result":{{"tok":"{p}"}}}}"#)
			} else {
				format!(r#"{{"jsonrpc":"2.0","id":{idj},"result":{{"tok":{p}}}}}"#)
			}
		})
		.collect();
	format!("[{}]", els.join(","))
}

fn observe(r: Result<BatchResponse<Tok>, Error>) -> Value {
	match r {
		Ok(br) => {
			let (ok, failed, len) = (br.num_successful_calls(), br.num_failed_calls(), br.len());
			// the all-or-errors view of the same response: how many values `ok()` hands out (-1: it reports errors instead)
			let ok_view = br.ok().map(|it| it.count() as i64).unwrap_or(-1);
			let entries_err = br.iter().filter(|e| e.is_err()).count();
			let slots: Vec<i64> = br
				.into_iter()
				.map(|e| match e {
					Ok(v) => v.tok,
					Err(eo) => eo.data().and_then(|d| serde_json::from_str::<i64>(d.get()).ok()).unwrap_or(-1),
				})
				.collect();
			json!({"k": "ok", "slots": slots, "ok": ok, "failed": failed, "len": len, "ok_view": ok_view, "entries_err": entries_err})
		}
		Err(e) => json!({"k": "fail", "err": e.to_string()}),
	}
}

/// is the observation acceptable under the property (mirror of ClientBatch!Acceptable, plus the counts)
fn acceptable(c: &Value, o: &Value) -> Option<String> {
	let n = c["n"].as_u64().unwrap() as usize;
	let start = c["start"].as_i64().unwrap();
	let reply: Vec<i64> = c["reply"].as_array().unwrap().iter().map(|x| x.as_i64().unwrap()).collect();
	let perm = c["permutation"].as_bool().unwrap();
	if o["k"] == "fail" {
		return if perm { Some("complete-reply-failed".into()) } else { None };
	}
	let slots: Vec<i64> = o["slots"].as_array().unwrap().iter().map(|x| x.as_i64().unwrap()).collect();
	if slots.len() != n {
		return Some(if slots.len() < n { "shorter-result".into() } else { "longer-result".into() });
	}
	let undec = c["undec"].as_i64().unwrap();
	for (i, t) in slots.iter().enumerate() {
		let own = start + i as i64;
		if undec > 0 && undec % 3 != 0 && *t == undec {
			return Some("slot-shows-a-value-that-does-not-decode".into());
		}
		if *t == -1 {
			if perm {
				return Some("slot-empty-for-complete-reply".into());
			}
			continue;
		}
		if *t < 1 || *t as usize > reply.len() || reply[*t as usize - 1] != own {
			return Some("slot-holds-another-entrys-answer".into());
		}
	}
	// counts: every third reply element is an error object; placeholders count as failed
	let failed = slots.iter().filter(|t| **t == -1 || **t % 3 == 0).count() as u64;
	let ok = n as u64 - failed;
	if o["ok"].as_u64() != Some(ok) || o["failed"].as_u64() != Some(failed) || o["entries_err"].as_u64() != Some(failed) {
		return Some("success-failure-counts-differ".into());
	}
	// the all-or-errors view hands out every value or none
	let view = o["ok_view"].as_i64().unwrap();
	if view >= 0 && (view as usize != n || failed != 0) {
		return Some("ok-view-shorter-than-the-batch".into());
	}
	None
}

#[derive(Clone)]
struct Scripted(Arc<parking_lot::Mutex<String>>);
impl<B> tower::Service<HttpRequest<B>> for Scripted {
	type Response = HttpResponse;
	type Error = jsonrpsee_http_client::transport::Error;
	type Future = std::pin::Pin<Box<dyn std::future::Future<Output = Result<HttpResponse, Self::Error>> + Send>>;
	fn poll_ready(&mut self, _: &mut std::task::Context<'_>) -> std::task::Poll<Result<(), Self::Error>> {
		std::task::Poll::Ready(Ok(()))
	}
	fn call(&mut self, _req: HttpRequest<B>) -> Self::Future {
		let body = self.0.lock().clone();
		Box::pin(async move {
			Ok(http::Response::builder().status(200).header("content-type", "application/json").body(jsonrpsee_http_client::HttpBody::from(body)).unwrap())
		})
	}
}

pub fn replay(cases: &[Value], out: &mut crate::common::Out) {
	let rt = tokio::runtime::Builder::new_current_thread().enable_all().build().unwrap();
	let mut drift = 0u64;
	rt.block_on(async {
		for (i, c) in cases.iter().enumerate() {
			let n = c["n"].as_u64().unwrap() as usize;
			let start = c["start"].as_i64().unwrap();
			let reply: Vec<i64> = c["reply"].as_array().unwrap().iter().map(|x| x.as_i64().unwrap()).collect();
			let string_ids = i % 2 == 1;
			let text = reply_text(&reply, string_ids, c["undec"].as_u64().unwrap() as usize);
			let mut probs: Vec<(String, Value)> = vec![];
			let mk_batch = || {
				let mut b = BatchRequestBuilder::new();
				for _ in 0..n {
					b.insert("m", ArrayParams::new()).unwrap();
				}
				b
			};
			// ---------------- async client: burn `start` ids first so that the batch gets the wire ids start..start+n
			{
				let rig = build(8, 4, string_ids, Duration::from_secs(3), i as u64);
				let mut burn = vec![];
				for _ in 0..start {
					let cl = rig.client.clone();
					burn.push(tokio::spawn(async move {
						let _ = cl.request::<Value, _>("m", ArrayParams::new()).await;
					}));
					settle(3).await;
				}
				// answer the burners so that nothing else is pending
				let burn_ids: Vec<Value> = rig.wire.lock().iter().map(|o| o.ids[0].clone()).collect();
				for id in burn_ids {
					let _ = rig.peer_tx.send(PeerItem::Text(format!(r#"{{"jsonrpc":"2.0","id":{id},"result":{{"tok":0}}}}"#), Value::Null));
				}
				settle(20).await;
				let cl = rig.client.clone();
				let b = mk_batch();
				let task = tokio::spawn(async move { cl.batch_request::<Tok>(b).await });
				settle(10).await;
				let on_wire: Vec<i64> = rig.wire.lock().iter().filter(|o| o.kind == "batch").flat_map(|o| o.ids.iter().map(id_as_num).collect::<Vec<_>>()).collect();
				let want_wire: Vec<i64> = (start..start + n as i64).collect();
				if on_wire != want_wire {
					probs.push(("async:batch-ids-not-the-reserved-range".into(), json!({"case": c, "on_wire": on_wire})));
				} else {
					let _ = rig.peer_tx.send(PeerItem::Text(text.clone(), Value::Null));
					settle(20).await;
					if !task.is_finished() {
						// the reply completed nothing: end the connection so that the call fails with the cause
						let _ = rig.peer_tx.send(PeerItem::Fail("peerClose".into()));
					}
					let o = match tokio::time::timeout(Duration::from_secs(5), task).await {
						Ok(Ok(r)) => observe(r),
						_ => json!({"k": "fail", "err": "TIMEOUT"}),
					};
					if o["err"] == "TIMEOUT" {
						probs.push(("async:batch-future-stalled".into(), json!({"case": c})));
					} else {
						if let Some(p) = acceptable(c, &o) {
							probs.push((format!("async:{p}"), json!({"case": c, "observed": o, "text": text})));
						}
						// the async client is modelled exactly: compare with the spec's strict outcome
						let strict = &c["strict"];
						let same = if strict["k"] == "fail" { o["k"] == "fail" } else { o["k"] == "ok" && o["slots"] == strict["slots"] };
						if !same {
							// not a violation by itself (the property leaves the choice between failing the call and reporting
							// the entry as an error open): counted, and reported in the evidence as drift between code and model
							drift += 1;
						}
					}
				}
			}
			// ---------------- HTTP client over a scripted service
			{
				let script = Scripted(Arc::new(parking_lot::Mutex::new(text.clone())));
				let s2 = script.clone();
				let client = HttpClientBuilder::default()
					.id_format(if string_ids { jsonrpsee_core::client::IdKind::String } else { jsonrpsee_core::client::IdKind::Number })
					.set_http_middleware(tower::ServiceBuilder::new().layer(tower::layer::layer_fn(move |_inner: jsonrpsee_http_client::transport::HttpBackend| s2.clone())))
					.build("http://localhost:1")
					.expect("http client builds");
				*script.0.lock() = r#"{"jsonrpc":"2.0","id":0,"result":{"tok":0}}"#.to_string();
				for k in 0..start {
					*script.0.lock() = format!(r#"{{"jsonrpc":"2.0","id":{},"result":{{"tok":0}}}}"#, if string_ids { format!("\"{k}\"") } else { k.to_string() });
					let _ = client.request::<Value, _>("m", ArrayParams::new()).await;
				}
				*script.0.lock() = text.clone();
				let o = observe(client.batch_request::<Tok>(mk_batch()).await);
				if let Some(p) = acceptable(c, &o) {
					probs.push((format!("http:{p}"), json!({"case": c, "observed": o, "text": text})));
				}
			}
			out.problems(i, 0, probs, Value::Null);
		}
	});
	out.raw(&json!({"stat": "model_drift", "n": drift}));
}
