//! C04: concurrent subscription scenarios on the real server (multi-threaded runtime, handlers following random scripts,
//! peers subscribing / unsubscribing / closing / stopping at random moments).  Every scenario is one ndjson trace that
//! Trace_ServerSubs.tla must accept.
use crate::client_rig::Tracer;
use crate::common::*;
use crate::server_rig::*;
use jsonrpsee_server::{RpcModule, SubscriptionCloseResponse, SubscriptionMessage, SubscriptionSink};
use jsonrpsee_types::ErrorObjectOwned;
use parking_lot::Mutex;
use rand::Rng;
use rand::rngs::StdRng;
use serde_json::{Value, json};
use std::collections::HashMap;
use std::sync::Arc;
use std::time::Duration;

const WAIT: Duration = Duration::from_secs(8);

#[derive(Clone, Debug)]
enum HOp {
	/// one notification, through `send` (0), `send_timeout` (1) or `try_send` retried while the queue is full (2)
	Send(u8),
	Clone,
	DropClone,
	/// let go of the oldest sink (at first the one `accept()` returned) while clones stay
	DropOldest,
	IsClosed,
	Yield(u8),
}
#[derive(Clone, Debug)]
struct HScript {
	first: &'static str, // accept | reject | drop
	ops: Vec<HOp>,
	closing: bool,
}

struct Ctx {
	tracer: Tracer,
	scripts: Mutex<HashMap<u64, HScript>>,
	/// stall scenario: the handler tells the driver that the connection's outbound side is saturated, the driver tells the
	/// handler when `stopped()` has resolved
	stall_full: tokio::sync::Notify,
	stall_go: tokio::sync::Notify,
}

async fn pause(n: u8) {
	for _ in 0..n {
		tokio::task::yield_now().await;
	}
	if n > 2 {
		tokio::time::sleep(Duration::from_micros(50 * n as u64)).await;
	}
}

fn module(ctx: Arc<Ctx>) -> RpcModule<Arc<Ctx>> {
	let mut m = RpcModule::new(ctx);
	m.register_method("echo", |p, _, _| p.parse::<Value>().unwrap_or(Value::Null)).unwrap();
	m.register_subscription("sub", "notif", "unsub", |params, pending, ctx, _| async move {
		let k: u64 = params.one().unwrap_or(0);
		let t = ctx.tracer.clone();
		let Some(script) = ctx.scripts.lock().remove(&k) else { return SubscriptionCloseResponse::None };
		t.ev(json!({"ev": "HStart", "k": k}));
		let mut sinks: Vec<SubscriptionSink> = vec![];
		match script.first {
			"reject" => {
				t.ev(json!({"ev": "HReject", "k": k}));
				pending.reject(ErrorObjectOwned::owned(1, "rejected", None::<()>)).await;
				// a closing value returned by a handler whose subscription was never accepted must be discarded
				return closing_value(script.closing);
			}
			"drop" => {
				t.ev(json!({"ev": "HDropPending", "k": k}));
				drop(pending);
				return closing_value(script.closing);
			}
			"acceptTimeout" => {
				// the handler gives `accept` 15 ms (the connection is saturated: pressure scenario) and then gives the subscription
				// up - for the connection that is a pending sink dropped; the closing value it returns must be discarded
				match tokio::time::timeout(Duration::from_millis(15), pending.accept()).await {
					Err(_) => {
						t.ev(json!({"ev": "HDropPending", "k": k}));
						return closing_value(script.closing);
					}
					Ok(Ok(s)) => {
						// (there was room after all: an ordinary accept, logged after the fact)
						t.ev(json!({"ev": "HAcceptStart", "k": k}));
						t.ev(json!({"ev": "HAcceptEnd", "k": k, "ok": true}));
						sinks.push(s);
					}
					Ok(Err(_)) => {
						t.ev(json!({"ev": "HAcceptStart", "k": k}));
						t.ev(json!({"ev": "HAcceptEnd", "k": k, "ok": false}));
						return SubscriptionCloseResponse::None;
					}
				}
			}
			_ => {
				t.ev(json!({"ev": "HAcceptStart", "k": k}));
				match pending.accept().await {
					Ok(s) => {
						t.ev(json!({"ev": "HAcceptEnd", "k": k, "ok": true}));
						sinks.push(s);
					}
					Err(_) => {
						t.ev(json!({"ev": "HAcceptEnd", "k": k, "ok": false}));
						return SubscriptionCloseResponse::None;
					}
				}
			}
		}
		let mut sent = 0u64;
		if script.first == "stall" || script.first == "fill" {
			// saturate the connection (the peer has stopped reading): padded notifications until the queue reports Full
			let pad = "p".repeat(64 * 1024);
			for _ in 0..10_000 {
				let n = sent + 1;
				let raw = serde_json::value::to_raw_value(&json!({"n": n, "pad": pad})).unwrap();
				match sinks[0].try_send(SubscriptionMessage::from(raw)) {
					Ok(()) => {
						// (logged after the fact: a Full attempt is not a send)
						t.ev(json!({"ev": "HSendStart", "k": k, "n": n, "how": 2}));
						t.ev(json!({"ev": "HSendEnd", "k": k, "n": n, "ok": true}));
						sent += 1;
					}
					Err(jsonrpsee_server::TrySendError::Full(_)) => {
						// give the writer a chance to move what it can, then see whether it is really stuck
						tokio::time::sleep(Duration::from_millis(5)).await;
						let raw = serde_json::value::to_raw_value(&json!({"n": n, "pad": pad})).unwrap();
						match sinks[0].try_send(SubscriptionMessage::from(raw)) {
							Ok(()) => {
								t.ev(json!({"ev": "HSendStart", "k": k, "n": n, "how": 2}));
								t.ev(json!({"ev": "HSendEnd", "k": k, "n": n, "ok": true}));
								sent += 1;
							}
							_ => break,
						}
					}
					Err(_) => break,
				}
			}
			if script.first == "fill" {
				// really full: a waiting send finds no room for 40 ms (an attempt that times out is not a send and leaves nothing queued)
				loop {
					let n = sent + 1;
					let raw = serde_json::value::to_raw_value(&json!({"n": n, "pad": pad})).unwrap();
					match sinks[0].send_timeout(SubscriptionMessage::from(raw), Duration::from_millis(40)).await {
						Ok(()) => {
							t.ev(json!({"ev": "HSendStart", "k": k, "n": n, "how": 1}));
							t.ev(json!({"ev": "HSendEnd", "k": k, "n": n, "ok": true}));
							sent += 1;
						}
						Err(_) => break,
					}
				}
			}
			ctx.stall_full.notify_one();
			ctx.stall_go.notified().await;
		}
		if script.first == "stall" {
			// the server has reported `stopped`: the sink must say closed, and a send started now must be refused as closed
			let b = sinks[0].is_closed();
			t.ev(json!({"ev": "HIsClosed", "k": k, "b": b, "after_stopped": true}));
			let n = sent + 1;
			let raw = serde_json::value::to_raw_value(&json!({"n": n, "pad": "late"})).unwrap();
			t.ev(json!({"ev": "HSendStart", "k": k, "n": n, "how": 2}));
			match sinks[0].try_send(SubscriptionMessage::from(raw)) {
				Err(jsonrpsee_server::TrySendError::Closed(_)) => t.ev(json!({"ev": "HSendEnd", "k": k, "n": n, "ok": false})),
				Ok(()) => t.ev(json!({"ev": "HSendEnd", "k": k, "n": n, "ok": true})),
				Err(_) => t.ev(json!({"ev": "HSendNotRefused", "k": k, "n": n, "why": "Full: the channel of a stopped connection is still open"})),
			}
		}
		for op in &script.ops {
			match op {
				HOp::Send(how) => {
					let n = sent + 1;
					t.ev(json!({"ev": "HSendStart", "k": k, "n": n, "how": how}));
					let raw = serde_json::value::to_raw_value(&n).unwrap();
					let which = sinks.len() - 1;
					let ok = match how {
						0 => sinks[which].send(SubscriptionMessage::from(raw)).await.is_ok(),
						1 => sinks[which].send_timeout(SubscriptionMessage::from(raw), Duration::from_secs(5)).await.is_ok(),
						_ => {
							let mut ok = false;
							for _ in 0..200_000 {
								match sinks[which].try_send(SubscriptionMessage::from(raw.clone())) {
									Ok(()) => {
										ok = true;
										break;
									}
									Err(jsonrpsee_server::TrySendError::Full(_)) => tokio::task::yield_now().await,
									Err(_) => break,
								}
							}
							ok
						}
					};
					if ok {
						sent += 1;
					}
					t.ev(json!({"ev": "HSendEnd", "k": k, "n": n, "ok": ok}));
				}
				HOp::Clone => {
					if sinks.len() < 3 {
						let c = sinks[0].clone();
						sinks.push(c);
						t.ev(json!({"ev": "HClone", "k": k}));
					}
				}
				HOp::DropOldest => {
					if sinks.len() > 1 {
						t.ev(json!({"ev": "HDropSink", "k": k}));
						drop(sinks.remove(0));
					}
				}
				HOp::DropClone => {
					if sinks.len() > 1 {
						// the event is logged first: the table may change as soon as the drop runs
						t.ev(json!({"ev": "HDropSink", "k": k}));
						sinks.pop();
					}
				}
				HOp::IsClosed => {
					let b = sinks[0].is_closed();
					t.ev(json!({"ev": "HIsClosed", "k": k, "b": b}));
				}
				HOp::Yield(n) => pause(*n).await,
			}
		}
		while let Some(s) = sinks.pop() {
			t.ev(json!({"ev": "HDropSink", "k": k}));
			drop(s);
		}
		t.ev(json!({"ev": "HReturn", "k": k, "closing": script.closing}));
		closing_value(script.closing)
	})
	.unwrap();
	m
}

fn closing_value(closing: bool) -> SubscriptionCloseResponse {
	if closing {
		SubscriptionCloseResponse::Notif(SubscriptionMessage::from(serde_json::value::to_raw_value(&"bye").unwrap()))
	} else {
		SubscriptionCloseResponse::None
	}
}

fn gen_script(rng: &mut StdRng) -> HScript {
	let first = match rng.random_range(0..10) {
		0 => "reject",
		1 => "drop",
		_ => "accept",
	};
	let n = rng.random_range(0..7);
	let ops = (0..n)
		.map(|_| match rng.random_range(0..10) {
			0..=4 => HOp::Send(rng.random_range(0..3)),
			5 => HOp::Clone,
			6 => {
				if rng.random_bool(0.5) {
					HOp::DropClone
				} else {
					HOp::DropOldest
				}
			}
			7 => HOp::IsClosed,
			_ => HOp::Yield(rng.random_range(0..6)),
		})
		.collect();
	HScript { first, ops, closing: rng.random_bool(0.6) }
}

pub fn run(nscen: usize, out_path: &str) {
	let rt = tokio::runtime::Builder::new_multi_thread().worker_threads(4).enable_all().build().unwrap();
	let mut outf = crate::common::Out::create(out_path);
	for sc in 0..nscen {
		let mut rng = rng_for(sc, 4);
		let evs = match sc % 15 {
			14 => rt.block_on(stall_scenario(sc)),
			7 => rt.block_on(pressure_scenario(sc)),
			_ => rt.block_on(scenario(&mut rng, sc)),
		};
		for e in evs {
			outf.raw(&e);
		}
	}
	outf.finish();
}

/// One connection whose peer stops reading after the subscription was accepted; the handler saturates the outbound side; the
/// server is told to stop.  `stopped()` may only resolve when the connection is really over - and once it has resolved the
/// subscription's sink must report closed and refuse sends (C04: "closed ... by the server stopping").  While the peer merely
/// sits there the unchanged server keeps waiting for its writer; the scenario then lets the peer go away.
async fn stall_scenario(sc: usize) -> Vec<Value> {
	let tracer = Tracer::default();
	let ctx = Arc::new(Ctx { tracer: tracer.clone(), scripts: Mutex::new(HashMap::new()), stall_full: tokio::sync::Notify::new(), stall_go: tokio::sync::Notify::new() });
	ctx.scripts.lock().insert(1, HScript { first: "stall", ops: vec![], closing: false });
	let methods: jsonrpsee_server::Methods = module(ctx.clone()).into();
	let rig = Rig::with_methods(RigCfg { max_subs: 1, buf_cap: 2, ..Default::default() }, Default::default(), methods);
	tracer.ev(json!({"ev": "Reset", "sc": sc, "cap": 1, "stall": true}));
	let (stop, handle) = jsonrpsee_server::stop_channel();
	let svc = rig.svc(stop.clone());
	let Ok(ws) = WsPeer::connect_with_pipe(svc, stop, handle.clone(), &[], 64 * 1024).await else {
		tracer.ev(json!({"ev": "End"}));
		return tracer.take();
	};
	let WsPeer { mut tx, mut rx, stop: stop_handle, .. } = ws;
	tracer.ev(json!({"ev": "SendSub", "k": 1}));
	let _ = tx.send_text(r#"{"jsonrpc":"2.0","id":101,"method":"sub","params":[1]}"#).await;
	let _ = tx.flush().await;
	// the peer reads the response that accepts the subscription - and nothing after it
	let mut data = Vec::new();
	if rx.receive_data(&mut data).await.is_ok() {
		let v: Value = serde_json::from_slice(&data).unwrap_or(Value::Null);
		if v.get("result").is_some() {
			tracer.ev(json!({"ev": "Recv", "c": 1, "f": {"t": "resp", "k": 1}}));
		}
	}
	let _ = tokio::time::timeout(WAIT, ctx.stall_full.notified()).await;
	tracer.ev(json!({"ev": "Stop", "c": 1}));
	let _ = handle.stop();
	drop(stop_handle);
	// does `stopped()` resolve while the peer is still there, not reading?
	let early = tokio::time::timeout(Duration::from_millis(1400), handle.clone().stopped()).await.is_ok();
	if !early {
		// it does not (the writer is still owed to the peer): the peer gives up
		tracer.ev(json!({"ev": "PeerClose", "c": 1}));
		drop(tx);
		drop(rx);
		tracer.ev(json!({"ev": "EofPeerClosed", "c": 1}));
		let _ = tokio::time::timeout(WAIT, handle.clone().stopped()).await;
	}
	tracer.ev(json!({"ev": "ConnStopped", "c": 1, "peer_still_connected": early}));
	ctx.stall_go.notify_one();
	for _ in 0..200 {
		if ctx.scripts.lock().is_empty() && tracer.0.lock().iter().any(|e| e["ev"] == "HReturn") {
			break;
		}
		tokio::time::sleep(Duration::from_millis(5)).await;
	}
	if early {
		tracer.ev(json!({"ev": "EofPeerClosed", "c": 1}));
	}
	tracer.ev(json!({"ev": "End"}));
	tracer.take()
}

/// A subscribe call that arrives while the connection's outbound side is saturated (the peer has stopped reading, another
/// subscription of the connection has filled pipe and message buffer): its handler accepts and sends its first notification at
/// once.  When the peer reads on, the answer that accepts the subscription must still come before that notification.
async fn pressure_scenario(sc: usize) -> Vec<Value> {
	let tracer = Tracer::default();
	let ctx = Arc::new(Ctx { tracer: tracer.clone(), scripts: Mutex::new(HashMap::new()), stall_full: tokio::sync::Notify::new(), stall_go: tokio::sync::Notify::new() });
	ctx.scripts.lock().insert(1, HScript { first: "fill", ops: vec![], closing: false });
	// every other pressure scenario: the second handler abandons its `accept` instead of waiting for room
	let abandon = (sc / 15) % 2 == 1;
	ctx.scripts.lock().insert(2, HScript { first: if abandon { "acceptTimeout" } else { "accept" }, ops: vec![HOp::Send((sc % 2) as u8), HOp::Send(0)], closing: abandon || sc % 4 < 2 });
	let methods: jsonrpsee_server::Methods = module(ctx.clone()).into();
	let rig = Rig::with_methods(RigCfg { max_subs: 2, buf_cap: 2, ..Default::default() }, Default::default(), methods);
	tracer.ev(json!({"ev": "Reset", "sc": sc, "cap": 2, "pressure": true}));
	let (stop, handle) = jsonrpsee_server::stop_channel();
	let svc = rig.svc(stop.clone());
	let Ok(ws) = WsPeer::connect_with_pipe(svc, stop, handle.clone(), &[], 64 * 1024).await else {
		tracer.ev(json!({"ev": "End"}));
		return tracer.take();
	};
	let WsPeer { mut tx, mut rx, stop: stop_handle, .. } = ws;
	let mut sub_ids: HashMap<u64, Value> = HashMap::new();
	tracer.ev(json!({"ev": "SendSub", "k": 1}));
	let _ = tx.send_text(r#"{"jsonrpc":"2.0","id":101,"method":"sub","params":[1]}"#).await;
	let _ = tx.flush().await;
	let mut data = Vec::new();
	if rx.receive_data(&mut data).await.is_ok() {
		let v: Value = serde_json::from_slice(&data).unwrap_or(Value::Null);
		if v.get("result").is_some() {
			sub_ids.insert(1, v["result"].clone());
			tracer.ev(json!({"ev": "Recv", "c": 1, "f": {"t": "resp", "k": 1}}));
		}
	}
	// the peer reads nothing more until the outbound side is full; then the second subscribe call goes in
	let _ = tokio::time::timeout(WAIT, ctx.stall_full.notified()).await;
	tracer.ev(json!({"ev": "SendSub", "k": 2}));
	let _ = tx.send_text(r#"{"jsonrpc":"2.0","id":102,"method":"sub","params":[2]}"#).await;
	let _ = tx.flush().await;
	// its handler runs into the full buffer; a moment later the peer reads on
	tokio::time::sleep(Duration::from_millis(30)).await;
	let t2 = tracer.clone();
	let reader = tokio::spawn(async move {
		loop {
			let mut data = Vec::new();
			match rx.receive_data(&mut data).await {
				Ok(_) => {
					let v: Value = serde_json::from_slice(&data).unwrap_or(Value::Null);
					let f = if let Some(id) = v["id"].as_u64() {
						let k = id - 100;
						if v.get("result").is_some() {
							sub_ids.insert(k, v["result"].clone());
							json!({"t": "resp", "k": k})
						} else {
							json!({"t": "err", "k": k, "code": v["error"]["code"]})
						}
					} else {
						let sid = &v["params"]["subscription"];
						let k = sub_ids.iter().find(|(_, s)| *s == sid).map(|(k, _)| *k as i64).unwrap_or(-1);
						match &v["params"]["result"] {
							Value::Number(n) => json!({"t": "notif", "k": k, "n": n}),
							Value::Object(o) if o.contains_key("n") => json!({"t": "notif", "k": k, "n": o["n"]}),
							_ => json!({"t": "close", "k": k}),
						}
					};
					t2.ev(json!({"ev": "Recv", "c": 1, "f": f}));
				}
				Err(_) => {
					t2.ev(json!({"ev": "Eof", "c": 1}));
					break;
				}
			}
		}
	});
	// the second handler gets through now; then the first one is let go
	for _ in 0..400 {
		if tracer.0.lock().iter().any(|e| (e["ev"] == "HReturn" || e["ev"] == "HDropPending") && e["k"] == 2) {
			break;
		}
		tokio::time::sleep(Duration::from_millis(5)).await;
	}
	ctx.stall_go.notify_one();
	for _ in 0..400 {
		if ctx.scripts.lock().is_empty() && tracer.0.lock().iter().filter(|e| e["ev"] == "HReturn" || e["ev"] == "HDropPending").count() == 2 {
			break;
		}
		tokio::time::sleep(Duration::from_millis(5)).await;
	}
	tokio::time::sleep(Duration::from_millis(3)).await;
	tracer.ev(json!({"ev": "Stop", "c": 1}));
	let _ = handle.stop();
	drop(stop_handle);
	let _ = tokio::time::timeout(WAIT, reader).await;
	drop(tx);
	tracer.ev(json!({"ev": "End"}));
	tracer.take()
}

fn conn_of(k: u64) -> u64 {
	if k == 3 { 2 } else { 1 }
}

async fn scenario(rng: &mut StdRng, sc: usize) -> Vec<Value> {
	let tracer = Tracer::default();
	let cap: u32 = rng.random_range(1..4);
	let ctx = Arc::new(Ctx { tracer: tracer.clone(), scripts: Mutex::new(HashMap::new()), stall_full: tokio::sync::Notify::new(), stall_go: tokio::sync::Notify::new() });
	for k in 1..=3u64 {
		ctx.scripts.lock().insert(k, gen_script(rng));
	}
	let log: Log = Default::default();
	let methods: jsonrpsee_server::Methods = module(ctx.clone()).into();
	let rig = Arc::new(Rig::with_methods(RigCfg { max_subs: cap, buf_cap: 2, ..Default::default() }, log, methods));
	tracer.ev(json!({"ev": "Reset", "sc": sc, "cap": cap}));
	let sub_ids: Arc<Mutex<HashMap<u64, Value>>> = Default::default();
	let mut peers = vec![];
	for c in 1..=2u64 {
		let rig = rig.clone();
		let tracer = tracer.clone();
		let sub_ids = sub_ids.clone();
		// the peer's plan, drawn up front so the scenario is a function of the seed
		let mut ks: Vec<u64> = (1..=3).filter(|k| conn_of(*k) == c).collect();
		if rng.random_bool(0.5) {
			ks.reverse();
		}
		let n_unsubs = rng.random_range(0..4);
		let unsubs: Vec<(u64, u8)> = (0..n_unsubs).map(|_| (rng.random_range(1..4), rng.random_range(0..8))).collect();
		let ending = rng.random_range(0..3); // 0: stop at the end, 1: stop early, 2: peer closes early
		let end_after = rng.random_range(1..8) as u8;
		let delays: Vec<u8> = (0..8).map(|_| rng.random_range(0..6)).collect();
		peers.push(tokio::spawn(async move { peer(rig, tracer, c, ks, unsubs, ending, end_after, delays, sub_ids).await }));
	}
	for p in peers {
		let _ = tokio::time::timeout(Duration::from_secs(20), p).await;
	}
	// give handler tasks that are still running (their connection is gone) a moment to finish and log
	for _ in 0..50 {
		if ctx.scripts.lock().is_empty() {
			break;
		}
		tokio::task::yield_now().await;
	}
	tokio::time::sleep(Duration::from_millis(5)).await;
	tracer.ev(json!({"ev": "End"}));
	tracer.take()
}

#[allow(clippy::too_many_arguments)]
async fn peer(rig: Arc<Rig>, tracer: Tracer, c: u64, ks: Vec<u64>, unsubs: Vec<(u64, u8)>, ending: u8, end_after: u8, delays: Vec<u8>, sub_ids: Arc<Mutex<HashMap<u64, Value>>>) {
	let (stop, handle) = jsonrpsee_server::stop_channel();
	let svc = rig.svc(stop.clone());
	let Ok(ws) = WsPeer::connect(svc, stop, handle.clone(), &[]).await else { return };
	let WsPeer { mut tx, mut rx, stop: stop_handle, .. } = ws;
	// reader: abstracts every frame and logs it at once
	let t2 = tracer.clone();
	let ids2 = sub_ids.clone();
	let unsub_calls: Arc<Mutex<HashMap<u64, u64>>> = Default::default();
	let uc2 = unsub_calls.clone();
	let peer_closes = ending == 2;
	let reader = tokio::spawn(async move {
		loop {
			let mut data = Vec::new();
			match rx.receive_data(&mut data).await {
				Ok(_) => {
					let v: Value = serde_json::from_slice(&data).unwrap_or(Value::Null);
					let f = if let Some(id) = v["id"].as_u64() {
						if (101..=103).contains(&id) {
							let k = id - 100;
							if v.get("result").is_some() {
								ids2.lock().insert(k, v["result"].clone());
								json!({"t": "resp", "k": k})
							} else {
								json!({"t": "err", "k": k, "code": v["error"]["code"]})
							}
						} else {
							let k = uc2.lock().get(&id).cloned().unwrap_or(0);
							json!({"t": "unsubResp", "k": k, "v": v["result"]})
						}
					} else {
						let sid = &v["params"]["subscription"];
						let k = ids2.lock().iter().find(|(_, s)| *s == sid).map(|(k, _)| *k as i64).unwrap_or(-1);
						match &v["params"]["result"] {
							Value::Number(n) => json!({"t": "notif", "k": k, "n": n}),
							Value::Object(o) if o.contains_key("n") => json!({"t": "notif", "k": k, "n": o["n"]}),
							_ => json!({"t": "close", "k": k}),
						}
					};
					t2.ev(json!({"ev": "Recv", "c": c, "f": f}));
				}
				Err(_) => {
					t2.ev(json!({"ev": if peer_closes { "EofPeerClosed" } else { "Eof" }, "c": c}));
					break;
				}
			}
		}
	});
	let mut step = 0u8;
	let mut next_id = 1000 + c * 100;
	let mut ended = false;
	let mut unsub_iter = unsubs.into_iter();
	for k in ks {
		pause(delays[step as usize % delays.len()]).await;
		tracer.ev(json!({"ev": "SendSub", "k": k}));
		let _ = tx.send_text(format!(r#"{{"jsonrpc":"2.0","id":{},"method":"sub","params":[{k}]}}"#, 100 + k)).await;
		let _ = tx.flush().await;
		step += 1;
	}
	loop {
		step += 1;
		if !ended && ending > 0 && step >= end_after {
			ended = true;
			if ending == 1 {
				tracer.ev(json!({"ev": "Stop", "c": c}));
				let _ = handle.stop();
			} else {
				tracer.ev(json!({"ev": "PeerClose", "c": c}));
				let _ = tx.close().await;
			}
			break;
		}
		match unsub_iter.next() {
			Some((k, d)) => {
				pause(d).await;
				let known = sub_ids.lock().get(&k).cloned();
				next_id += 1;
				let (label, sid) = match known {
					Some(s) => (k, s),
					None => (0, json!("never-issued")),
				};
				unsub_calls.lock().insert(next_id, label);
				tracer.ev(json!({"ev": "SendUnsub", "c": c, "k": label}));
				let _ = tx.send_text(format!(r#"{{"jsonrpc":"2.0","id":{next_id},"method":"unsub","params":[{sid}]}}"#)).await;
				let _ = tx.flush().await;
			}
			None => {
				pause(delays[step as usize % delays.len()]).await;
				if step > 12 {
					break;
				}
			}
		}
	}
	if !ended {
		// let the handlers work for a while, then stop this connection gracefully
		tokio::time::sleep(Duration::from_millis(3)).await;
		tracer.ev(json!({"ev": "Stop", "c": c}));
		let _ = handle.stop();
	}
	drop(stop_handle);
	if ending == 2 {
		// the peer closed: it does not read any more; the reader task ends on its own
		let _ = tokio::time::timeout(Duration::from_millis(200), reader).await;
	} else {
		let _ = tokio::time::timeout(WAIT, reader).await;
	}
}
