//! C14: replay of HostFilter.tla (allow-list x request form -> allowed verdicts) through the real HostFilterLayer.
use crate::common::*;
use bytes::Bytes;
use http_body_util::Empty;
use jsonrpsee_server::middleware::http::HostFilterLayer;
use jsonrpsee_server::{HttpBody, HttpRequest, HttpResponse};
use rand::Rng;
use rand::rngs::StdRng;
use serde_json::{Value, json};
use std::sync::Arc;
use std::sync::atomic::{AtomicUsize, Ordering};
use tower::{Layer, Service};

fn label(l: &str) -> &'static str {
	match l {
		"a" => "parity",
		"b" => "io",
		"evil" => "evil",
		"*" => "*",
		o => panic!("label {o}"),
	}
}
thread_local! {
	/// IP mode of the case being concretised: single-label hosts are spelled as IP literals (a renaming of the labels)
	static IP_MODE: std::cell::Cell<bool> = const { std::cell::Cell::new(false) };
}
fn ip_literal(l: &str) -> &'static str {
	match l {
		"a" => "[::1]",
		"b" => "[2001:db8::1]",
		_ => "127.0.0.9",
	}
}
fn host_text(h: &Value) -> String {
	let ls = h.as_array().unwrap();
	if IP_MODE.with(|m| m.get()) && ls.len() == 1 {
		return ip_literal(ls[0].as_str().unwrap()).to_string();
	}
	ls.iter().map(|l| label(l.as_str().unwrap())).collect::<Vec<_>>().join(".")
}
/// can every allow-list entry of the case be renamed to an IP literal? (single labels, no wildcard; requests for other hosts
/// are left out in that mode)
fn ip_mode_possible(c: &Value) -> bool {
	let single = |h: &Value| h.as_array().map(|a| a.len() == 1 && a[0] != "*").unwrap_or(false);
	!c["list"].as_array().unwrap().is_empty() && c["list"].as_array().unwrap().iter().all(|e| single(&e["host"]))
}

fn entry_text(e: &Value, rng: &mut StdRng) -> String {
	let h = host_text(&e["host"]);
	let bare_ok = h != "*"; // a bare "*" is the asterisk-form request target, not an authority
	let opts: Vec<String> = match e["port"].as_str().unwrap() {
		"default" => {
			let mut v = vec![format!("http://{h}"), format!("http://{h}:80"), format!("https://{h}:443"), format!("ws://{h}:80"), format!("https://{h}")];
			if bare_ok {
				v.push(h.clone());
				v.push(h.clone());
			}
			v
		}
		"any" => vec![format!("{h}:*"), format!("http://{h}:*")],
		"f80" => vec![format!("{h}:80"), format!("https://{h}:80")],
		"f443" => vec![format!("{h}:443"), format!("http://{h}:443")],
		_ => vec![format!("{h}:8080"), format!("http://{h}:8080"), format!("https://{h}:8080/path")],
	};
	opts[rng.random_range(0..opts.len())].clone()
}

fn port_suffix(p: &str) -> &'static str {
	match p {
		"default" => "",
		"f80" => ":80",
		"f443" => ":443",
		_ => ":8080",
	}
}

#[derive(Clone)]
struct Inner(Arc<AtomicUsize>);
impl Service<HttpRequest<Empty<Bytes>>> for Inner {
	type Response = HttpResponse;
	type Error = jsonrpsee_core::BoxError;
	type Future = std::pin::Pin<Box<dyn std::future::Future<Output = Result<HttpResponse, Self::Error>> + Send>>;
	fn poll_ready(&mut self, _: &mut std::task::Context<'_>) -> std::task::Poll<Result<(), Self::Error>> {
		std::task::Poll::Ready(Ok(()))
	}
	fn call(&mut self, _: HttpRequest<Empty<Bytes>>) -> Self::Future {
		self.0.fetch_add(1, Ordering::SeqCst);
		Box::pin(async { Ok(HttpResponse::new(HttpBody::from("inner"))) })
	}
}

/// (Host header values, request target) for an abstract request
fn request_parts(r: &Value, rng: &mut StdRng) -> (Vec<Vec<u8>>, String) {
	let h = host_text(&r["host"]);
	let ps = port_suffix(r["port"].as_str().unwrap());
	if r["k"] == "bad" {
		let hv: Vec<Vec<u8>> = match r["why"].as_str().unwrap() {
			"extraColon" => vec![format!("{h}:80:80").into_bytes()],
			"badPort" => vec![[format!("{h}:99999"), format!("{h}:-1"), format!("{h}:abc"), format!("{h}:65536")][rng.random_range(0..4)].clone().into_bytes()],
			"emptyPort" => vec![format!("{h}:").into_bytes()],
			"nonAscii" => vec!["parit\u{e9}".as_bytes().to_vec()],
			"withPath" => vec![[format!("{h}/path"), format!("{h}:8080/x")][rng.random_range(0..2)].clone().into_bytes()],
			"emptyHost" => vec![vec![]],
			"starPort" => vec![format!("{h}:*").into_bytes()],
			_ => vec![h.clone().into_bytes(), h.clone().into_bytes()],
		};
		let target = if r["uri"] == "valid" { format!("http://{h}/") } else { "/".to_string() };
		return (hv, target);
	}
	let auth = format!("{h}{ps}");
	let spelled = match r["form"].as_str().unwrap() {
		"plain" => auth.clone(),
		"userinfo" => [format!("user@{auth}"), format!("user:pw@{auth}"), format!("evil@{auth}"), format!("parity.io:80@{auth}")][rng.random_range(0..4)].clone(),
		"upper" => format!("{}{}", h.to_ascii_uppercase(), ps),
		"trailingDot" => format!("{h}.{ps}"),
		_ => match ps {
			":80" => format!("{h}:0080"),
			":443" => format!("{h}:00443"),
			":8080" => format!("{h}:08080"),
			_ => auth.clone(),
		},
	};
	match r["uri"].as_str().unwrap() {
		"absent" => (vec![spelled.into_bytes()], "/".into()),
		"equal" => (vec![spelled.into_bytes()], format!("http://{auth}/")),
		"otherHost" => (vec![spelled.into_bytes()], format!("http://other.{auth}/")),
		"otherPort" => (vec![spelled.into_bytes()], if ps.is_empty() { format!("http://{h}:9999/") } else { format!("http://{h}/") }),
		_ => (vec![], format!("http://{auth}/rpc")),
	}
}

pub fn replay(cases: &[Value], out: &mut Out) {
	let rt = tokio::runtime::Builder::new_current_thread().enable_all().build().unwrap();
	rt.block_on(async {
		for (i, c) in cases.iter().enumerate() {
			for k in 0..k_concretisations() {
				let mut rng = rng_for(i, k);
				// every other eligible case names its hosts by IP literals; entries that are `ip:port` are then handed to the layer
				// as `SocketAddr` values (the other way of configuring it) when all of them are
				let ip_mode = ip_mode_possible(c) && (i + k) % 2 == 0;
				IP_MODE.with(|m| m.set(ip_mode));
				let entries: Vec<String> = if ip_mode {
					c["list"].as_array().unwrap().iter().map(|e| {
						let h = host_text(&e["host"]);
						match e["port"].as_str().unwrap() {
							"default" => h,
							"any" => format!("{h}:*"),
							p => format!("{h}{}", port_suffix(p)),
						}
					}).collect()
				} else {
					c["list"].as_array().unwrap().iter().map(|e| entry_text(e, &mut rng)).collect()
				};
				let addrs: Vec<std::net::SocketAddr> = entries.iter().filter_map(|e| e.parse().ok()).collect();
				let built = if ip_mode && !entries.is_empty() && addrs.len() == entries.len() {
					HostFilterLayer::new(addrs.clone())
				} else {
					HostFilterLayer::new(entries.iter().map(|s| s.as_str()))
				};
				let layer = match built {
					Ok(l) => l,
					Err(e) => {
						out.verdict(i, k, Some("allow-list-entry-rejected".into()), json!({"entries": entries, "err": e.to_string()}));
						continue;
					}
				};
				let calls = Arc::new(AtomicUsize::new(0));
				let mut svc = layer.layer(Inner(calls.clone()));
				let mut probs: Vec<(String, Value)> = vec![];
				let mut nreq = 0;
				for rv in c["reqs"].as_array().unwrap() {
					let r = &rv["r"];
					let allowed: Vec<&str> = rv["v"].as_array().unwrap().iter().map(|v| v.as_str().unwrap()).collect();
					if ip_mode && r["k"] != "bad" && (!matches!(r["form"].as_str().unwrap(), "plain" | "userinfo") || r["uri"] == "otherHost") {
						continue; // upper-casing, a trailing dot or a zero-padded port are spellings of names, not of IP literals
					}
					if ip_mode && ((r["k"] == "bad" && r["why"] == "nonAscii") || r["host"].as_array().map(|a| a.len() != 1 || a[0] == "*").unwrap_or(true)) {
						continue;
					}
					let (hosts, target) = request_parts(r, &mut rng);
					// (the verdict is about the authority: it must be the same whatever the method - a preflight, a handshake ...)
					let method = ["POST", "POST", "GET", "OPTIONS", "PUT", "HEAD"][rng.random_range(0..6)];
					let mut rb = http::Request::builder().method(method).uri(target.as_str());
					let mut ok = true;
					for hv in &hosts {
						match http::HeaderValue::from_bytes(hv) {
							Ok(v) => rb = rb.header(http::header::HOST, v),
							Err(_) => ok = false,
						}
					}
					let req = match (ok, rb.body(Empty::<Bytes>::new())) {
						(true, Ok(r)) => r,
						_ => continue, // not representable as an HTTP request at all
					};
					nreq += 1;
					let before = calls.load(Ordering::SeqCst);
					let resp = svc.call(req).await.expect("layer is infallible here");
					let called = calls.load(Ordering::SeqCst) > before;
					let got = if called { "pass".to_string() } else { resp.status().as_u16().to_string() };
					if !allowed.contains(&got.as_str()) {
						let what = if got == "pass" { "admitted-but-no-entry-matches".to_string() } else { format!("exp-{}-got-{got}", allowed.join("|")) };
						let form = if r["k"] == "bad" { format!("malformed-{}", r["why"].as_str().unwrap()) } else { format!("{}-uri-{}", r["form"].as_str().unwrap(), r["uri"].as_str().unwrap()) };
						probs.push((
							format!("{what}:{form}:list{}", entries.len()),
							json!({"entries": entries, "list": c["list"], "request": r, "host_headers": hosts.iter().map(|h| String::from_utf8_lossy(h).into_owned()).collect::<Vec<_>>(), "target": target, "got": got, "allowed": allowed}),
						));
					}
				}
				out.problems(i, k, probs, json!({"requests": nreq}));
				out.raw(&json!({"stat": "requests", "n": nreq}));
			}
		}
	});
}
