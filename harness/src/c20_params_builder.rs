//! C20: replay of ParamsBuilder.tla behaviours into ArrayParams / ObjectParams / BatchRequestBuilder / ToRpcParams impls.
use crate::common::*;
use jsonrpsee_core::params::{ArrayParams, BatchRequestBuilder, ObjectParams};
use jsonrpsee_core::traits::ToRpcParams;
use serde::ser::{Error as _, SerializeSeq};
use serde_json::{Value, json};

/// a value whose Serialize impl fails after 0 / some / all-but-the-closing bytes
struct Failing(&'static str);
impl serde::Serialize for Failing {
	fn serialize<S: serde::Serializer>(&self, s: S) -> Result<S::Ok, S::Error> {
		match self.0 {
			"never" => s.serialize_str("fine"),
			"f0" => Err(S::Error::custom("fails before writing")),
			"fmid" => {
				let mut seq = s.serialize_seq(None)?;
				seq.serialize_element(&1u8)?;
				seq.serialize_element("x,]")?;
				Err(S::Error::custom("fails midway"))
			}
			_ => {
				let mut seq = s.serialize_seq(None)?;
				seq.serialize_element(&json!({"a": [1, 2]}))?;
				seq.serialize_element(&2u8)?;
				// everything but the closing bracket has been written
				Err(S::Error::custom("fails before the closing token"))
			}
		}
	}
}
fn fclass(s: &str) -> &'static str {
	match s {
		"f0" => "f0",
		"fmid" => "fmid",
		_ => "fend",
	}
}

fn strs_of(v: &Value) -> Vec<&str> {
	v.as_array().map(|a| a.iter().filter_map(|x| x.as_str()).collect()).unwrap_or_default()
}

enum B {
	A(ArrayParams),
	O(ObjectParams),
}

fn observe_build(b: B) -> Value {
	match catch(move || match b {
		B::A(a) => a.to_rpc_params(),
		B::O(o) => o.to_rpc_params(),
	}) {
		Err(p) => json!({"k": "panic", "msg": p}),
		Ok(Err(e)) => json!({"k": "err", "msg": e.to_string()}),
		Ok(Ok(None)) => json!({"k": "none"}),
		// (the builder assembles bytes by hand: check that they are text at all before treating them as such)
		Ok(Ok(Some(raw))) if std::str::from_utf8(raw.get().as_bytes()).is_err() => {
			json!({"k": "invalid", "text": String::from_utf8_lossy(raw.get().as_bytes()), "msg": "not UTF-8"})
		}
		Ok(Ok(Some(raw))) => match serde_json::from_str::<Value>(raw.get()) {
			Ok(v) => json!({"k": "some", "text": raw.get(), "value": v}),
			Err(e) => json!({"k": "invalid", "text": raw.get(), "msg": e.to_string()}),
		},
	}
}

pub fn replay(cases: &[Value], out: &mut Out) {
	for (i, c) in cases.iter().enumerate() {
		for k in 0..k_concretisations() {
			let mut rng = rng_for(i, k);
			if c["kind"] == "ctor" {
				ctor_case(i, k, c, &mut rng, out);
			} else {
				builder_case(i, k, c, &mut rng, out);
			}
		}
	}
}

fn builder_case(i: usize, k: usize, c: &Value, rng: &mut rand::rngs::StdRng, out: &mut Out) {
	let named = c["kind"] == "object";
	let mut b = if named { B::O(ObjectParams::new()) } else { B::A(ArrayParams::new()) };
	let mut inserted: Vec<(String, Value)> = vec![];
	let mut had_fail = false;
	let mut first_key: Option<String> = None;
	let mut log = vec![];
	let ops = c["ops"].as_array().unwrap();
	for (n, op) in ops.iter().enumerate() {
		let fresh = format!("{}#{}", gen_string(rng), n);
		// "again": the name of the history's first insert (whether or not that one succeeded)
		let key = if op["nm"] == "again" { first_key.clone().unwrap_or(fresh) } else { fresh };
		if first_key.is_none() {
			first_key = Some(key.clone());
		}
		if op["op"] == "clone" {
			// the application goes on with a copy of the builder
			b = match &b {
				B::A(a) => B::A(a.clone()),
				B::O(o) => B::O(o.clone()),
			};
			log.push(json!({"op": "clone"}));
			continue;
		}
		let r = if op["op"] == "ins" {
			let v = gen_value(op["v"].as_str().unwrap(), rng);
			let r = match catch(std::panic::AssertUnwindSafe(|| match &mut b {
				B::A(a) => a.insert(&v),
				B::O(o) => o.insert(&key, &v),
			})) {
				Ok(r) => r,
				Err(p) => {
					log.push(json!({"op": "ins", "key": key, "v": v, "panic": p}));
					out.verdict(i, k, Some("insert:panic".into()), json!({"case": c, "log": log}));
					return;
				}
			};
			if r.is_ok() {
				inserted.push((key.clone(), v.clone()));
			}
			log.push(json!({"op": "ins", "key": key, "v": v, "ok": r.is_ok()}));
			r.is_ok()
		} else {
			had_fail = true;
			let f = Failing(fclass(op["v"].as_str().unwrap()));
			let r = match &mut b {
				B::A(a) => a.insert(&f),
				B::O(o) => o.insert(&key, &f),
			};
			log.push(json!({"op": "fail", "key": key, "v": op["v"], "ok": r.is_ok()}));
			r.is_ok()
		};
		let want_ok = op["res"] == "ok";
		if r != want_ok {
			out.verdict(i, k, Some(format!("insert-result:{}", if r { "ok-for-failing-value" } else { "err-for-good-value" })), json!({"case": c, "log": log}));
			return;
		}
	}
	let obs = observe_build(b);
	let exp = &c["expect"];
	let want: Value = if named {
		// parsed as a map: the last successfully inserted value of each name (for distinct names: every pair)
		Value::Object(inserted.iter().cloned().collect())
	} else {
		Value::Array(inserted.iter().map(|(_, v)| v.clone()).collect())
	};
	let repeated = ops.iter().any(|o| o["nm"] == "again");
	let ctx = match (had_fail, repeated) {
		(true, true) => "after-failed-insert-repeated-name",
		(true, false) => "after-failed-insert",
		(false, true) => "repeated-name",
		(false, false) => "no-failed-insert",
	};
	let bad = match (exp["k"].as_str().unwrap(), obs["k"].as_str().unwrap()) {
		("none", "none") => None,
		("noneOrEmpty", "none") => None,
		("noneOrEmpty", "some") if obs["value"] == want => None,
		("some", "some") if obs["value"] == want => {
			// named: also demand insertion order of keys (preserve_order is on in the harness' serde_json)
			None
		}
		(_, "some") => Some("wrong-values"),
		(_, "panic") => Some("panic"),
		(_, "invalid") => Some("invalid-json"),
		(_, "none") => Some("none-for-nonempty"),
		(_, _) => Some("error"),
	};
	out.verdict(i, k, bad.map(|b| format!("build:{b}:{ctx}")), json!({"case": c, "log": log, "observed": obs, "want": want}));
}

fn ctor_case(i: usize, k: usize, c: &Value, rng: &mut rand::rngs::StdRng, out: &mut Out) {
	let op = &c["ops"][0];
	let n = op["n"].as_u64().unwrap() as usize;
	let ctor = op["c"].as_str().unwrap();
	let vals: Vec<Value> = (0..n).map(|j| gen_value(["scalar", "str", "nested", "emptyc"][(j + rng.random_range(0..4)) % 4], rng)).collect();
	use rand::Rng;
	let keys: Vec<String> = (0..n).map(|j| format!("{}#{}", gen_string(rng), j)).collect();
	macro_rules! tup {
		($($i:expr),+) => { ($(vals[$i].clone(),)+).to_rpc_params() };
	}
	// what this thread did just before: possibly a one-shot conversion that failed part-way (it must report an error, not
	// panic - and must not leave anything behind that the measured conversion could pick up)
	let after: Vec<&str> = strs_of(&op["after"]);
	if after.len() == 2 {
		let f = fclass(after[1]);
		let first = gen_value("scalar", rng);
		let prior: Result<Result<Option<Box<serde_json::value::RawValue>>, serde_json::Error>, String> = catch(|| match after[0] {
			"tuple" => (first.clone(), Failing(f), 3u8).to_rpc_params(),
			"vec" => vec![Failing("never"), Failing(f)].to_rpc_params(),
			"slice" => (&[Failing("never"), Failing("never"), Failing(f)][..]).to_rpc_params(),
			_ => [Failing(f)].to_rpc_params(),
		});
		match prior {
			Ok(Err(_)) => {}
			Err(p) => {
				out.verdict(i, k, Some(format!("ctor:{}:failing-conversion-panicked", after[0])), json!({"case": c, "msg": p}));
				return;
			}
			Ok(Ok(o)) => {
				out.verdict(i, k, Some(format!("ctor:{}:failing-conversion-reported-success", after[0])), json!({"case": c, "text": o.map(|r| r.get().to_string())}));
				return;
			}
		}
	}
	let res: Result<Result<Option<Box<serde_json::value::RawValue>>, serde_json::Error>, String> = catch(|| match ctor {
		"tuple" => match n {
			1 => tup!(0),
			2 => tup!(0, 1),
			3 => tup!(0, 1, 2),
			4 => tup!(0, 1, 2, 3),
			5 => tup!(0, 1, 2, 3, 4),
			6 => tup!(0, 1, 2, 3, 4, 5),
			7 => tup!(0, 1, 2, 3, 4, 5, 6),
			8 => tup!(0, 1, 2, 3, 4, 5, 6, 7),
			9 => tup!(0, 1, 2, 3, 4, 5, 6, 7, 8),
			10 => tup!(0, 1, 2, 3, 4, 5, 6, 7, 8, 9),
			11 => tup!(0, 1, 2, 3, 4, 5, 6, 7, 8, 9, 10),
			12 => tup!(0, 1, 2, 3, 4, 5, 6, 7, 8, 9, 10, 11),
			13 => tup!(0, 1, 2, 3, 4, 5, 6, 7, 8, 9, 10, 11, 12),
			14 => tup!(0, 1, 2, 3, 4, 5, 6, 7, 8, 9, 10, 11, 12, 13),
			15 => tup!(0, 1, 2, 3, 4, 5, 6, 7, 8, 9, 10, 11, 12, 13, 14),
			_ => tup!(0, 1, 2, 3, 4, 5, 6, 7, 8, 9, 10, 11, 12, 13, 14, 15),
		},
		"vec" => vals.clone().to_rpc_params(),
		"slice" => (&vals[..]).to_rpc_params(),
		"array" => match n {
			0 => { let a: [Value; 0] = []; a.to_rpc_params() }
			1 => [vals[0].clone()].to_rpc_params(),
			2 => [vals[0].clone(), vals[1].clone()].to_rpc_params(),
			_ => [vals[0].clone(), vals[1].clone(), vals[2].clone()].to_rpc_params(),
		},
		"map" => {
			let mut m = serde_json::Map::new();
			for (kk, v) in keys.iter().zip(vals.iter()) {
				m.insert(kk.clone(), v.clone());
			}
			m.to_rpc_params()
		}
		"macro" => match n {
			0 => jsonrpsee_core::rpc_params![].to_rpc_params(),
			1 => jsonrpsee_core::rpc_params![&vals[0]].to_rpc_params(),
			2 => jsonrpsee_core::rpc_params![&vals[0], &vals[1]].to_rpc_params(),
			_ => jsonrpsee_core::rpc_params![&vals[0], &vals[1], &vals[2]].to_rpc_params(),
		},
		_ => unreachable!(),
	});
	if ctor == "batch" {
		batch_case(i, k, c, n, &vals, out);
		return;
	}
	let want = if ctor == "map" { Value::Object(keys.iter().cloned().zip(vals.iter().cloned()).collect()) } else { Value::Array(vals.clone()) };
	let exp = c["expect"]["k"].as_str().unwrap();
	let (obs, bad) = match res {
		Err(p) => (json!({"k":"panic","msg":p}), Some("panic")),
		Ok(Err(e)) => (json!({"k":"err","msg":e.to_string()}), Some("error")),
		Ok(Ok(None)) => (json!({"k":"none"}), if exp == "none" { None } else { Some("none-for-nonempty") }),
		Ok(Ok(Some(raw))) => match serde_json::from_str::<Value>(raw.get()) {
			Err(_) => (json!({"k":"invalid","text":raw.get()}), Some("invalid-json")),
			Ok(v) => {
				let bad = if exp != "some" { Some("some-for-empty") } else if v != want { Some("wrong-values") } else { None };
				(json!({"k":"some","text":raw.get()}), bad)
			}
		},
	};
	let ctx = if after.len() == 2 { ":after-failed-conversion" } else { "" };
	out.verdict(i, k, bad.map(|b| format!("ctor:{ctor}:{b}{ctx}")), json!({"case": c, "observed": obs, "want": want}));
}

fn batch_case(i: usize, k: usize, c: &Value, n: usize, vals: &[Value], out: &mut Out) {
	let names: Vec<String> = (0..n).map(|j| format!("m{j}")).collect();
	let mut b = BatchRequestBuilder::new();
	for j in 0..n {
		// entry j carries j params (0 params => empty builder => None)
		let mut a = ArrayParams::new();
		for v in vals.iter().take(j) {
			a.insert(v).unwrap();
		}
		b.insert(&names[j], a).unwrap();
	}
	let iter_view: Vec<(String, Option<String>)> = b.iter().map(|(m, p)| (m.to_string(), p.map(|p| p.get().to_string()))).collect();
	let exp = c["expect"]["k"].as_str().unwrap();
	let bad = match b.build() {
		Err(_) => if exp == "emptybatch" { None } else { Some("empty-for-nonempty") },
		Ok(entries) => {
			if exp == "emptybatch" {
				Some("ok-for-empty")
			} else if entries.len() != n {
				Some("wrong-length")
			} else {
				let mut bad = None;
				for (j, (m, p)) in entries.iter().enumerate() {
					let want: Option<Value> = if j == 0 { None } else { Some(Value::Array(vals.iter().take(j).cloned().collect())) };
					let got = p.as_ref().map(|p| serde_json::from_str::<Value>(p.get()).unwrap_or(json!("<<invalid>>")));
					if *m != names[j] || got != want || iter_view[j].0 != names[j] || iter_view[j].1 != p.as_ref().map(|p| p.get().to_string()) {
						bad = Some("wrong-entry");
					}
				}
				bad
			}
		}
	};
	out.verdict(i, k, bad.map(|b| format!("ctor:batch:{b}")), json!({"case": c}));
}
