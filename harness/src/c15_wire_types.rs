//! C15: response-parser acceptance over member sequences, the error-code table (incl. a sweep of all i32 codes against
//! the table exported by TLC), and seeded round trips of the public wire types.
use crate::common::*;
use jsonrpsee_types::error::ErrorCode;
use jsonrpsee_types::{ErrorObjectOwned, Id, Notification, Request, Response, ResponsePayload, SubscriptionId};
use rand::Rng;
use rand::rngs::StdRng;
use serde_json::{Value, json};
use std::borrow::Cow;

fn kind_name(k: &ErrorCode) -> &'static str {
	match k {
		ErrorCode::ParseError => "ParseError",
		ErrorCode::OversizedRequest => "OversizedRequest",
		ErrorCode::InvalidRequest => "InvalidRequest",
		ErrorCode::MethodNotFound => "MethodNotFound",
		ErrorCode::ServerIsBusy => "ServerIsBusy",
		ErrorCode::InvalidParams => "InvalidParams",
		ErrorCode::InternalError => "InternalError",
		ErrorCode::ServerError(_) => "ServerError",
	}
}
fn kind_from_name(n: &str) -> ErrorCode {
	match n {
		"ParseError" => ErrorCode::ParseError,
		"OversizedRequest" => ErrorCode::OversizedRequest,
		"InvalidRequest" => ErrorCode::InvalidRequest,
		"MethodNotFound" => ErrorCode::MethodNotFound,
		"ServerIsBusy" => ErrorCode::ServerIsBusy,
		"InvalidParams" => ErrorCode::InvalidParams,
		"InternalError" => ErrorCode::InternalError,
		o => panic!("kind {o}"),
	}
}

fn member_text(cls: &str, rng: &mut StdRng, n: usize) -> (String, Option<Value>) {
	let p = |rng: &mut StdRng, xs: &[&str]| xs[rng.random_range(0..xs.len())].to_string();
	match cls {
		"j2" => ("\"jsonrpc\":\"2.0\"".into(), None),
		"jnull" => ("\"jsonrpc\":null".into(), None),
		"jother" => (format!("\"jsonrpc\":{}", p(rng, &["\"1.0\"", "\"2\"", "\"\"", "\"2.0 \""])), None),
		"jnonstr" => (format!("\"jsonrpc\":{}", p(rng, &["2", "2.0", "true", "[\"2.0\"]", "{}"])), None),
		"id" => {
			let t = p(rng, &["null", "0", "1", "18446744073709551615", "\"\"", "\"abc\"", "\"\\u00e9\\n\"", "9007199254740993"]);
			(format!("\"id\":{t}"), Some(serde_json::from_str(&t).unwrap()))
		}
		"idbad" => (format!("\"id\":{}", p(rng, &["-1", "1.5", "true", "{}", "[1]", "18446744073709551616"])), None),
		"res" => {
			let v = gen_value(["scalar", "str", "nested", "emptyc"][rng.random_range(0..4)], rng);
			(format!("\"result\":{v}"), Some(v))
		}
		"err" => {
			let code: i32 = [-32700, -32000, 0, 7, i32::MIN, i32::MAX, -32009][rng.random_range(0..7)];
			let v = if rng.random_bool(0.5) {
				json!({"code": code, "message": gen_string(rng)})
			} else {
				json!({"code": code, "message": gen_string(rng), "data": gen_value("nested", rng)})
			};
			(format!("\"error\":{v}"), Some(v))
		}
		"unk" => (format!("\"{}{}\":{}", p(rng, &["extra", "Result", "ID", "method", "params", "jsonrpc2"]), n, p(rng, &["1", "null", "{\"id\":1}", "[\"result\"]"])), None),
		o => panic!("member {o}"),
	}
}

pub fn replay(cases: &[Value], out: &mut Out) {
	for (i, c) in cases.iter().enumerate() {
		for k in 0..k_concretisations() {
			let mut rng = rng_for(i, k);
			if c.get("members").is_some() {
				members_case(i, k, c, &mut rng, out);
			} else {
				code_case(i, k, c, out);
			}
		}
	}
	sweep(cases, out);
	round_trips(out);
}

fn members_case(i: usize, k: usize, c: &Value, rng: &mut StdRng, out: &mut Out) {
	let ms: Vec<&str> = c["members"].as_array().unwrap().iter().map(|m| m.as_str().unwrap()).collect();
	let mut parts = vec![];
	let mut id = None;
	let mut payload: Option<(bool, Value)> = None;
	for (n, m) in ms.iter().enumerate() {
		let (t, v) = member_text(m, rng, n);
		match *m {
			"id" => id = v,
			"res" => payload = Some((true, v.unwrap())),
			"err" => payload = Some((false, v.unwrap())),
			_ => {}
		}
		parts.push(t);
	}
	let text = format!("{{{}}}", parts.join(","));
	let parsed = catch(|| serde_json::from_str::<Response<Value>>(&text));
	let want = c["accept"].as_bool().unwrap();
	let shape = {
		let dup = ["j", "id", "res", "err"].iter().any(|p| ms.iter().filter(|m| m.starts_with(p) && !(p == &"id" && **m == "idbad" && false)).count() > 1);
		if dup { "with-duplicate-member" } else { "no-duplicate" }
	};
	let key = match parsed {
		Err(p) => Some(format!("response-parser:panic:{p}")),
		Ok(Err(_)) if want => Some(format!("response-parser:rejects-valid:{shape}")),
		Ok(Ok(_)) if !want => Some(format!("response-parser:accepts-invalid:{shape}")),
		Ok(Err(_)) => None,
		Ok(Ok(r)) => {
			// the parsed value is what was sent, and it survives serialise -> parse -> serialise
			let sent_id = id.clone().unwrap();
			let got_id = serde_json::to_value(&r.id).unwrap();
			let (is_res, pv) = payload.clone().unwrap();
			let got_payload = match &r.payload {
				ResponsePayload::Success(v) => (true, v.clone().into_owned()),
				ResponsePayload::Error(e) => (false, serde_json::to_value(e).unwrap()),
			};
			if got_id != sent_id || got_payload != (is_res, pv) {
				Some("response-parser:value-differs-from-text".to_string())
			} else {
				let s1 = serde_json::to_string(&r).unwrap();
				match serde_json::from_str::<Response<Value>>(&s1) {
					Err(_) => Some("response:own-output-not-parseable".to_string()),
					Ok(r2) => {
						let s2 = serde_json::to_string(&r2).unwrap();
						if s1 != s2 { Some("response:reserialisation-differs".to_string()) } else { None }
					}
				}
			}
		}
	};
	out.verdict(i, k, key, json!({"case": c, "text": text}));
}

fn code_case(i: usize, k: usize, c: &Value, out: &mut Out) {
	let code = c["code"].as_i64().unwrap() as i32;
	let kind = ErrorCode::from(code);
	let mut probs = vec![];
	if kind.code() != code {
		probs.push((format!("code-table:code-{code}-maps-back-to-{}", kind.code()), json!({"case": c})));
	}
	if kind_name(&kind) != c["kind"].as_str().unwrap() {
		probs.push((format!("code-table:code-{code}-is-{}-expected-{}", kind_name(&kind), c["kind"].as_str().unwrap()), json!({"case": c})));
	}
	for (name, cv) in c["table"].as_object().unwrap() {
		let kd = kind_from_name(name);
		if kd.code() as i64 != cv.as_i64().unwrap() {
			probs.push((format!("code-table:kind-{name}-has-code-{}", kd.code()), json!({"case": c})));
		}
		if ErrorCode::from(kd.code()) != kd {
			probs.push((format!("code-table:kind-{name}-does-not-survive-round-trip"), json!({"code": kd.code(), "back": kind_name(&ErrorCode::from(kd.code()))})));
		}
	}
	// serde round trip of the code
	let s = serde_json::to_string(&kind).unwrap();
	if serde_json::from_str::<ErrorCode>(&s).ok() != Some(kind) {
		probs.push((format!("code-table:serde-round-trip-{code}"), json!({"text": s})));
	}
	out.problems(i, k, probs, Value::Null);
}

/// all i32 codes (or a stride in the quick tier) against the table TLC exported
fn sweep(cases: &[Value], out: &mut Out) {
	let Some(tc) = cases.iter().find(|c| c.get("table").is_some()) else { return };
	let table: Vec<(i32, ErrorCode)> = tc["table"].as_object().unwrap().iter().map(|(n, c)| (c.as_i64().unwrap() as i32, kind_from_name(n))).collect();
	let full = std::env::var("VERIF_SWEEP").map(|v| v == "full").unwrap_or(false);
	let threads = 8i64;
	let bad = std::sync::Mutex::new(Vec::<i32>::new());
	let count = std::sync::atomic::AtomicU64::new(0);
	std::thread::scope(|s| {
		for t in 0..threads {
			let table = &table;
			let bad = &bad;
			let count = &count;
			s.spawn(move || {
				let lo = i32::MIN as i64 + t * ((1i64 << 32) / threads);
				let hi = if t == threads - 1 { i32::MAX as i64 + 1 } else { lo + (1i64 << 32) / threads };
				let step = if full { 1 } else { 4099 };
				let mut c = lo + (seed() as i64 % step);
				let mut n = 0u64;
				while c < hi {
					let code = c as i32;
					let k = ErrorCode::from(code);
					let want = table.iter().find(|(tc, _)| *tc == code).map(|(_, k)| *k).unwrap_or(ErrorCode::ServerError(code));
					if k != want || k.code() != code {
						bad.lock().unwrap().push(code);
					}
					n += 1;
					c += step;
				}
				count.fetch_add(n, std::sync::atomic::Ordering::Relaxed);
			});
		}
	});
	// always: the dense window around the reserved range
	let mut n = 0u64;
	for code in -40000..=-30000 {
		let k = ErrorCode::from(code);
		let want = table.iter().find(|(tc, _)| *tc == code).map(|(_, k)| *k).unwrap_or(ErrorCode::ServerError(code));
		if k != want || k.code() != code {
			bad.lock().unwrap().push(code);
		}
		n += 1;
	}
	let mut bad = bad.into_inner().unwrap();
	bad.sort();
	bad.dedup();
	out.raw(&json!({"stat": "sweep", "n": count.load(std::sync::atomic::Ordering::Relaxed) + n, "full": full}));
	if !bad.is_empty() {
		let line = json!({"i": 0, "k": 0, "extra": true, "key": format!("code-table:sweep:code-{}-disagrees-with-table", bad[0]), "detail": {"codes": bad.iter().take(20).collect::<Vec<_>>()}});
		out.raw(&line);
	}
}

/// serialise -> parse -> equal, re-serialise -> same bytes, for values from seeded generators (sampling)
fn round_trips(out: &mut Out) {
	let mut rng = rng_for(0xC15, 0);
	let n = if std::env::var("VERIF_SWEEP").map(|v| v == "full").unwrap_or(false) { 200_000 } else { 20_000 };
	let mut bad: Vec<(String, String)> = vec![];
	let gen_id = |rng: &mut StdRng| -> Id<'static> {
		match rng.random_range(0..4) {
			0 => Id::Null,
			1 => Id::Number([0, 1, u64::MAX, 1 << 53, rng.random()][rng.random_range(0..5)]),
			_ => Id::Str(Cow::Owned(gen_string(rng))),
		}
	};
	for _ in 0..n {
		let id = gen_id(&mut rng);
		let s = serde_json::to_string(&id).unwrap();
		match serde_json::from_str::<Id>(&s) {
			Ok(b) if b == id && serde_json::to_string(&b).unwrap() == s => {}
			_ => bad.push(("id".into(), s.clone())),
		}
		let sid: SubscriptionId<'static> = if rng.random_bool(0.5) { SubscriptionId::Num(rng.random()) } else { SubscriptionId::Str(Cow::Owned(gen_string(&mut rng))) };
		let s = serde_json::to_string(&sid).unwrap();
		match serde_json::from_str::<SubscriptionId>(&s) {
			Ok(b) if b == sid && serde_json::to_string(&b).unwrap() == s => {}
			_ => bad.push(("subscription-id".into(), s.clone())),
		}
		// request
		let method = gen_string(&mut rng);
		let params = if rng.random_bool(0.3) { None } else { Some(serde_json::value::to_raw_value(&gen_value(["nested", "emptyc"][rng.random_range(0..2)], &mut rng)).unwrap()) };
		let req = Request::owned(method.clone(), params.clone(), gen_id(&mut rng));
		let s = serde_json::to_string(&req).unwrap();
		let ok = match serde_json::from_str::<Request>(&s) {
			Ok(b) => {
				b.id == req.id && b.method == req.method && b.params.as_ref().map(|p| p.get().to_string()) == params.as_ref().map(|p| p.get().to_string()) && serde_json::to_string(&b).unwrap() == s
			}
			Err(_) => false,
		};
		let wf = serde_json::from_str::<Value>(&s).map(|v| v["jsonrpc"] == "2.0" && v.get("id").is_some() && v["method"].is_string()).unwrap_or(false);
		if !ok || !wf {
			bad.push(("request".into(), s.clone()));
		}
		// notification
		let nv = gen_value("nested", &mut rng);
		let notif = Notification::new(Cow::Owned(method.clone()), nv.clone());
		let s = serde_json::to_string(&notif).unwrap();
		let ok = match serde_json::from_str::<Notification<Value>>(&s) {
			Ok(b) => b.method == method && b.params == nv && serde_json::to_string(&b).unwrap() == s,
			Err(_) => false,
		};
		if !ok || serde_json::from_str::<Value>(&s).map(|v| v["jsonrpc"] != "2.0" || v.get("id").is_some()).unwrap_or(true) {
			bad.push(("notification".into(), s.clone()));
		}
		// error object
		let eo = ErrorObjectOwned::owned(rng.random::<i32>(), gen_string(&mut rng), if rng.random_bool(0.5) { Some(gen_value("nested", &mut rng)) } else { None });
		let s = serde_json::to_string(&eo).unwrap();
		match serde_json::from_str::<ErrorObjectOwned>(&s) {
			Ok(b) if b == eo && serde_json::to_string(&b).unwrap() == s => {}
			_ => bad.push(("error-object".into(), s.clone())),
		}
		// response built by the library
		let payload: ResponsePayload<Value> = if rng.random_bool(0.5) { ResponsePayload::success(gen_value("nested", &mut rng)) } else { ResponsePayload::error(eo.clone()) };
		let rp = Response::new(payload, gen_id(&mut rng));
		let s = serde_json::to_string(&rp).unwrap();
		let wf = crate::wire::well_formed_response(&s).is_ok();
		let ok = match serde_json::from_str::<Response<Value>>(&s) {
			Ok(b) => b.id == rp.id && serde_json::to_string(&b).unwrap() == s,
			Err(_) => false,
		};
		if !ok || !wf {
			bad.push(("response".into(), s.clone()));
		}
	}
	out.raw(&json!({"stat": "roundtrips", "n": n * 6}));
	let mut seen = std::collections::BTreeSet::new();
	for (ty, text) in bad {
		if seen.insert(ty.clone()) {
			out.raw(&json!({"i": 0, "k": 0, "extra": true, "key": format!("round-trip:{ty}"), "detail": {"text": text}}));
		}
	}
}
