//! Shared helpers: seeded rng, ndjson I/O, value concretisation, verdict lines.
use rand::{Rng, SeedableRng, rngs::StdRng};
use serde_json::{Value, json};
use std::io::{BufRead, Write};

pub fn seed() -> u64 {
	std::env::var("VERIF_SEED").ok().and_then(|s| s.parse().ok()).unwrap_or(1)
}
pub fn k_concretisations() -> usize {
	std::env::var("VERIF_K").ok().and_then(|s| s.parse().ok()).unwrap_or(1)
}
pub fn rng_for(case_idx: usize, k: usize) -> StdRng {
	StdRng::seed_from_u64(seed().wrapping_mul(0x9E37_79B9_7F4A_7C15).wrapping_add((case_idx as u64) << 8).wrapping_add(k as u64))
}

pub fn read_cases(path: &str) -> Vec<Value> {
	let f = std::fs::File::open(path).unwrap_or_else(|e| panic!("open {path}: {e}"));
	std::io::BufReader::new(f)
		.lines()
		.map(|l| l.unwrap())
		.filter(|l| !l.trim().is_empty())
		.map(|l| serde_json::from_str(&l).unwrap_or_else(|e| panic!("bad case line {l}: {e}")))
		.collect()
}

pub struct Out {
	w: std::io::BufWriter<std::fs::File>,
	pub n: usize,
	pub bad: usize,
}
impl Out {
	pub fn create(path: &str) -> Self {
		Out { w: std::io::BufWriter::new(std::fs::File::create(path).unwrap()), n: 0, bad: 0 }
	}
	/// one verdict line; `key` is the structural mismatch key (None = agreed with the spec)
	pub fn verdict(&mut self, idx: usize, k: usize, key: Option<String>, detail: Value) {
		self.n += 1;
		if key.is_some() {
			self.bad += 1;
		}
		let line = json!({"i": idx, "k": k, "ok": key.is_none(), "key": key, "detail": detail});
		writeln!(self.w, "{}", line).unwrap();
	}
	/// verdict of one case with possibly several independent problems (each keeps its own structural key, so a
	/// recorded finding can never mask a different violation in the same case)
	pub fn problems(&mut self, idx: usize, k: usize, probs: Vec<(String, Value)>, ok_detail: Value) {
		if probs.is_empty() {
			return self.verdict(idx, k, None, ok_detail);
		}
		let mut seen = std::collections::BTreeSet::new();
		let mut first = true;
		for (key, d) in probs {
			if !seen.insert(key.clone()) {
				continue;
			}
			if first {
				self.verdict(idx, k, Some(key), d);
				first = false;
			} else {
				let line = json!({"i": idx, "k": k, "extra": true, "key": key, "detail": d});
				writeln!(self.w, "{}", line).unwrap();
			}
		}
	}
	pub fn raw(&mut self, v: &Value) {
		writeln!(self.w, "{}", v).unwrap();
	}
	pub fn finish(mut self) {
		self.w.flush().unwrap();
	}
}

/// interesting strings: empty, plain, needs escaping, multi-byte, JSON delimiters inside
pub const STRS: &[&str] = &["", "a", "hello world", "é\n\"\\\u{0}", "a,b]", "}{][,:", "\u{1F600}\u{10FFFF}", "\\u0041", " \t", "ключ"];

pub fn gen_string(rng: &mut StdRng) -> String {
	if rng.random_bool(0.7) {
		STRS[rng.random_range(0..STRS.len())].to_string()
	} else {
		let n = rng.random_range(0..12);
		(0..n)
			.map(|_| match rng.random_range(0..6) {
				0 => char::from_u32(rng.random_range(0x20..0x7f)).unwrap(),
				1 => ['"', '\\', '/', '\n', '\r', '\t', '\u{8}', '\u{c}'][rng.random_range(0..8)],
				2 => char::from_u32(rng.random_range(0..0x20)).unwrap(),
				3 => char::from_u32(rng.random_range(0xa0..0x800)).unwrap_or('x'),
				4 => char::from_u32(rng.random_range(0x10000..0x10ffff)).unwrap_or('y'),
				_ => [',', ']', '[', '{', '}', ':', ' '][rng.random_range(0..7)],
			})
			.collect()
	}
}

pub fn gen_scalar(rng: &mut StdRng) -> Value {
	match rng.random_range(0..10) {
		0 => json!(0),
		1 => json!(u64::MAX),
		2 => json!(i64::MIN),
		3 => json!(-1),
		4 => json!(1.5),
		5 => json!(true),
		6 => Value::Null,
		7 => json!(9007199254740993u64),
		8 => json!(rng.random::<u64>()),
		_ => json!(rng.random::<i32>()),
	}
}

pub fn gen_nested(rng: &mut StdRng, depth: usize) -> Value {
	if depth == 0 {
		return if rng.random_bool(0.5) { gen_scalar(rng) } else { Value::String(gen_string(rng)) };
	}
	if rng.random_bool(0.5) {
		let n = rng.random_range(1..4);
		Value::Array((0..n).map(|_| gen_nested(rng, depth - 1)).collect())
	} else {
		let n = rng.random_range(1..4);
		let mut m = serde_json::Map::new();
		for i in 0..n {
			m.insert(format!("{}{}", gen_string(rng), i), gen_nested(rng, depth - 1));
		}
		Value::Object(m)
	}
}

pub fn gen_value(class: &str, rng: &mut StdRng) -> Value {
	match class {
		"scalar" => gen_scalar(rng),
		"str" => Value::String(gen_string(rng)),
		"nested" => {
			let d = rng.random_range(1..4);
			gen_nested(rng, d)
		}
		"emptyc" => {
			if rng.random_bool(0.5) {
				json!([])
			} else {
				json!({})
			}
		}
		other => panic!("unknown value class {other}"),
	}
}

/// run `f`, turning a panic into `Err(message)` - a panic in the code under test is data, not a tool error
pub fn catch<T>(f: impl FnOnce() -> T) -> Result<T, String> {
	let prev = std::panic::take_hook();
	std::panic::set_hook(Box::new(|_| {}));
	let r = std::panic::catch_unwind(std::panic::AssertUnwindSafe(f));
	std::panic::set_hook(prev);
	r.map_err(|e| {
		if let Some(s) = e.downcast_ref::<&str>() {
			s.to_string()
		} else if let Some(s) = e.downcast_ref::<String>() {
			s.clone()
		} else {
			"panic".to_string()
		}
	})
}
