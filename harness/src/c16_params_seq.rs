//! C16: replay of ParamsSeq.tla cases into jsonrpsee_types::Params / ParamsSequence.
use crate::common::*;
use jsonrpsee_types::Params;
use rand::Rng;
use rand::rngs::StdRng;
use serde_json::{Value, json};

const WS: &[&str] = &["none", "aroundCommas", "insideBrackets", "everywhere"];

fn elem_text(class: &str, rng: &mut StdRng) -> String {
	let pick = |rng: &mut StdRng, xs: &[&str]| xs[rng.random_range(0..xs.len())].to_string();
	match class {
		"u" => pick(rng, &["0", "7", "9223372036854775807", "42"]),
		"neg" => pick(rng, &["-1", "-9223372036854775808"]),
		"big" => pick(rng, &["18446744073709551616", "1e30", "1.5", "-0.25"]),
		"strPlain" => match rng.random_range(0..6) {
			// long raw non-ASCII strings (2-, 3- and 4-byte characters, shifted by a short ASCII prefix): whatever a reader does
			// with the text of a value it cannot decode - quote it in an error, cut it - must not depend on where characters begin
			0 => format!("\"{}{}\"", "abc".chars().take(rng.random_range(0..4)).collect::<String>(), "\u{e9}".repeat(rng.random_range(100..170))),
			1 => format!("\"{}{}\"", "abc".chars().take(rng.random_range(0..4)).collect::<String>(), "\u{20ac}".repeat(rng.random_range(70..120))),
			2 => format!("\"{}{}\"", "abc".chars().take(rng.random_range(0..4)).collect::<String>(), "\u{1F600}".repeat(rng.random_range(50..90))),
			_ => pick(rng, &["\"abc\"", "\"\"", "\"x y\""]),
		},
		"strDelims" => match rng.random_range(0..8) {
			// (long, raw non-ASCII, with delimiters inside - see strPlain)
			0 => format!("\"{},]{}\"", "abc".chars().take(rng.random_range(0..4)).collect::<String>(), "\u{e9}".repeat(rng.random_range(100..170))),
			1 => format!("\"{}[{}\"", "abc".chars().take(rng.random_range(0..4)).collect::<String>(), "\u{20ac}".repeat(rng.random_range(70..120))),
			2 => format!("\"{}}}{}\"", "abc".chars().take(rng.random_range(0..4)).collect::<String>(), "\u{1F600}".repeat(rng.random_range(50..90))),
			_ => pick(rng, &["\"a,b]\"", "\"[{,}]: \"", "\",\"", "\"]\""]),
		},
		"strEsc" => pick(rng, &["\"\\\"q\\\\\\n\"", "\"\\u00e9,]\"", "\"a\\tb\"", "\"\\\\\\\"]\""]),
		"null" => "null".into(),
		"true" => "true".into(),
		"arrEmpty" => pick(rng, &["[]", "[ ]"]),
		"arrNested" => pick(rng, &["[[1,2],[3]]", "[\"]\",{\"a\":[1]}]", "[null]", "[[],[[]]]"]),
		"objEmpty" => pick(rng, &["{}", "{ }"]),
		"objNested" => pick(rng, &["{\"a\":[1,\"}\"],\"b\":{\"c\":null}}", "{\"k,]\":\"v\"}", "{\"a\":{\"b\":[]}}"]),
		o => panic!("class {o}"),
	}
}

fn array_text(elems: &[String], ws: &str, rng: &mut StdRng) -> String {
	let blank = |rng: &mut StdRng| [" ", "  ", "\t", "\n", " \r\n "][rng.random_range(0..5)].to_string();
	let (sep_ws, br_ws, outer) = match ws {
		"none" => (false, false, false),
		"aroundCommas" => (true, false, false),
		"insideBrackets" => (false, true, false),
		_ => (true, true, true),
	};
	let mut s = String::new();
	if outer {
		s += &blank(rng);
	}
	s.push('[');
	if br_ws {
		s += &blank(rng);
	}
	for (i, e) in elems.iter().enumerate() {
		if i > 0 {
			if sep_ws {
				s += &blank(rng);
			}
			s.push(',');
			if sep_ws {
				s += &blank(rng);
			}
		}
		s += e;
	}
	if br_ws {
		s += &blank(rng);
	}
	s.push(']');
	if outer {
		s += &blank(rng);
	}
	s
}

/// one typed read normalised to (class, value)
fn norm<T: serde::Serialize>(r: Result<T, jsonrpsee_types::ErrorObjectOwned>) -> (String, Value) {
	match r {
		Ok(v) => ("ok".into(), serde_json::to_value(v).unwrap()),
		Err(e) => (if e.code() == -32602 { "err".into() } else { format!("err-code-{}", e.code()) }, json!(e.message())),
	}
}
fn norm_opt<T: serde::Serialize>(r: Result<Option<T>, jsonrpsee_types::ErrorObjectOwned>) -> (String, Value) {
	match r {
		Ok(Some(v)) => ("ok".into(), serde_json::to_value(v).unwrap()),
		Ok(None) => ("absent".into(), Value::Null),
		Err(e) => (if e.code() == -32602 { "err".into() } else { format!("err-code-{}", e.code()) }, json!(e.message())),
	}
}

pub fn replay(cases: &[Value], out: &mut Out) {
	for (i, c) in cases.iter().enumerate() {
		for k in 0..k_concretisations() {
			for ws in WS {
				let mut rng = rng_for(i, k);
				one_case(i, k, c, ws, &mut rng, out);
			}
		}
	}
}

fn one_case(i: usize, k: usize, c: &Value, ws: &str, rng: &mut StdRng, out: &mut Out) {
	let mode = c["mode"].as_str().unwrap();
	let classes: Vec<&str> = c["elems"].as_array().unwrap().iter().map(|e| e.as_str().unwrap()).collect();
	let text: Option<String> = match mode {
		"array" => {
			let elems: Vec<String> = classes.iter().map(|cl| elem_text(cl, rng)).collect();
			Some(array_text(&elems, ws, rng))
		}
		"object" => Some(["{\"a\":1,\"b\":[2,\"]\"]}", "{}", " {\"x\":{\"y\":[]}} "][rng.random_range(0..3)].to_string()),
		"scalar" => Some(["3", "\"x\"", "true", "0", "-1.5"][rng.random_range(0..5)].to_string()),
		_ => None,
	};
	// independent reference: plain serde_json parse (the request parser only ever hands valid JSON to Params)
	let full: Value = match &text {
		Some(t) => serde_json::from_str(t).expect("harness produced invalid JSON"),
		None => Value::Null,
	};
	let params = Params::new(text.as_deref());
	let ops = c["ops"].as_array().unwrap();
	// the same reads on the owned copy of the params (what async methods and subscriptions get): owning changes nothing
	let owned = params.clone().into_owned();
	let run = |params: &Params| catch(|| {
		let mut seq = params.sequence();
		let mut obs = vec![];
		for op in ops {
			let t = op["t"].as_str().unwrap();
			let o = match (op["op"].as_str().unwrap(), t) {
				("next", "u64") => norm(seq.next::<u64>()),
				("next", "i64") => norm(seq.next::<i64>()),
				("next", "string") => norm(seq.next::<String>()),
				("next", "strref") => norm(seq.next::<&str>()),
				("next", "bool") => norm(seq.next::<bool>()),
				("next", "value") => norm(seq.next::<Value>()),
				("next", "vec") => norm(seq.next::<Vec<Value>>()),
				("opt", "u64") => norm_opt(seq.optional_next::<u64>()),
				("opt", "i64") => norm_opt(seq.optional_next::<i64>()),
				("opt", "string") => norm_opt(seq.optional_next::<String>()),
				("opt", "strref") => norm_opt(seq.optional_next::<&str>()),
				("opt", "bool") => norm_opt(seq.optional_next::<bool>()),
				("opt", "value") => norm_opt(seq.optional_next::<Value>()),
				("opt", "vec") => norm_opt(seq.optional_next::<Vec<Value>>()),
				("parse", "value") => norm(params.parse::<Value>()),
				("parse", "vec") => norm(params.parse::<Vec<Value>>()),
				("parse", "optvec") => norm_opt(params.parse::<Option<Vec<Value>>>()),
				("one", "u64") => norm(params.one::<u64>()),
				("one", "i64") => norm(params.one::<i64>()),
				("one", "string") => norm(params.one::<String>()),
				("one", "strref") => norm(params.one::<&str>()),
				("one", "bool") => norm(params.one::<bool>()),
				("one", "value") => norm(params.one::<Value>()),
				("one", "vec") => norm(params.one::<Vec<Value>>()),
				(a, b) => panic!("HARNESS unknown op {a} {b}"),
			};
			obs.push(o);
		}
		obs
	});
	let res = run(&params);
	let res_owned = run(&owned);
	if let (Ok(a), Ok(b)) = (&res, &res_owned) {
		if a != b {
			out.verdict(i, k, Some(format!("owned-params-read-differently:{mode}")), json!({"case": c, "ws": ws, "text": text, "borrowed": a.iter().map(|(x, y)| json!([x, y])).collect::<Vec<_>>(), "owned": b.iter().map(|(x, y)| json!([x, y])).collect::<Vec<_>>()}));
			return;
		}
	} else if res.is_ok() != res_owned.is_ok() {
		out.verdict(i, k, Some(format!("owned-params-read-differently:{mode}:panic")), json!({"case": c, "ws": ws, "text": text}));
		return;
	}
	let obs = match res {
		Ok(o) => o,
		Err(p) => {
			if p.starts_with("HARNESS") {
				panic!("{p}");
			}
			out.verdict(i, k, Some("panic".into()), json!({"case": c, "ws": ws, "text": text, "panic": p}));
			return;
		}
	};
	for (n, (op, (cls, val))) in ops.iter().zip(obs.iter()).enumerate() {
		let exp = &op["res"];
		let e = exp["r"].as_str().unwrap();
		let good = match e {
			"err" => cls == "err",
			"absent" => cls == "absent",
			"errOrAbsent" => cls == "err" || cls == "absent",
			"elem" => {
				let idx = exp["idx"].as_u64().unwrap() as usize;
				cls == "ok" && full.get(idx - 1).map(|w| w == val).unwrap_or(false)
			}
			"whole" => cls == "ok" && *val == full,
			o => panic!("expect {o}"),
		};
		if !good {
			let ctx = if mode != "array" {
				mode.to_string()
			} else if classes.is_empty() {
				format!("empty-array-ws-{ws}")
			} else {
				format!("array-ws-{ws}")
			};
			let got = if cls == "ok" && (e == "elem" || e == "whole") { "wrong-value".to_string() } else { cls.clone() };
			out.verdict(
				i,
				k,
				Some(format!("{}:exp-{}:got-{}:{}", op["op"].as_str().unwrap(), e, got, ctx)),
				json!({"case": c, "ws": ws, "text": text, "step": n, "observed": obs.iter().map(|(a,b)| json!([a,b])).collect::<Vec<_>>()}),
			);
			return;
		}
	}
	out.verdict(i, k, None, json!({"text": text}));
}
