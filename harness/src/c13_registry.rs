//! C13: replay of Registry.tla transitions into real RpcModule values (clones included).
use crate::common::*;
use jsonrpsee_core::server::{RpcModule, SubscriptionMessage};
use jsonrpsee_types::ErrorObjectOwned;
use serde_json::{Value, json};
use std::collections::BTreeMap;

fn sname(s: &str) -> &'static str {
	match s {
		"a" => "a",
		"b" => "b",
		"c" => "ns_c",
		o => Box::leak(o.to_string().into_boxed_str()),
	}
}

fn tag_of(v: &Value) -> String {
	match v["k"].as_str().unwrap() {
		"none" => "none".into(),
		"sub" | "unsub" => format!("{}:{}:{}:{}", v["k"].as_str().unwrap(), v["n"].as_str().unwrap(), v["o"], v["g"]),
		k => format!("{}:{}:{}", k, v["n"].as_str().unwrap(), v["o"]),
	}
}

struct World {
	mods: BTreeMap<u64, RpcModule<()>>,
	/// successful subscription registrations per (name, module): generation of the next one
	gens: BTreeMap<(String, u64), u64>,
}

impl World {
	fn new() -> Self {
		let mut mods = BTreeMap::new();
		for m in 1..=3u64 {
			mods.insert(m, RpcModule::new(()));
		}
		World { mods, gens: BTreeMap::new() }
	}

	/// perform one call, return the observed result class
	fn apply(&mut self, op: &Value, variant: usize) -> String {
		let m = op["m"].as_u64().unwrap();
		match op["o"].as_str().unwrap() {
			"reg" => {
				let n = sname(op["n"].as_str().unwrap());
				let tag = format!("method:{}:{}", op["n"].as_str().unwrap(), m);
				let module = self.mods.get_mut(&m).unwrap();
				let r = match variant % 3 {
					0 => {
						let t = tag.clone();
						module.register_method(n, move |_, _, _| t.clone()).map(|_| ())
					}
					1 => {
						let t = tag.clone();
						module
							.register_async_method(n, move |_, _, _| {
								let t = t.clone();
								async move { t }
							})
							.map(|_| ())
					}
					_ => {
						let t = tag.clone();
						module.register_blocking_method(n, move |_, _, _| t.clone()).map(|_| ())
					}
				};
				if r.is_ok() { "ok".into() } else { "err".into() }
			}
			"sub" => {
				let s = sname(op["n"].as_str().unwrap());
				let u = sname(op["u"].as_str().unwrap());
				let gk = (op["n"].as_str().unwrap().to_string(), m);
				let g = *self.gens.get(&gk).unwrap_or(&0);
				let tag = format!("sub:{}:{}:{}", op["n"].as_str().unwrap(), m, g);
				let module = self.mods.get_mut(&m).unwrap();
				let r = module.register_subscription(s, "notif", u, move |params, pending, _, _| {
					let tag = tag.clone();
					async move {
						let mode: String = params.one().unwrap_or_default();
						if mode == "accept" {
							let sink = pending.accept().await.unwrap();
							let _ = sink.send(SubscriptionMessage::from(serde_json::value::to_raw_value(&tag).unwrap())).await;
							sink.closed().await;
						} else {
							pending.reject(ErrorObjectOwned::owned(1000, tag, None::<()>)).await;
						}
					}
				});
				if r.is_ok() {
					self.gens.insert(gk, g + 1);
					"ok".into()
				} else {
					"err".into()
				}
			}
			"alias" => {
				let a = sname(op["n"].as_str().unwrap());
				let e = sname(op["u"].as_str().unwrap());
				let r = self.mods.get_mut(&m).unwrap().register_alias(a, e);
				if r.is_ok() { "ok".into() } else { "err".into() }
			}
			"merge" => {
				let o = op["u"].as_u64().unwrap();
				let other = self.mods[&o].clone();
				let r = self.mods.get_mut(&m).unwrap().merge(other);
				if r.is_ok() { "ok".into() } else { "err".into() }
			}
			"remove" => {
				let n = sname(op["n"].as_str().unwrap());
				let r = self.mods.get_mut(&m).unwrap().remove_method(n);
				if r.is_some() { "some".into() } else { "none".into() }
			}
			"clone" => {
				let t = op["u"].as_u64().unwrap();
				let c = self.mods[&m].clone();
				self.mods.insert(t, c);
				"ok".into()
			}
			o => panic!("op {o}"),
		}
	}

	/// dispatch outcome of `name` on module `m`: the tag the bound handler reports, or "none" for -32601
	async fn dispatch(&self, m: u64, name: &str) -> String {
		let req = format!(r#"{{"jsonrpc":"2.0","id":1,"method":"{}","params":["reject"]}}"#, sname(name));
		let (resp, _rx) = self.mods[&m].raw_json_request(&req, 4).await.expect("valid request");
		let v: Value = serde_json::from_str(resp.get()).unwrap();
		if let Some(r) = v.get("result") {
			match r {
				Value::String(s) => s.clone(),
				Value::Bool(_) => "unsub".into(),
				o => format!("odd-result:{o}"),
			}
		} else {
			let code = v["error"]["code"].as_i64().unwrap();
			match code {
				-32601 => "none".into(),
				1000 => v["error"]["message"].as_str().unwrap().to_string(),
				c => format!("error:{c}"),
			}
		}
	}

	/// full projection: for every module slot, names -> dispatch outcome; plus the method_names() set
	async fn project(&self, names: &[String]) -> (Value, Vec<String>) {
		let mut problems = vec![];
		let mut proj = serde_json::Map::new();
		for (m, module) in &self.mods {
			let mut pm = serde_json::Map::new();
			let listed: std::collections::BTreeSet<&str> = module.method_names().collect();
			for n in names {
				let t = self.dispatch(*m, n).await;
				let is_listed = listed.contains(sname(n));
				if is_listed != (t != "none") {
					problems.push(format!("module {m}: name {n} listed={is_listed} but dispatch={t}"));
				}
				pm.insert(n.clone(), json!(t));
			}
			if listed.len() != pm.values().filter(|t| *t != "none").count() {
				problems.push(format!("module {m}: method_names() has {} entries", listed.len()));
			}
			proj.insert(m.to_string(), Value::Object(pm));
		}
		(Value::Object(proj), problems)
	}

	/// when a module binds both halves of one subscription registration, subscribing through the one and
	/// unsubscribing through the other must answer true (they share the subscriber table)
	async fn sub_unsub_pairs(&self, post: &Value, names: &[String]) -> Vec<String> {
		let mut problems = vec![];
		for (m, module) in &self.mods {
			for s in names {
				let ts = &post[(*m as usize) - 1][s];
				if ts["k"] != "sub" {
					continue;
				}
				for u in names {
					let tu = &post[(*m as usize) - 1][u];
					if tu["k"] == "unsub" && tu["n"] == ts["n"] && tu["o"] == ts["o"] && tu["g"] == ts["g"] {
						let req = format!(r#"{{"jsonrpc":"2.0","id":1,"method":"{}","params":["accept"]}}"#, sname(s));
						let (resp, mut rx) = module.raw_json_request(&req, 4).await.unwrap();
						let v: Value = serde_json::from_str(resp.get()).unwrap();
						let id = v["result"].clone();
						// the handler sends one item after accept() returned, i.e. after the table insert: wait for it,
						// otherwise this probe would race with accept's own bookkeeping (that window belongs to C06)
						let _ = rx.recv().await;
						let req = format!(r#"{{"jsonrpc":"2.0","id":2,"method":"{}","params":[{}]}}"#, sname(u), id);
						let (resp, _) = module.raw_json_request(&req, 4).await.unwrap();
						let v: Value = serde_json::from_str(resp.get()).unwrap();
						if v["result"] != json!(true) {
							problems.push(format!("module {m}: subscribe via {s} / unsubscribe via {u} answered {}", v));
						}
					}
				}
			}
		}
		problems
	}
}

fn expected_proj(post: &Value, names: &[String]) -> Value {
	let mut proj = serde_json::Map::new();
	for (i, pm) in post.as_array().unwrap().iter().enumerate() {
		let mut o = serde_json::Map::new();
		for n in names {
			let t = tag_of(&pm[n]);
			// the unsubscribe handler cannot report its origin: compare the kind only
			let t = if t.starts_with("unsub:") { "unsub".to_string() } else { t };
			o.insert(n.clone(), json!(t));
		}
		proj.insert((i + 1).to_string(), Value::Object(o));
	}
	Value::Object(proj)
}

pub fn replay(cases: &[Value], out: &mut Out) {
	let rt = tokio::runtime::Builder::new_multi_thread().worker_threads(2).enable_all().build().unwrap();
	let names: Vec<String> = vec!["a".into(), "b".into(), "c".into()];
	rt.block_on(async {
		for (i, c) in cases.iter().enumerate() {
			for k in 0..k_concretisations() {
				let mut steps: Vec<Value> = c["path"].as_array().unwrap().clone();
				steps.push(json!({"op": c["op"], "res": c["res"], "post": c["post"]}));
				let mut w = World::new();
				let mut verdict = None;
				for (sn, st) in steps.iter().enumerate() {
					let variant = (seed() as usize).wrapping_add(i).wrapping_add(sn).wrapping_add(k);
					let got = w.apply(&st["op"], variant);
					let opn = st["op"]["o"].as_str().unwrap();
					if got != st["res"].as_str().unwrap() {
						verdict = Some((format!("{opn}:result-exp-{}-got-{got}", st["res"].as_str().unwrap()), json!({"step": sn})));
						break;
					}
					let (proj, problems) = w.project(&names).await;
					let want = expected_proj(&st["post"], &names);
					if proj != want {
						let failed = matches!(st["res"].as_str().unwrap(), "err" | "none");
						verdict = Some((
							format!("{opn}:state-after-{}", if failed { "failed-call" } else { "successful-call" }),
							json!({"step": sn, "observed": proj, "want": want}),
						));
						break;
					}
					if !problems.is_empty() {
						verdict = Some((format!("{opn}:names-vs-dispatch"), json!({"step": sn, "problems": problems})));
						break;
					}
					if sn + 1 == steps.len() {
						let p = w.sub_unsub_pairs(&st["post"], &names).await;
						if !p.is_empty() {
							verdict = Some((format!("{opn}:sub-unsub-pair-broken"), json!({"step": sn, "problems": p})));
						}
					}
				}
				match verdict {
					None => out.verdict(i, k, None, Value::Null),
					Some((key, d)) => out.verdict(i, k, Some(key), json!({"case": c, "detail": d})),
				}
			}
		}
	});
}
