//! WsConnect.tla replay: the WebSocket transport's connection walk (redirections) against two scripted loopback servers.
use crate::common::*;
use jsonrpsee_client_transport::ws::{Url, WsHandshakeError, WsTransportClientBuilder};
use serde_json::{Value, json};
use std::collections::VecDeque;
use std::sync::Arc;
use tokio::io::AsyncWriteExt;
use tokio_util::compat::{FuturesAsyncReadCompatExt, TokioAsyncReadCompatExt};

#[derive(Default)]
struct Shared {
	script: VecDeque<Value>,
	/// (server, Host header, path) of every handshake received
	log: Vec<(String, String, String)>,
	ports: [u16; 2],
	nredir: usize,
}

fn port_of(sh: &Shared, srv: &str) -> u16 {
	if srv == "A" { sh.ports[0] } else { sh.ports[1] }
}

async fn serve(listener: tokio::net::TcpListener, srv: &'static str, shared: Arc<parking_lot::Mutex<Shared>>) {
	loop {
		let Ok((stream, _)) = listener.accept().await else { return };
		let shared = shared.clone();
		tokio::spawn(async move {
			let mut server = soketto::handshake::Server::new(stream.compat());
			let (key, path, host) = match server.receive_request().await {
				Ok(req) => (req.key(), req.path().to_string(), String::from_utf8_lossy(req.headers().host).into_owned()),
				Err(_) => return,
			};
			let (resp, location) = {
				let mut sh = shared.lock();
				sh.log.push((srv.to_string(), host, path));
				let r = sh.script.pop_front().unwrap_or(json!({"k": "unexpected"}));
				let loc = match r["k"].as_str().unwrap() {
					"abs" => Some(format!("ws://127.0.0.1:{}{}", port_of(&sh, r["srv"].as_str().unwrap()), r["path"].as_str().unwrap())),
					"absHttp" => Some(format!("http://127.0.0.1:{}/", sh.ports[1])),
					"relSlash" => Some(r["path"].as_str().unwrap().to_string()),
					"relSeg" => Some(r["seg"].as_str().unwrap().to_string()),
					"bad" => Some("ws://[::1".to_string()),
					_ => None,
				};
				sh.nredir += 1;
				(r, loc.map(|l| (l, [301u16, 302, 303, 307, 308][sh.nredir % 5])))
			};
			match (resp["k"].as_str().unwrap(), location) {
				("accept", _) => {
					let _ = server.send_response(&soketto::handshake::server::Response::Accept { key, protocol: None }).await;
					// keep the connection until the client lets go of it
					let mut s = server.into_inner().into_inner();
					let mut buf = [0u8; 64];
					let _ = tokio::time::timeout(std::time::Duration::from_secs(2), tokio::io::AsyncReadExt::read(&mut s, &mut buf)).await;
				}
				(_, Some((loc, status))) => {
					let mut s = server.into_inner().into_inner();
					let text = format!("HTTP/1.1 {status} Moved\r\nLocation: {loc}\r\nContent-Length: 0\r\nConnection: close\r\n\r\n");
					let _ = s.write_all(text.as_bytes()).await;
					let _ = s.shutdown().await;
				}
				(k, None) => {
					let _ = server.send_response(&soketto::handshake::server::Response::Reject { status_code: if k == "reject" { 403 } else { 500 } }).await;
				}
			}
		});
	}
}

pub fn replay(cases: &[Value], out: &mut Out) {
	let rt = tokio::runtime::Builder::new_multi_thread().worker_threads(4).enable_all().build().unwrap();
	rt.block_on(async {
		let shared: Arc<parking_lot::Mutex<Shared>> = Default::default();
		let la = tokio::net::TcpListener::bind("127.0.0.1:0").await.expect("bind loopback");
		let lb = tokio::net::TcpListener::bind("127.0.0.1:0").await.expect("bind loopback");
		shared.lock().ports = [la.local_addr().unwrap().port(), lb.local_addr().unwrap().port()];
		tokio::spawn(serve(la, "A", shared.clone()));
		tokio::spawn(serve(lb, "B", shared.clone()));
		for (i, c) in cases.iter().enumerate() {
			let steps = c["steps"].as_array().unwrap();
			let (port_a, ports) = {
				let mut sh = shared.lock();
				sh.script = steps.iter().map(|s| s["resp"].clone()).collect();
				sh.log.clear();
				(sh.ports[0], sh.ports)
			};
			let url = Url::parse(&format!("ws://127.0.0.1:{port_a}{}", c["start"].as_str().unwrap())).expect("start url");
			let max = c["max"].as_u64().unwrap() as usize;
			let res = tokio::time::timeout(std::time::Duration::from_secs(20), WsTransportClientBuilder::default().max_redirections(max).build(url)).await;
			let observed = match &res {
				Err(_) => json!({"k": "timeout"}),
				Ok(Ok(_)) => json!({"k": "connected"}),
				Ok(Err(e)) => json!({"k": "error", "e": match e {
					WsHandshakeError::Rejected { .. } => "rejected",
					WsHandshakeError::Url(_) => "url",
					WsHandshakeError::NoAddressFound(_) => "noAddress",
					WsHandshakeError::Redirected { .. } => "redirected",
					WsHandshakeError::Timeout(_) => "connect-timeout",
					WsHandshakeError::Io(_) => "io",
					WsHandshakeError::Transport(_) => "transport",
					_ => "other",
				}, "text": e.to_string()}),
			};
			drop(res);
			let log = shared.lock().log.clone();
			let mut probs: Vec<(String, Value)> = vec![];
			let d = |what: &str| json!({"case": c, "what": what, "observed": observed, "handshakes": log});
			// ---- the walk: which server, which Host header, which path, handshake by handshake
			let name = |srv: &str| format!("127.0.0.1:{}", if srv == "A" { ports[0] } else { ports[1] });
			if log.len() > max {
				probs.push(("ws-connect:more-handshakes-than-max-redirections".into(), d("bound")));
			}
			if log.len() != steps.len() {
				probs.push((format!("ws-connect:handshakes-exp-{}-got-{}", steps.len(), log.len()), d("number of handshakes")));
			} else {
				for (j, (s, (srv, host, path))) in steps.iter().zip(log.iter()).enumerate() {
					let after = if j == 0 { "start".to_string() } else { steps[j - 1]["resp"]["k"].as_str().unwrap().to_string() };
					if s["conn"] != json!(srv) {
						probs.push((format!("ws-connect:after-{after}:connected-to-the-wrong-server"), d("server")));
					} else if s["path"] != json!(path) {
						probs.push((format!("ws-connect:after-{after}:wrong-path"), d("path")));
					} else if *host != name(s["host"].as_str().unwrap()) {
						probs.push((format!("ws-connect:after-{after}:host-header-names-another-server"), d("Host header")));
					}
				}
			}
			// ---- the outcome
			let want = &c["outcome"];
			let same = want["k"] == observed["k"] && (want["k"] != "error" || want["e"] == observed["e"]);
			if !same {
				let w = if want["k"] == "error" { format!("error-{}", want["e"].as_str().unwrap()) } else { "connected".to_string() };
				let g = if observed["k"] == "error" { format!("error-{}", observed["e"].as_str().unwrap()) } else { observed["k"].as_str().unwrap().to_string() };
				// an error of another kind where an error is due is drift between code and model, anything else a violation
				if want["k"] == "error" && observed["k"] == "error" {
					probs.push((format!("ws-connect:error-kind:exp-{w}-got-{g}"), d("error kind")));
				} else {
					probs.push((format!("ws-connect:outcome:exp-{w}-got-{g}"), d("outcome")));
				}
			}
			out.problems(i, 0, probs, Value::Null);
		}
	});
}
