//! The real async client over an in-memory transport whose other end is the harness: the harness *is* the wire and the
//! peer.  Every interaction is logged to one process-global tracer (sequence assigned under its mutex).
use jsonrpsee_core::client::{
	BatchResponse, Client, ClientBuilder, ClientT, Error, IdKind, ReceivedMessage, Subscription, SubscriptionClientT, TransportReceiverT,
	TransportSenderT,
};
use jsonrpsee_core::params::{ArrayParams, BatchRequestBuilder};
use parking_lot::Mutex;
use serde_json::{Value, json};
use std::collections::BTreeMap;
use std::sync::Arc;
use std::sync::atomic::{AtomicBool, Ordering};
use std::time::Duration;
use tokio::sync::mpsc;

#[derive(Clone, Default)]
pub struct Tracer(pub Arc<Mutex<Vec<Value>>>);
impl Tracer {
	pub fn ev(&self, v: Value) {
		self.0.lock().push(v);
	}
	pub fn take(&self) -> Vec<Value> {
		std::mem::take(&mut *self.0.lock())
	}
}

#[derive(Debug)]
pub struct TErr(pub String);
impl std::fmt::Display for TErr {
	fn fmt(&self, f: &mut std::fmt::Formatter<'_>) -> std::fmt::Result {
		write!(f, "{}", self.0)
	}
}
impl std::error::Error for TErr {}

#[derive(Default)]
pub struct Faults {
	pub send_err: AtomicBool,
	/// the transport accepts no more bytes for now (back-pressure): a `send().await` in progress does not return until released
	pub hold: AtomicBool,
}

/// what the client handed to the transport, classified by the harness' own parse
#[derive(Debug, Clone)]
pub struct Out {
	pub kind: String,
	pub ids: Vec<Value>,
	pub sub: Option<Value>,
	pub method: String,
	pub raw: String,
}

pub fn classify_out(raw: &str) -> Out {
	let v: Value = serde_json::from_str(raw).unwrap_or(Value::Null);
	if let Some(a) = v.as_array() {
		return Out { kind: "batch".into(), ids: a.iter().map(|e| e["id"].clone()).collect(), sub: None, method: String::new(), raw: raw.into() };
	}
	let m = v["method"].as_str().unwrap_or("").to_string();
	let kind = if v.get("id").is_none() {
		"notif"
	} else if m == "unsub" {
		"unsub"
	} else if m == "sub" {
		"sub"
	} else {
		"call"
	};
	Out { kind: kind.into(), ids: vec![v["id"].clone()], sub: v["params"].get(0).cloned(), method: m, raw: raw.into() }
}

pub struct MemSender {
	pub tracer: Tracer,
	pub faults: Arc<Faults>,
	pub wire: Arc<Mutex<Vec<Out>>>,
	pub idnum: fn(&Value) -> i64,
	pub string_ids: bool,
	pub turns: std::sync::atomic::AtomicU64,
}
impl TransportSenderT for MemSender {
	type Error = TErr;
	fn send(&mut self, msg: String) -> impl std::future::Future<Output = Result<(), TErr>> + Send {
		let o = classify_out(&msg);
		let r = if self.faults.send_err.load(Ordering::SeqCst) {
			self.tracer.ev(json!({"ev": "SendFault"}));
			Err(TErr("sendErr".into()))
		} else {
			let idn = self.idnum;
			match o.kind.as_str() {
				"batch" => {
					let ns: Vec<i64> = o.ids.iter().map(idn).collect();
					self.tracer.ev(json!({"ev": "WireOut", "k": "batch", "lo": ns.iter().min(), "hi": ns.iter().max().map(|m| m + 1), "ids": ns}));
				}
				"unsub" => self.tracer.ev(json!({"ev": "WireOut", "k": "unsub", "id": idn(&o.ids[0]), "sub": o.sub.as_ref().map(|s| sub_as_num(s, self.string_ids))})),
				k => self.tracer.ev(json!({"ev": "WireOut", "k": k, "id": idn(&o.ids[0])})),
			}
			self.wire.lock().push(o);
			Ok(())
		};
		// a write that takes a few scheduler turns (back-pressure, flush): other tasks - the read task, the peer - run
		// while the send task is still inside `send().await`
		let turns = {
			let n = self.turns.fetch_add(1, Ordering::Relaxed);
			(n.wrapping_mul(2654435761) >> 7) % 4
		};
		let faults = self.faults.clone();
		async move {
			if r.is_ok() {
				for _ in 0..turns {
					tokio::task::yield_now().await;
				}
				while faults.hold.load(Ordering::SeqCst) {
					tokio::task::yield_now().await;
				}
			}
			r
		}
	}
	fn close(&mut self) -> impl std::future::Future<Output = Result<(), TErr>> + Send {
		let t = self.tracer.clone();
		async move {
			t.ev(json!({"ev": "TransportCloseStart"}));
			// a close that takes a while: other tasks get to run before the transport reports closed
			for _ in 0..3 {
				tokio::task::yield_now().await;
			}
			t.ev(json!({"ev": "TransportCloseEnd"}));
			Ok(())
		}
	}
}

pub enum PeerItem {
	Text(String, Value),
	Fail(String),
}
pub struct MemReceiver {
	pub tracer: Tracer,
	pub rx: mpsc::UnboundedReceiver<PeerItem>,
}
impl TransportReceiverT for MemReceiver {
	type Error = TErr;
	fn receive(&mut self) -> impl std::future::Future<Output = Result<ReceivedMessage, TErr>> + Send {
		async move {
			match self.rx.recv().await {
				Some(PeerItem::Text(t, rec)) => {
					self.tracer.ev(json!({"ev": "WireIn", "m": rec}));
					Ok(ReceivedMessage::Text(t))
				}
				Some(PeerItem::Fail(f)) => {
					self.tracer.ev(json!({"ev": "RecvFault", "f": f}));
					Err(TErr(f))
				}
				None => std::future::pending().await,
			}
		}
	}
}

/// ids as the trace spec sees them (TLC integers are 32 bit): u64::MAX is 1_000_000 (the spec's IdMax), two other huge
/// ids stand for themselves as "foreign" ids
pub const HUGE: [(u64, i64); 3] = [(u64::MAX, 1_000_000), (u64::MAX - 1, 999_999), ((1 << 57) + 3, 999_998)];
pub fn u64_as_num(x: u64) -> i64 {
	HUGE.iter().find(|(u, _)| *u == x).map(|(_, n)| *n).unwrap_or(if x > 900_000 { 999_997 } else { x as i64 })
}
pub fn num_as_u64(n: i64) -> u64 {
	HUGE.iter().find(|(_, m)| *m == n).map(|(u, _)| *u).unwrap_or(n as u64)
}
/// Subscription ids as the spec sees them: the peer hands out 1, 2 in the JSON type that matches the request-id format of the
/// scenario (the "native" type); 101, 102 stand for the SAME digits in the OTHER JSON type ("1" vs 1) - different ids, by the
/// rules of JSON, that a client must not confuse.
pub fn sub_as_num(v: &Value, string_ids: bool) -> i64 {
	let base = id_as_num(v);
	if v.is_string() == string_ids || base < 0 { base } else { 100 + base }
}

pub fn id_as_num(v: &Value) -> i64 {
	match v {
		Value::Number(n) => n.as_u64().map(u64_as_num).unwrap_or(-1),
		Value::String(s) => s.parse::<u64>().map(u64_as_num).unwrap_or(-2),
		_ => -1,
	}
}

pub struct Rig {
	pub client: Arc<Client>,
	pub tracer: Tracer,
	pub faults: Arc<Faults>,
	pub wire: Arc<Mutex<Vec<Out>>>,
	pub peer_tx: mpsc::UnboundedSender<PeerItem>,
	pub id_kind_str: bool,
}

pub fn build(max_queue: usize, buf_cap: usize, string_ids: bool, timeout: Duration, seed: u64) -> Rig {
	let tracer = Tracer::default();
	let faults = Arc::new(Faults::default());
	let wire = Arc::new(Mutex::new(vec![]));
	let (peer_tx, rx) = mpsc::unbounded_channel();
	let sender = MemSender { tracer: tracer.clone(), faults: faults.clone(), wire: wire.clone(), idnum: id_as_num, string_ids, turns: std::sync::atomic::AtomicU64::new(seed) };
	let receiver = MemReceiver { tracer: tracer.clone(), rx };
	let client = ClientBuilder::default()
		.max_concurrent_requests(max_queue)
		.max_buffer_capacity_per_subscription(buf_cap)
		.request_timeout(timeout)
		.id_format(if string_ids { IdKind::String } else { IdKind::Number })
		.build_with_tokio(sender, receiver);
	Rig { client: Arc::new(client), tracer, faults, wire, peer_tx, id_kind_str: string_ids }
}

pub async fn settle(n: usize) {
	for _ in 0..n {
		tokio::task::yield_now().await;
		observe();
	}
}

thread_local! {
	/// the front-end observer of the scenario that is running on this thread (see `observe`)
	static OBSERVER: std::cell::RefCell<Option<(Arc<Client>, Tracer)>> = const { std::cell::RefCell::new(None) };
}
/// Install (Some) or remove (None) the observer.  The driver future is itself a front-end caller: whenever it gets a turn it
/// looks at `is_connected()`, and the first time the connection is reported gone it asks `on_disconnect()` for the reason at
/// once - the caller "that notices the closed channel first".  On a runtime that polls the driver after every task
/// (event_interval 1) this lands between any two steps of the background tasks.
pub fn set_observer(o: Option<(Arc<Client>, Tracer)>) {
	OBSERVER.with(|c| *c.borrow_mut() = o);
}
pub fn observe() {
	let taken = OBSERVER.with(|c| {
		let gone = c.borrow().as_ref().map(|(cl, _)| !cl.is_connected()).unwrap_or(false);
		if gone { c.borrow_mut().take() } else { None }
	});
	if let Some((cl, tracer)) = taken {
		use futures_util::FutureExt;
		// (the reason first: when the connection went where the model has it open, the reason says whose matter that is)
		match cl.on_disconnect().now_or_never() {
			Some(e) => tracer.ev(json!({"ev": "OnDisconnect", "res": err_class(&e)})),
			None => {
				tracer.ev(json!({"ev": "Connected", "b": false}));
				tracer.ev(json!({"ev": "Timeout", "what": "on_disconnect not ready although the connection is reported gone"}));
			}
		}
	}
}

/// class of an error a front-end future returned (the abstract result the trace spec knows)
pub fn err_class(e: &Error) -> Value {
	match e {
		Error::Call(eo) => json!({"k": "err", "tok": eo.data().and_then(|d| serde_json::from_str::<i64>(d.get()).ok()).unwrap_or(-1)}),
		Error::RestartNeeded(inner) => json!({"k": "restart", "cause": cause_class(inner)}),
		Error::RequestTimeout => json!({"k": "timeout"}),
		Error::Custom(s) if s.contains("Error reason could not be found") => json!({"k": "placeholder"}),
		Error::InvalidSubscriptionId => json!({"k": "fail", "why": "invalidSubId"}),
		Error::ParseError(_) => json!({"k": "fail", "why": "parse"}),
		Error::InvalidRequestId(jsonrpsee_types::InvalidRequestId::Occupied(_)) => json!({"k": "fail", "why": "occupied"}),
		o => json!({"k": "other", "text": o.to_string()}),
	}
}
pub fn cause_class(e: &Error) -> String {
	match e {
		Error::Transport(t) => t.to_string(),
		Error::InvalidRequestId(jsonrpsee_types::InvalidRequestId::NotPendingRequest(_)) => "notPending".into(),
		Error::InvalidRequestId(jsonrpsee_types::InvalidRequestId::Invalid(_)) => "invalidId".into(),
		Error::Custom(s) if s.contains("Error reason could not be found") => "placeholder".into(),
		// the only free-text cause the client produces: the server sent something that is not a JSON-RPC message
		// (the wording is not part of the property)
		Error::Custom(_) => "unparseable".into(),
		Error::EmptyBatchRequest(_) => "emptyBatch".into(),
		o => format!("other:{o}"),
	}
}

pub type SubSlot = Arc<Mutex<Option<Subscription<Value>>>>;

thread_local! {
	/// front-end futures the driver keeps from being polled (a caller whose task does not get to run), with the waker to use
	/// when they are let go (everything of a scenario runs on one thread)
	static STARVED: std::cell::RefCell<BTreeMap<String, Option<std::task::Waker>>> = const { std::cell::RefCell::new(BTreeMap::new()) };
}
fn is_starved(h: &str, w: &std::task::Waker) -> bool {
	STARVED.with(|s| match s.borrow_mut().get_mut(h) {
		Some(slot) => {
			*slot = Some(w.clone());
			true
		}
		None => false,
	})
}
/// from now on the future of operation `h` is not polled ...
pub fn starve(h: &str) {
	STARVED.with(|s| {
		s.borrow_mut().entry(h.to_string()).or_insert(None);
	});
}
/// ... until it is let go again (all of them)
pub fn unstarve_all() {
	let ws: Vec<Option<std::task::Waker>> = STARVED.with(|s| std::mem::take(&mut *s.borrow_mut()).into_values().collect());
	for w in ws.into_iter().flatten() {
		w.wake();
	}
}

/// start one front-end operation as its own task; logs FeStart before and FeDone after
pub fn start_op(rig: &Rig, h: &str, kind: &str, n: usize, slots: &BTreeMap<String, SubSlot>) -> tokio::task::JoinHandle<()> {
	start_op_abandonable(rig, h, kind, n, slots).0
}

/// as `start_op`; the returned sender makes the task drop the operation's future before it has returned (what a timeout or a
/// `select!` around the call does) - `FeAbandon` is logged in the same poll in which the future is dropped
pub fn start_op_abandonable(
	rig: &Rig,
	h: &str,
	kind: &str,
	n: usize,
	slots: &BTreeMap<String, SubSlot>,
) -> (tokio::task::JoinHandle<()>, tokio::sync::oneshot::Sender<()>) {
	let client = rig.client.clone();
	let tracer = rig.tracer.clone();
	let hs = h.to_string();
	let kind = kind.to_string();
	let slot = slots.get(h).cloned();
	let sids = rig.id_kind_str;
	tracer.ev(json!({"ev": "FeStart", "h": hs}));
	let (ab_tx, mut ab_rx) = tokio::sync::oneshot::channel::<()>();
	let t2 = tracer.clone();
	let h2 = hs.clone();
	let jh = tokio::spawn(async move {
		let mut fut = Box::pin(async move {
		let res: Value = match kind.as_str() {
			"call" => match client.request::<Value, _>("m", ArrayParams::new()).await {
				// a result that is not the peer's {"tok":..} object (e.g. a bare subscription id): token unknown (-7)
				Ok(v) => json!({"k": "ok", "tok": v["tok"].as_i64().unwrap_or(-7)}),
				Err(e) => err_class(&e),
			},
			"sub" => match client.subscribe::<Value, _>("sub", ArrayParams::new(), "unsub").await {
				Ok(s) => {
					let sid = match s.kind() {
						jsonrpsee_core::client::SubscriptionKind::Subscription(id) => serde_json::to_value(id).unwrap(),
						_ => Value::Null,
					};
					*slot.as_ref().unwrap().lock() = Some(s);
					json!({"k": "sub", "sub": sub_as_num(&sid, sids)})
				}
				Err(e) => err_class(&e),
			},
			_ => {
				let mut b = BatchRequestBuilder::new();
				for _ in 0..n {
					b.insert("m", ArrayParams::new()).unwrap();
				}
				let r: Result<BatchResponse<Value>, Error> = client.batch_request(b).await;
				match r {
					Ok(br) => {
						let ok = br.num_successful_calls();
						let failed = br.num_failed_calls();
						let toks: Vec<i64> = br
							.into_iter()
							.map(|e| match e {
								Ok(v) => v["tok"].as_i64().unwrap_or(-7),
								Err(eo) => eo.data().and_then(|d| serde_json::from_str::<i64>(d.get()).ok()).unwrap_or(-1),
							})
							.collect();
						json!({"k": "batch", "toks": toks, "counts": [ok, failed]})
					}
					Err(e) => err_class(&e),
				}
			}
		};
		tracer.ev(json!({"ev": "FeDone", "h": hs, "res": res}));
		});
		// the caller's task may be kept from running for a while (`starve`): its future is simply not polled meanwhile
		let h3 = h2.clone();
		let mut gated = Box::pin(futures_util::future::poll_fn(move |cx| {
			if is_starved(&h3, cx.waker()) {
				return std::task::Poll::Pending;
			}
			fut.as_mut().poll(cx)
		}));
		let abandoned = tokio::select! {
			biased;
			r = &mut ab_rx => r.is_ok(),
			_ = &mut gated => return,
		};
		if abandoned {
			// no await between the decision and the drop: the log line and the drop are one step for every other task
			drop(gated);
			t2.ev(json!({"ev": "FeAbandon", "h": h2}));
		} else {
			// the driver let go of the handle without using it
			gated.await;
		}
	});
	(jh, ab_tx)
}
