//! C11: replay of Server.tla's guard behaviours (open / failed upgrade / finish in every way) against the real tower
//! service; after the last step `ConnectionGuard::available_connections()` must equal the spec's `free`, and the whole
//! sequence is repeated on the same service to show that slots are reused.
use crate::common::*;
use crate::server_rig::*;
use jsonrpsee_server::{ConnectionGuard, RpcModule};
use parking_lot::Mutex;
use serde_json::{Value, json};
use std::collections::HashMap;
use std::sync::Arc;
use std::time::Duration;
use tokio::io::{AsyncReadExt, AsyncWriteExt};
use tokio::sync::{mpsc, oneshot};

const WAIT: Duration = Duration::from_secs(5);

#[derive(Default)]
struct Ctx {
	guard: Mutex<Option<ConnectionGuard>>,
	gates: Mutex<HashMap<u64, oneshot::Receiver<()>>>,
	started: Mutex<Option<mpsc::UnboundedSender<u64>>>,
	running: std::sync::atomic::AtomicUsize,
	max_running: std::sync::atomic::AtomicUsize,
}

fn module(ctx: Arc<Ctx>) -> RpcModule<Arc<Ctx>> {
	let mut m = RpcModule::new(ctx);
	m.register_method("grab_guard", |_, ctx, ext| {
		*ctx.guard.lock() = ext.get::<ConnectionGuard>().cloned();
		ctx.guard.lock().is_some()
	})
	.unwrap();
	m.register_async_method("gated", |p, ctx, _| async move {
		let i: u64 = p.one().unwrap_or(0);
		let gate = ctx.gates.lock().remove(&i);
		if let Some(tx) = ctx.started.lock().as_ref() {
			let _ = tx.send(i);
		}
		if let Some(g) = gate {
			let _ = g.await;
		}
		i
	})
	.unwrap();
	m
}

enum Live {
	Http { io: tokio::io::DuplexStream, gate: Option<oneshot::Sender<()>>, _conn: tokio::task::JoinHandle<()> },
	Ws { peer: WsPeer, closed: std::pin::Pin<Box<dyn std::future::Future<Output = ()> + Send + Sync>>, reader: Option<tokio::task::JoinHandle<()>> },
}

struct World {
	/// `Server::start` on a loopback listener (the real accept loop and its per-connection hyper set-up) instead of the
	/// tower service on in-process pipes; the peers' pipes are bridged to TCP connections
	server: Option<(std::net::SocketAddr, jsonrpsee_server::ServerHandle)>,
	/// WebSocket pings enabled (cases that end a session by going silent)
	use_ping: bool,
	rig: Rig,
	limit: u32,
	ctx: Arc<Ctx>,
	started_rx: mpsc::UnboundedReceiver<u64>,
	live: HashMap<u64, Live>,
	serial: u64,
}

impl World {
	async fn new(limit: u32, use_ping: bool, server_mode: bool) -> World {
		let ctx = Arc::new(Ctx::default());
		let (stx, started_rx) = mpsc::unbounded_channel();
		*ctx.started.lock() = Some(stx);
		let methods: jsonrpsee_server::Methods = module(ctx.clone()).into();
		let cfg = RigCfg { max_conns: limit, ping_ms: if use_ping { Some((100, 300)) } else { None }, ..Default::default() };
		let server = if server_mode {
			let server = jsonrpsee_server::Server::builder().set_config(cfg.server_config()).build("127.0.0.1:0").await.expect("bind loopback");
			let addr = server.local_addr().unwrap();
			Some((addr, server.start(methods.clone())))
		} else {
			None
		};
		let rig = Rig::with_methods(cfg, Default::default(), methods);
		World { server, use_ping, rig, limit, ctx, started_rx, live: HashMap::new(), serial: 0 }
	}

	/// one HTTP exchange with its own connection (`Connection: close`) against the listener
	async fn tcp_http(addr: std::net::SocketAddr, head: &str, body: &str) -> u16 {
		let Ok(mut s) = tokio::net::TcpStream::connect(addr).await else { return 0 };
		let req = format!("{head}\r\nHost: localhost\r\nConnection: close\r\nContent-Length: {}\r\n\r\n{}", body.len(), body);
		let _ = s.write_all(req.as_bytes()).await;
		let mut buf = vec![];
		let _ = tokio::time::timeout(WAIT, s.read_to_end(&mut buf)).await;
		String::from_utf8_lossy(&buf).split_whitespace().nth(1).and_then(|c| c.parse().ok()).unwrap_or(0)
	}

	async fn free(&self) -> Option<usize> {
		self.ctx.guard.lock().as_ref().map(|g| g.available_connections())
	}

	async fn step(&mut self, op: &Value, kinds: &[String]) -> String {
		if self.server.is_some() && self.ctx.guard.lock().is_some() {
			// On the listener path the slot belongs to the TCP connection and comes back when the server has noticed that the
			// connection is over - a moment after the peer's side of the step.  The serialised driver waits for that moment
			// (bounded): every connection it has ended must have freed its slot before the next step is judged.
			let limit = self.limit as usize;
			let _ = self.wait_free(limit.saturating_sub(self.live.len())).await;
		}
		let c = op["c"].as_u64().unwrap();
		let kind = kinds[c as usize - 1].as_str();
		match op["o"].as_str().unwrap() {
			"open" if kind == "http" => {
				self.serial += 1;
				let tag = self.serial;
				let (gtx, grx) = oneshot::channel();
				self.ctx.gates.lock().insert(tag, grx);
				let (mut client, server) = tokio::io::duplex(1 << 16);
				let conn = if let Some((addr, _)) = &self.server {
					tokio::spawn(bridge(server, *addr))
				} else {
					let (stop, _handle) = jsonrpsee_server::stop_channel();
					let svc = self.rig.svc(stop.clone());
					tokio::spawn(async move {
						let _ = jsonrpsee_server::serve_with_graceful_shutdown(server, svc, stop.shutdown()).await;
						drop(_handle);
					})
				};
				let body = format!(r#"{{"jsonrpc":"2.0","id":1,"method":"gated","params":[{tag}]}}"#);
				let req = format!("POST / HTTP/1.1\r\nHost: localhost\r\nContent-Type: application/json\r\nContent-Length: {}\r\n\r\n{}", body.len(), body);
				let _ = client.write_all(req.as_bytes()).await;
				// either the handler starts (slot taken) or a 429 comes back at once
				let mut buf = vec![0u8; 4096];
				tokio::select! {
					s = tokio::time::timeout(WAIT, self.started_rx.recv()) => match s {
						Ok(Some(t)) if t == tag => { self.live.insert(c, Live::Http { io: client, gate: Some(gtx), _conn: conn }); "ok".into() }
						o => format!("odd-start:{o:?}"),
					},
					r = client.read(&mut buf) => match r {
						Ok(n) if n > 0 => {
							self.ctx.gates.lock().remove(&tag);
							String::from_utf8_lossy(&buf[..n]).split_whitespace().nth(1).unwrap_or("?").to_string()
						}
						_ => "eof".into(),
					},
				}
			}
			"open" => {
				let (closed, connected): (std::pin::Pin<Box<dyn std::future::Future<Output = ()> + Send + Sync>>, _) = if let Some((addr, _)) = &self.server {
					// no per-session hook on this path: the free-slot read after the step waits for the slot instead
					(Box::pin(async {}), WsPeer::connect_tcp(*addr, &[]).await)
				} else {
					let (stop, handle) = jsonrpsee_server::stop_channel();
					let mut svc = self.rig.svc(stop.clone());
					(Box::pin(svc.on_session_closed()), WsPeer::connect(svc, stop, handle, &[]).await)
				};
				match connected {
					Ok(mut peer) => {
						let mut reader = None;
						if self.use_ping {
							// a live peer answers the server's pings: soketto does that inside receive()
							let (tx, rx) = (peer.tx, peer.rx);
							let (dummy_tx, dummy_rx) = {
								let (a, _b) = tokio::io::duplex(64);
								let mut cl = soketto::handshake::Client::new(futures_util::io::BufReader::new(futures_util::io::BufWriter::new(tokio_util::compat::TokioAsyncReadCompatExt::compat(a))), "x", "/");
								let _ = &mut cl;
								cl.into_builder().finish()
							};
							let mut rx = rx;
							reader = Some(tokio::spawn(async move {
								let mut data = Vec::new();
								while rx.receive(&mut data).await.is_ok() {
									data.clear();
								}
							}));
							peer = WsPeer { tx, rx: dummy_rx, stop: peer.stop, handle: peer.handle, conn: peer.conn };
							drop(dummy_tx);
						}
						self.live.insert(c, Live::Ws { peer, closed, reader });
						"ok".into()
					}
					Err(e) => e.replace("rejected:", ""),
				}
			}
			"upgradeFail" => {
				// an upgrade request without Sec-WebSocket-Key: the handshake fails after the guard was consulted
				let status = if let Some((addr, _)) = &self.server {
					Self::tcp_http(*addr, "GET / HTTP/1.1\r\nUpgrade: websocket\r\nSec-WebSocket-Version: 13", "").await
				} else {
					self.rig
						.http("GET", &[("connection".into(), "upgrade".into()), ("upgrade".into(), "websocket".into()), ("sec-websocket-version".into(), "13".into())], vec![])
						.await
						.status
				};
				if status == 429 { "429".into() } else { "failed".into() }
			}
			"finish" => {
				let how = op["how"].as_str().unwrap();
				match self.live.remove(&c) {
					Some(Live::Http { mut io, gate, _conn }) => {
						if how == "respond" {
							let _ = gate.unwrap().send(());
							let mut buf = vec![0u8; 4096];
							match tokio::time::timeout(WAIT, io.read(&mut buf)).await {
								Ok(Ok(n)) if n > 0 && buf.starts_with(b"HTTP/1.1 200") => "ok".into(),
								o => format!("bad-response:{:?}", o.map(|r| r.map(|n| String::from_utf8_lossy(&buf[..n.min(40)]).into_owned()))),
							}
						} else {
							// the peer goes away while the call is executing - and the handler is one that would not return by
							// itself (its gate is never opened): the slot must come back because the connection is gone
							drop(io);
							std::mem::forget(gate);
							"ok".into()
						}
					}
					Some(Live::Ws { peer, closed, reader }) => {
						match how {
							"inactive" => {
								// a call is executing (its gate is never opened), then the peer goes silent: no more pongs.
								// The server must close the session for inactivity and give the slot back.
								let mut peer = peer;
								self.serial += 1;
								let tag = self.serial;
								let (gtx, grx) = oneshot::channel::<()>();
								self.ctx.gates.lock().insert(tag, grx);
								let _ = peer.tx.send_text(format!(r#"{{"jsonrpc":"2.0","id":1,"method":"gated","params":[{tag}]}}"#)).await;
								let _ = peer.tx.flush().await;
								let _ = tokio::time::timeout(WAIT, self.started_rx.recv()).await;
								if let Some(r) = reader {
									r.abort();
								}
								let _ = tokio::time::timeout(WAIT, closed).await;
								std::mem::forget(gtx); // the call never finishes
								std::mem::forget(peer); // and the peer never closes its socket
							}
							"clientClose" => {
								let mut peer = peer;
								let _ = peer.tx.close().await;
								let _ = tokio::time::timeout(WAIT, closed).await;
							}
							"serverClose" => {
								let _ = peer.handle.stop();
								let _ = tokio::time::timeout(WAIT, closed).await;
							}
							_ => {
								// abrupt: both halves of the client's IO vanish without a close frame (the pong-answering reader
								// task owns the receiving half: it goes too)
								if let Some(r) = reader {
									r.abort();
									let _ = r.await;
								}
								drop(peer);
								let _ = tokio::time::timeout(WAIT, closed).await;
							}
						}
						"ok".into()
					}
					None => "not-live".into(),
				}
			}
			o => panic!("op {o}"),
		}
	}

	async fn wait_free(&self, want: usize) -> Option<usize> {
		let deadline = tokio::time::Instant::now() + Duration::from_secs(3);
		loop {
			let f = self.free().await?;
			if f == want || tokio::time::Instant::now() > deadline {
				return Some(f);
			}
			tokio::time::sleep(Duration::from_millis(1)).await;
		}
	}
}

/// "A WebSocket connection counts for its whole life": a session whose peer has said goodbye (close frame) but does not read
/// what the server still owes it - the writer is blocked on a full pipe, the session's task has not ended - keeps its slot.
/// (a hand-rolled peer: `soketto`'s client cannot half-close).  With max_connections = 1 a second session is refused until the first one is really over; then the slot is there again.
async fn lingering_teardown() -> Vec<(String, Value)> {
	let mut probs = vec![];
	let rig = Rig::new(RigCfg { max_conns: 1, buf_cap: 4, ..Default::default() });
	let (stop, _handle) = jsonrpsee_server::stop_channel();
	let Ok(mut a) = RawWs::connect(rig.svc(stop.clone()), stop.clone(), 16 * 1024).await else {
		return vec![("lingering-teardown:first-session-refused".into(), Value::Null)];
	};
	// six results of 150 kB that the peer never reads: the session's writer blocks on the full pipe
	for j in 0..6 {
		let _ = a.send_frame(true, 1, format!(r#"{{"jsonrpc":"2.0","id":{j},"method":"big","params":[150000,"ascii"]}}"#).as_bytes()).await;
	}
	tokio::time::sleep(Duration::from_millis(100)).await;
	// the peer is done sending (FIN) but stays connected, still not reading
	a.shutdown_write().await;
	tokio::time::sleep(Duration::from_millis(150)).await;
	match RawWs::connect(rig.svc(stop.clone()), stop.clone(), 16 * 1024).await {
		Err(429) => {}
		Err(e) => probs.push((format!("lingering-teardown:second-session-answered-{e}"), Value::Null)),
		Ok(_) => probs.push(("lingering-teardown:second-session-admitted-while-the-first-is-not-over".into(), json!({"max_connections": 1}))),
	}
	// the first peer goes away for good: its slot comes back
	drop(a);
	let mut again = false;
	for _ in 0..200 {
		if RawWs::connect(rig.svc(stop.clone()), stop.clone(), 16 * 1024).await.is_ok() {
			again = true;
			break;
		}
		tokio::time::sleep(Duration::from_millis(10)).await;
	}
	if !again {
		probs.push(("lingering-teardown:slot-not-reusable-after-the-session-ended".into(), Value::Null));
	}
	probs
}

pub fn replay(cases: &[Value], out: &mut Out) {
	let rt = tokio::runtime::Builder::new_multi_thread().worker_threads(8).enable_all().build().unwrap();
	let cycles: usize = std::env::var("VERIF_CYCLES").ok().and_then(|s| s.parse().ok()).unwrap_or(3);
	let extra = rt.block_on(lingering_teardown());
	let mut extra = Some(extra);
	rt.block_on(async {
		let all: Vec<(usize, Value)> = cases.iter().cloned().enumerate().collect();
		let mut handles = vec![];
		for chunk in all.chunks((all.len() / 16).max(1)) {
			let chunk = chunk.to_vec();
			handles.push(tokio::spawn(async move {
				let mut v = vec![];
				for (i, c) in chunk {
					v.push((i, one_case(&c, cycles, i).await));
				}
				v
			}));
		}
		for h in handles {
			for (i, mut probs) in h.await.unwrap() {
				if let Some(e) = extra.take() {
					probs.extend(e); // (reported with the first verdict)
				}
				out.problems(i, 0, probs, Value::Null);
			}
		}
	});
}

async fn one_case(c: &Value, cycles: usize, idx: usize) -> Vec<(String, Value)> {
	let limit = c["limit"].as_u64().unwrap() as u32;
	let kinds: Vec<String> = c["kinds"].as_array().unwrap().iter().map(|k| k.as_str().unwrap().to_string()).collect();
	let use_ping = c["path"].as_array().unwrap().iter().any(|s| s["op"].get("how").map(|h| h == "inactive").unwrap_or(false));
	// every third case goes through `Server::start` on a loopback listener (the server-side close of one session is only
	// available on the tower path: those cases stay there)
	let has_server_close = c["path"].as_array().unwrap().iter().any(|s| s["op"].get("how").map(|h| h == "serverClose").unwrap_or(false));
	let server_mode = idx % 3 == 2 && !has_server_close;
	let mut w = World::new(limit, use_ping, server_mode).await;
	let mut probs = vec![];
	if limit > 0 {
		// warm-up: a handler takes a clone of the guard out of the request extensions
		let status = if let Some((addr, _)) = &w.server {
			World::tcp_http(*addr, "POST / HTTP/1.1\r\nContent-Type: application/json", r#"{"jsonrpc":"2.0","id":0,"method":"grab_guard"}"#).await
		} else {
			w.rig.http_json(br#"{"jsonrpc":"2.0","id":0,"method":"grab_guard"}"#).await.status
		};
		if status != 200 || w.ctx.guard.lock().is_none() {
			probs.push(("guard-not-in-extensions".to_string(), json!({"status": status, "server_mode": server_mode})));
			return probs;
		}
	}
	let path = c["path"].as_array().unwrap();
	for cycle in 0..cycles {
		let mut log = vec![];
		for (n, st) in path.iter().enumerate() {
			let got = w.step(&st["op"], &kinds).await;
			log.push(json!({"op": st["op"], "got": got}));
			let want = st["res"].as_str().unwrap();
			if got != want {
				let how = st["op"].get("how").and_then(|h| h.as_str()).unwrap_or("");
				probs.push((format!("step:{}{}:exp-{want}-got-{}:cycle{}", st["op"]["o"].as_str().unwrap(), how, if got.len() > 12 { "other" } else { &got }, if cycle == 0 { "0" } else { "N" }), json!({"case": c, "step": n, "cycle": cycle, "log": log})));
				return probs;
			}
		}
		if limit > 0 {
			let want = c["free"].as_u64().unwrap() as usize;
			let got = w.wait_free(want).await.unwrap_or(usize::MAX);
			if got != want {
				let last = &path[path.len() - 1]["op"];
				probs.push((
					format!("free-slots-after-{}{}:exp-{want}-got-{got}", last["o"].as_str().unwrap(), last.get("how").and_then(|h| h.as_str()).unwrap_or("")),
					json!({"case": c, "cycle": cycle, "log": log}),
				));
				return probs;
			}
		}
		// end every connection still in service so that the next cycle starts from a full guard
		let open: Vec<u64> = w.live.keys().cloned().collect();
		for cn in open {
			let how = if kinds[cn as usize - 1] == "http" {
				"respond"
			} else if w.server.is_some() {
				["clientClose", "reset"][(cycle + cn as usize) % 2]
			} else {
				["clientClose", "reset", "serverClose"][(cycle + cn as usize) % 3]
			};
			let _ = w.step(&json!({"o": "finish", "c": cn, "how": how}), &kinds).await;
		}
		if limit > 0 {
			let got = w.wait_free(limit as usize).await.unwrap_or(usize::MAX);
			if got != limit as usize {
				probs.push((format!("slots-not-all-free-after-cycle:exp-{limit}-got-{got}"), json!({"case": c, "cycle": cycle})));
				return probs;
			}
		}
	}
	probs
}
