//! HttpClient.tla replay: sequences of calls / notifications of the HTTP client against a scripted tower service that sees each
//! request and answers it with a reply of the case's class.
use crate::common::*;
use jsonrpsee_core::client::{ClientT, Error, IdKind};
use jsonrpsee_core::params::ArrayParams;
use jsonrpsee_http_client::{HttpClientBuilder, HttpRequest, HttpResponse};
use serde_json::{Value, json};
use std::sync::Arc;

#[derive(serde::Deserialize, Debug)]
struct Tok {
	tok: i64,
}

#[derive(Default)]
struct Script {
	class: String,
	token: i64,
	seen: Vec<String>,
}

#[derive(Clone)]
struct Scripted(Arc<parking_lot::Mutex<Script>>);

fn flip(id: &Value) -> Value {
	match id {
		Value::Number(n) => Value::String(n.to_string()),
		Value::String(s) => s.parse::<u64>().map(|n| json!(n)).unwrap_or(Value::Null),
		o => o.clone(),
	}
}
fn shift(id: &Value, d: i64) -> Value {
	match id {
		Value::Number(n) => json!((n.as_i64().unwrap_or(0) + d).max(0) as u64 + if n.as_i64().unwrap_or(0) + d < 0 { 2 } else { 0 }),
		Value::String(s) => {
			let n = s.parse::<i64>().unwrap_or(0) + d;
			Value::String((if n < 0 { n + 3 } else { n }).to_string())
		}
		o => o.clone(),
	}
}

/// (status, body) of a reply of class `class` to a request with id `id`
fn reply(class: &str, id: &Value, tok: i64) -> (u16, String) {
	let ok = |id: &Value, res: Value| json!({"jsonrpc": "2.0", "id": id, "result": res}).to_string();
	let err = |id: &Value| json!({"jsonrpc": "2.0", "id": id, "error": {"code": -32050, "message": "refused", "data": tok}}).to_string();
	match class {
		"okOwn" => (200, ok(id, json!({"tok": tok}))),
		"okForeign" => (200, ok(&shift(id, 1), json!({"tok": tok}))),
		"okPrevious" => (200, ok(&shift(id, -1), json!({"tok": tok}))),
		"okNullId" => (200, ok(&Value::Null, json!({"tok": tok}))),
		"okOtherType" => (200, ok(&flip(id), json!({"tok": tok}))),
		"okUndecodable" => (200, ok(id, json!({"tok": "not a number"}))),
		"okUndecodableForeign" => (200, ok(&shift(id, 1), json!({"tok": "not a number"}))),
		"errOwn" => (200, err(id)),
		"errForeign" => (200, err(&shift(id, 1))),
		"errNull" => (200, err(&Value::Null)),
		"both" => (200, json!({"jsonrpc": "2.0", "id": id, "result": {"tok": tok}, "error": {"code": -32050, "message": "refused"}}).to_string()),
		"neither" => (200, json!({"jsonrpc": "2.0", "id": id}).to_string()),
		"notJson" => (200, "hello, I am not JSON".into()),
		"empty" => (200, String::new()),
		"arrayOfOwn" => (200, format!("[{}]", ok(id, json!({"tok": tok})))),
		"status500" => (500, ok(id, json!({"tok": tok}))),
		"status404" => (404, ok(id, json!({"tok": tok}))),
		"tooLarge" => (200, ok(id, json!({"tok": tok, "pad": "x".repeat(6000)}))),
		o => panic!("HARNESS reply class {o}"),
	}
}

impl<B> tower::Service<HttpRequest<B>> for Scripted
where
	B: http_body::Body<Data = bytes::Bytes> + Send + 'static,
	B::Error: std::fmt::Debug,
{
	type Response = HttpResponse;
	type Error = jsonrpsee_http_client::transport::Error;
	type Future = std::pin::Pin<Box<dyn std::future::Future<Output = Result<HttpResponse, Self::Error>> + Send>>;
	fn poll_ready(&mut self, _: &mut std::task::Context<'_>) -> std::task::Poll<Result<(), Self::Error>> {
		std::task::Poll::Ready(Ok(()))
	}
	fn call(&mut self, req: HttpRequest<B>) -> Self::Future {
		let me = self.0.clone();
		Box::pin(async move {
			use http_body_util::BodyExt;
			let bytes = req.into_body().collect().await.map(|c| c.to_bytes().to_vec()).unwrap_or_default();
			let text = String::from_utf8_lossy(&bytes).into_owned();
			let id = serde_json::from_str::<Value>(&text).ok().and_then(|v| v.get("id").cloned()).unwrap_or(Value::Null);
			let (status, body) = {
				let mut s = me.lock();
				s.seen.push(text);
				reply(&s.class, &id, s.token)
			};
			Ok(http::Response::builder().status(status).header("content-type", "application/json").body(jsonrpsee_http_client::HttpBody::from(body)).unwrap())
		})
	}
}

fn class_of(e: &Error) -> &'static str {
	match e {
		Error::Call(_) => "callError",
		Error::ParseError(_) => "parse",
		Error::InvalidRequestId(_) => "invalidId",
		Error::Transport(_) => "transport",
		Error::RequestTimeout => "timeout",
		_ => "other",
	}
}

pub fn replay(cases: &[Value], out: &mut Out) {
	let rt = tokio::runtime::Builder::new_current_thread().enable_all().build().unwrap();
	let mut drift = 0u64;
	let mut drift_kinds: std::collections::BTreeMap<String, u64> = Default::default();
	rt.block_on(async {
		for (i, c) in cases.iter().enumerate() {
			let string_ids = i % 2 == 1;
			let script = Scripted(Default::default());
			let s2 = script.clone();
			let client = HttpClientBuilder::default()
				.id_format(if string_ids { IdKind::String } else { IdKind::Number })
				.max_response_size(4096)
				.set_http_middleware(tower::ServiceBuilder::new().layer(tower::layer::layer_fn(move |_inner: jsonrpsee_http_client::transport::HttpBackend| s2.clone())))
				.build("http://localhost:1")
				.expect("http client builds");
			let mut probs: Vec<(String, Value)> = vec![];
			let mut used_ids: Vec<Value> = vec![];
			for (j, call) in c["calls"].as_array().unwrap().iter().enumerate() {
				let (kind, class) = (call["kind"].as_str().unwrap(), call["reply"].as_str().unwrap());
				let tok = (i as i64) * 10 + j as i64 + 1;
				{
					let mut s = script.0.lock();
					s.class = class.into();
					s.token = tok;
					s.seen.clear();
				}
				let mut p = ArrayParams::new();
				p.insert(tok).unwrap();
				let observed: Value = if kind == "call" {
					match client.request::<Tok, _>("m", p).await {
						Ok(t) => json!({"k": "ok", "tok": t.tok}),
						Err(Error::Call(e)) => json!({"k": "callError", "code": e.code(), "tok": e.data().and_then(|d| serde_json::from_str::<i64>(d.get()).ok())}),
						Err(e) => json!({"k": class_of(&e), "err": e.to_string()}),
					}
				} else {
					match client.notification("m", p).await {
						Ok(()) => json!({"k": "ok"}),
						Err(e) => json!({"k": class_of(&e), "err": e.to_string()}),
					}
				};
				let seen = script.0.lock().seen.clone();
				let d = |what: &str| json!({"case": c, "step": j, "what": what, "observed": observed, "requests": seen});
				// ---- what went out: exactly one request, the next id in the configured kind (none for a notification)
				let sent: Vec<Value> = seen.iter().filter_map(|t| serde_json::from_str(t).ok()).collect();
				if sent.len() != 1 || seen.len() != 1 {
					probs.push((format!("http-client:{kind}:requests-sent-{}", seen.len()), d("one request per call")));
				} else {
					let r = &sent[0];
					// a call carries an id that no earlier call of this client used (which id is the client's business: the
					// model's `nextId` is what the tree does - counted as drift when it differs); a notification carries none
					let want_id = call["id"].as_i64().unwrap();
					if kind == "notif" {
						if r.get("id").is_some() {
							probs.push(("http-client:notif:request-carries-an-id".into(), d("id on the wire")));
						}
					} else {
						let id = r.get("id").cloned().unwrap_or(Value::Null);
						if id.is_null() || used_ids.contains(&id) {
							probs.push(("http-client:call:request-id-missing-or-used-before".into(), d("id on the wire")));
						}
						if id != (if string_ids { json!(want_id.to_string()) } else { json!(want_id) }) {
							drift += 1;
							*drift_kinds.entry("call:request-id-differs-from-the-models-counter".to_string()).or_default() += 1;
						}
						used_ids.push(id);
					}
					if r["jsonrpc"] != json!("2.0") || r["method"] != json!("m") || r["params"] != json!([tok]) {
						probs.push((format!("http-client:{kind}:request-not-what-was-asked"), d("request on the wire")));
					}
				}
				// ---- what came back
				let got = observed["k"].as_str().unwrap();
				let allowed: Vec<&str> = call["allowed"].as_array().unwrap().iter().map(|a| a.as_str().unwrap()).collect();
				if !allowed.contains(&got) {
					probs.push((format!("http-client:{kind}:{class}:exp-{}-got-{got}", allowed.join("|")), d("outcome outside what the property allows")));
				} else if got != call["out"]["k"].as_str().unwrap() {
					drift += 1;
					*drift_kinds.entry(format!("{kind}:{class}:model-{}-code-{got}", call["out"]["k"].as_str().unwrap())).or_default() += 1;
				}
				if got == "ok" && kind == "call" && observed["tok"] != json!(tok) {
					probs.push((format!("http-client:call:{class}:value-is-not-the-own-result"), d("value")));
				}
				if got == "callError" && (observed["code"] != json!(-32050) || observed["tok"] != json!(tok)) {
					probs.push((format!("http-client:call:{class}:error-object-altered"), d("error object")));
				}
			}
			out.problems(i, 0, probs, Value::Null);
		}
	});
	out.raw(&json!({"stat": "model_drift", "n": drift, "kinds": drift_kinds}));
}
