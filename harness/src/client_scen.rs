//! Seeded random scenarios against the real async client (C03, C05, C09, C12, C18).  Each scenario is one trace
//! (ndjson events, `Reset` first, `End` last) that Trace_Client.tla must accept.
use crate::client_rig::*;
use crate::common::*;
use futures_util::FutureExt;
use rand::Rng;
use rand::rngs::StdRng;
use serde_json::{Value, json};
use std::collections::BTreeMap;
use std::sync::Arc;
use std::time::Duration;

thread_local! {
	/// handles of streams that have yielded their end and are still held by the application (everything here runs on one thread)
	static ENDED: std::cell::RefCell<Vec<(String, jsonrpsee_core::client::Subscription<Value>)>> = const { std::cell::RefCell::new(Vec::new()) };
}
fn keep_ended(h: &str, s: Option<jsonrpsee_core::client::Subscription<Value>>) {
	if let Some(s) = s {
		ENDED.with(|e| e.borrow_mut().push((h.to_string(), s)));
	}
}
/// the application lets go of an ended handle (of `h`, or of any one when `h` is None)
fn drop_ended(h: Option<&str>, tracer: &Tracer) -> bool {
	let taken = ENDED.with(|e| {
		let mut e = e.borrow_mut();
		let i = match h {
			Some(h) => e.iter().position(|(x, _)| x == h),
			None => if e.is_empty() { None } else { Some(0) },
		};
		i.map(|i| e.remove(i))
	});
	match taken {
		Some((h, s)) => {
			drop(s);
			tracer.ev(json!({"ev": "SubDropEnded", "h": h}));
			true
		}
		None => false,
	}
}

#[derive(Clone)]
pub struct Group {
	pub name: &'static str,
	pub ops: Vec<(&'static str, &'static str, usize)>, // (h, kind, batch n)
	pub max_queue: usize,
	pub buf_cap: usize,
}

pub fn group(name: &str) -> Group {
	match name {
		"route" => Group { name: "route", ops: vec![("a", "call", 1), ("b", "call", 1), ("c", "call", 1), ("d", "sub", 1)], max_queue: 2, buf_cap: 2 },
		"stream" => Group { name: "stream", ops: vec![("a", "sub", 1), ("b", "sub", 1), ("c", "call", 1)], max_queue: 2, buf_cap: 1 },
		// a client configured with max_concurrent_requests = 1: the front->back queue is full as soon as one message waits
		"tight" => Group { name: "tight", ops: vec![("a", "sub", 1), ("b", "sub", 1), ("c", "call", 1), ("d", "call", 1)], max_queue: 1, buf_cap: 1 },
		"batch" => Group { name: "batch", ops: vec![("a", "batch", 3), ("b", "batch", 2), ("c", "call", 1)], max_queue: 4, buf_cap: 1 },
		"faulty" => Group { name: "faulty", ops: vec![("a", "call", 1), ("b", "sub", 1), ("c", "batch", 2), ("d", "call", 1)], max_queue: 2, buf_cap: 1 },
		_ => Group { name: "mixed", ops: vec![("a", "call", 1), ("b", "sub", 1), ("c", "batch", 2), ("d", "sub", 1)], max_queue: 3, buf_cap: 2 },
	}
}

struct Peer {
	ntok: i64,
	pushed: BTreeMap<i64, i64>,
	max_arr: i64,
	string_ids: bool,
}

impl Peer {
	fn id_json(&self, n: i64) -> String {
		let n = num_as_u64(n).to_string();
		if self.string_ids { format!("\"{n}\"") } else { n }
	}
	fn sub_json(&self, s: i64) -> String {
		// 101, 102: the digits of 1, 2 in the other JSON type (client_rig::sub_as_num)
		let (digits, as_string) = if s >= 100 { (s - 100, !self.string_ids) } else { (s, self.string_ids) };
		if as_string { format!("\"{digits}\"") } else { digits.to_string() }
	}
	/// concrete text of one (already numbered) abstract element
	fn text(&self, m: &Value) -> String {
		match m["t"].as_str().unwrap() {
			"resp" => {
				let id = self.id_json(m["id"].as_i64().unwrap());
				let tok = m["tok"].as_i64().unwrap();
				if m["ok"] == json!(true) {
					let s = m["sub"].as_i64().unwrap();
					if s >= 0 {
						format!(r#"{{"jsonrpc":"2.0","id":{id},"result":{}}}"#, self.sub_json(s))
					} else {
						format!(r#"{{"jsonrpc":"2.0","id":{id},"result":{{"tok":{tok}}}}}"#)
					}
				} else {
					format!(r#"{{"jsonrpc":"2.0","id":{id},"error":{{"code":-32000,"message":"refused","data":{tok}}}}}"#)
				}
			}
			"notif" => format!(r#"{{"jsonrpc":"2.0","method":"sub","params":{{"subscription":{},"result":{}}}}}"#, self.sub_json(m["sub"].as_i64().unwrap()), m["n"]),
			"close" => format!(r#"{{"jsonrpc":"2.0","method":"sub","params":{{"subscription":{},"error":"closed by server"}}}}"#, self.sub_json(m["sub"].as_i64().unwrap())),
			"mnotif" => r#"{"jsonrpc":"2.0","method":"other","params":[1]}"#.to_string(),
			"array" => format!("[{}]", m["elems"].as_array().unwrap().iter().map(|e| self.text(e)).collect::<Vec<_>>().join(",")),
			_ => "{\"foo\":1".to_string(),
		}
	}
	/// number tokens / payloads exactly as Client.tla's PeerSend does
	fn number(&mut self, m0: Value) -> Value {
		let base = self.ntok;
		self.ntok += self.max_arr + 1;
		let mut one = |mut x: Value, k: i64, pushed: &mut BTreeMap<i64, i64>| -> Value {
			match x["t"].as_str().unwrap() {
				"resp" => {
					x["tok"] = json!(base + k);
				}
				"notif" => {
					let s = x["sub"].as_i64().unwrap();
					let n = pushed.entry(s).or_insert(0);
					*n += 1;
					x["n"] = json!(*n);
				}
				_ => {}
			}
			x
		};
		if m0["t"] == "array" {
			let elems: Vec<Value> = m0["elems"].as_array().unwrap().iter().enumerate().map(|(i, e)| one(e.clone(), i as i64 + 1, &mut self.pushed)).collect();
			json!({"t": "array", "elems": elems})
		} else {
			one(m0, 1, &mut self.pushed)
		}
	}
}

/// a subscription id the peer talks about: 1 or 2, now and then their other-typed twins 101 / 102
fn pick_sub(rng: &mut StdRng) -> i64 {
	let s = rng.random_range(1..3);
	if rng.random_range(0..7) == 0 { s + 100 } else { s }
}

fn gen_single(rng: &mut StdRng, seen: &[i64], max_seen: i64, menu: &[&str]) -> Option<Value> {
	let k = menu[rng.random_range(0..menu.len())];
	Some(match k {
		"resp" => {
			if seen.is_empty() {
				return None;
			}
			let id = match rng.random_range(0..24) {
				0 => max_seen + 7,
				1 => [999_999, 999_998][rng.random_range(0..2)],
				_ => seen[rng.random_range(0..seen.len())],
			};
			let (ok, sub) = match rng.random_range(0..6) {
				0 => (false, -1),
				1 => (true, 1),
				2 => (true, 2),
				_ => (true, -1),
			};
			json!({"t": "resp", "id": id, "ok": ok, "sub": sub})
		}
		"notif" => json!({"t": "notif", "sub": pick_sub(rng)}),
		"close" => json!({"t": "close", "sub": pick_sub(rng)}),
		"mnotif" => json!({"t": "mnotif"}),
		_ => json!({"t": "garbage"}),
	})
}

/// a response aimed at what an op is waiting for: the right shape for its kind
fn gen_answer(rng: &mut StdRng, id: i64, is_sub: bool) -> Value {
	if is_sub {
		match rng.random_range(0..8) {
			0 => json!({"t": "resp", "id": id, "ok": false, "sub": -1}),
			1 => json!({"t": "resp", "id": id, "ok": true, "sub": -1}),
			_ => json!({"t": "resp", "id": id, "ok": true, "sub": pick_sub(rng)}),
		}
	} else {
		json!({"t": "resp", "id": id, "ok": rng.random_range(0..6) != 0, "sub": -1})
	}
}

/// Single-threaded runtimes that differ in how often the driver future (a front-end caller itself, see client_rig::observe)
/// gets a turn between the client's background tasks: after every task, after every second one, tokio's default (61).
fn runtimes() -> Vec<tokio::runtime::Runtime> {
	[1u32, 61, 2].iter().map(|n| tokio::runtime::Builder::new_current_thread().enable_all().event_interval(*n).build().unwrap()).collect()
}

pub fn run(gname: &str, nscen: usize, out_path: &str) {
	let g = group(gname);
	let rts = runtimes();
	let mut outf = crate::common::Out::create(out_path);
	let prev = std::panic::take_hook();
	let panics: Arc<parking_lot::Mutex<Vec<String>>> = Default::default();
	{
		let p = panics.clone();
		std::panic::set_hook(Box::new(move |info| {
			p.lock().push(info.to_string());
		}));
	}
	for sc in 0..nscen {
		let mut rng = rng_for(sc, gname.len());
		let evs = rts[(sc / 3) % rts.len()].block_on(scenario(&g, &mut rng, sc, &panics));
		for e in evs {
			outf.raw(&e);
		}
	}
	std::panic::set_hook(prev);
	outf.finish();
}

async fn scenario(g: &Group, rng: &mut StdRng, sc: usize, panics: &Arc<parking_lot::Mutex<Vec<String>>>) -> Vec<Value> {
	let string_ids = sc % 3 == 2;
	let rig = build(g.max_queue, g.buf_cap, string_ids, Duration::from_secs(4), sc as u64 + seed());
	let tracer = rig.tracer.clone();
	ENDED.with(|e| e.borrow_mut().clear());
	unstarve_all();
	tracer.ev(json!({"ev": "Reset", "sc": sc, "group": g.name, "string_ids": string_ids}));
	set_observer(Some((rig.client.clone(), tracer.clone())));
	let mut slots: BTreeMap<String, SubSlot> = BTreeMap::new();
	for (h, k, _) in &g.ops {
		if *k == "sub" {
			slots.insert(h.to_string(), Default::default());
		}
	}
	let mut peer = Peer { ntok: 0, pushed: BTreeMap::new(), max_arr: 3, string_ids };
	let mut unstarted: Vec<usize> = (0..g.ops.len()).collect();
	let mut tasks = vec![];
	let mut abandon: BTreeMap<String, tokio::sync::oneshot::Sender<()>> = BTreeMap::new();
	let mut faulted = false;
	let mut npeer = 0;
	let menu_weighted: Vec<&str> = match g.name {
		"route" => vec!["resp", "resp", "resp", "resp", "notif", "mnotif"],
		"stream" | "tight" => vec!["resp", "notif", "notif", "notif", "close", "mnotif"],
		"batch" => vec!["resp"],
		_ => vec!["resp", "resp", "notif", "notif", "close", "mnotif"],
	};
	let steps = rng.random_range(6..26);
	for _ in 0..steps {
		let seen: Vec<(i64, String)> = rig.wire.lock().iter().flat_map(|o| o.ids.iter().map(|i| (id_as_num(i), o.kind.clone())).collect::<Vec<_>>()).collect();
		let seen_ids: Vec<i64> = seen.iter().map(|s| s.0).collect();
		let max_seen = seen_ids.iter().max().cloned().unwrap_or(0);
		let roll = rng.random_range(0..100);
		if roll < 22 && !unstarted.is_empty() {
			let i = unstarted.remove(rng.random_range(0..unstarted.len()));
			let (h, k, n) = g.ops[i];
			let (jh, ab) = start_op_abandonable(&rig, h, k, n, &slots);
			tasks.push(jh);
			abandon.insert(h.to_string(), ab);
		} else if roll < 24 && !faulted && !abandon.is_empty() && !seen.is_empty() && rng.random_bool(0.5) {
			// The callers do not get to run for a while (their tasks are starved): the peer answers what is on the wire, then the
			// connection ends, the client winds the connection down - and only then the callers look at their futures.  A call
			// that was answered has its answer.
			for h in abandon.keys() {
				starve(h);
			}
			let mut answered = 0;
			for (id, kind) in seen.iter().rev().take(3) {
				if kind == "batch" {
					continue;
				}
				let m = peer.number(gen_answer(rng, *id, kind == "sub"));
				let text = peer.text(&m);
				npeer += 1;
				answered += 1;
				tracer.ev(json!({"ev": "PeerSend", "m": m}));
				let _ = rig.peer_tx.send(PeerItem::Text(text, m));
				settle(rng.random_range(0..2)).await;
			}
			if answered > 0 {
				faulted = true;
				inject(if rng.random_bool(0.5) { "recvErr" } else { "peerClose" }, &rig, &tracer);
				settle(40).await;
			}
			unstarve_all();
		} else if roll < 25 && !abandon.is_empty() {
			// the application gives a future up before it has returned (a timeout around the call, a select!)
			let hs: Vec<String> = abandon.keys().cloned().collect();
			let h = hs[rng.random_range(0..hs.len())].clone();
			let _ = abandon.remove(&h).unwrap().send(());
			settle(2).await;
		} else if roll < 68 && !faulted && npeer < 12 {
			// the peer says something
			let m0 = match rng.random_range(0..10) {
				// an answer shaped for a request that is on the wire (most useful)
				0..=4 if !seen.is_empty() => {
					let (id, kind) = seen[rng.random_range(0..seen.len())].clone();
					Some(gen_answer(rng, id, kind == "sub"))
				}
				// an array
				5..=6 => {
					let n = rng.random_range(1..4);
					let mut elems = vec![];
					if g.name == "batch" || (g.name == "mixed" && rng.random_bool(0.5)) {
						// a batch-shaped reply: answers to a run of seen ids, permuted / with gaps / duplicates / a foreign id
						let batch_ids: Vec<i64> = rig.wire.lock().iter().filter(|o| o.kind == "batch").flat_map(|o| o.ids.iter().map(id_as_num).collect::<Vec<_>>()).collect();
						if !batch_ids.is_empty() {
							let which = rig.wire.lock().iter().filter(|o| o.kind == "batch").map(|o| o.ids.iter().map(id_as_num).collect::<Vec<_>>()).collect::<Vec<_>>();
							let ids = which[rng.random_range(0..which.len())].clone();
							let mut ids2 = ids.clone();
							match rng.random_range(0..10) {
								0 => {
									ids2.remove(rng.random_range(0..ids2.len()));
								}
								1 => {
									let d = ids2[rng.random_range(0..ids2.len())];
									ids2.push(d);
								}
								2 => ids2.push(max_seen + 7),
								3 => ids2.push(1_000_000),
								5 => ids2.push([999_999, 999_998][rng.random_range(0..2)]),
								6 | 7 if ids2.len() > 2 => {
									// same number of entries, first and last id present, one id repeated in place of another
									let (a, b) = (rng.random_range(0..ids2.len()), 1 + rng.random_range(0..ids2.len() - 2));
									if a != b {
										ids2[b] = ids2[a];
									}
								}
								4 if ids2.len() > 1 => {
									ids2.remove(0);
								}
								_ => {}
							}
							for i in (1..ids2.len()).rev() {
								ids2.swap(i, rng.random_range(0..=i));
							}
							ids2.truncate(3);
							for id in ids2 {
								elems.push(json!({"t": "resp", "id": id, "ok": rng.random_range(0..5) != 0, "sub": -1}));
							}
						}
					}
					if elems.is_empty() {
						for _ in 0..n {
							if let Some(e) = gen_single(rng, &seen_ids, max_seen, &menu_weighted.iter().filter(|m| **m != "garbage").cloned().collect::<Vec<_>>()) {
								elems.push(e);
							}
						}
					}
					if elems.is_empty() { None } else { Some(json!({"t": "array", "elems": elems})) }
				}
				7 if rng.random_range(0..6) == 0 => Some(json!({"t": "garbage"})),
				_ => gen_single(rng, &seen_ids, max_seen, &menu_weighted),
			};
			if let Some(m0) = m0 {
				let m = peer.number(m0);
				let text = peer.text(&m);
				npeer += 1;
				tracer.ev(json!({"ev": "PeerSend", "m": m}));
				let _ = rig.peer_tx.send(PeerItem::Text(text, m));
			}
		} else if roll < 86 {
			// the application touches a stream it holds - or lets go of one that has ended a while ago
			if rng.random_range(0..3) == 0 && drop_ended(None, &tracer) {
				settle(rng.random_range(0..4)).await;
				continue;
			}
			let held: Vec<String> = slots.iter().filter(|(_, s)| s.lock().is_some()).map(|(h, _)| h.clone()).collect();
			if !held.is_empty() {
				let h = held[rng.random_range(0..held.len())].clone();
				let slot = slots[&h].clone();
				match rng.random_range(0..10) {
					0..=5 => {
						let mut gd = slot.lock();
						let s = gd.as_mut().unwrap();
						match s.next().now_or_never() {
							Some(Some(Ok(v))) => tracer.ev(json!({"ev": "SubNext", "h": h, "n": v})),
							Some(Some(Err(e))) => tracer.ev(json!({"ev": "SubNext", "h": h, "n": -1, "err": e.to_string()})),
							Some(None) => {
								let lagged = matches!(s.close_reason(), Some(jsonrpsee_core::client::SubscriptionCloseReason::Lagged));
								tracer.ev(json!({"ev": "SubEnd", "h": h, "lagged": lagged}));
								keep_ended(&h, gd.take());
							}
							None => {}
						}
					}
					6..=7 => {
						let s = slot.lock().take().unwrap();
						let t2 = tracer.clone();
						let h2 = h.clone();
						tracer.ev(json!({"ev": "SubUnsub", "h": h}));
						tasks.push(tokio::spawn(async move {
							let _ = s.unsubscribe().await;
							t2.ev(json!({"ev": "SubUnsubDone", "h": h2}));
						}));
					}
					_ => {
						let s = slot.lock().take().unwrap();
						drop(s);
						tracer.ev(json!({"ev": "SubDrop", "h": h}));
					}
				}
			}
		} else if roll < (if g.name == "faulty" { 96 } else { 90 }) && !faulted {
			faulted = true;
			match rng.random_range(0..5) {
				3 | 4 => {
					// both halves of the transport break at the same moment: the receive side reports first, the next write fails too
					let f = if rng.random_bool(0.5) { "recvErr" } else { "peerClose" };
					let during_write = rng.random_bool(0.6) && unstarted.len() >= 2 && !rig.faults.hold.load(std::sync::atomic::Ordering::SeqCst);
					if during_write {
						// ... while a write is in progress and another message waits behind it (a connection reset under load)
						rig.faults.hold.store(true, std::sync::atomic::Ordering::SeqCst);
						tracer.ev(json!({"ev": "Hold"}));
						for _ in 0..2 {
							let i = unstarted.remove(rng.random_range(0..unstarted.len()));
							let (h, k, n) = g.ops[i];
							let (jh, ab) = start_op_abandonable(&rig, h, k, n, &slots);
							tasks.push(jh);
							abandon.insert(h.to_string(), ab);
							settle(rng.random_range(2..6)).await;
						}
					}
					inject(f, &rig, &tracer);
					inject("sendErr", &rig, &tracer);
					if during_write {
						rig.faults.hold.store(false, std::sync::atomic::Ordering::SeqCst);
						tracer.ev(json!({"ev": "Release"}));
					}
					if !unstarted.is_empty() {
						// (something to write, so that the send side notices as well)
						let i = unstarted.remove(rng.random_range(0..unstarted.len()));
						let (h, k, n) = g.ops[i];
						let (jh, ab) = start_op_abandonable(&rig, h, k, n, &slots);
						tasks.push(jh);
						abandon.insert(h.to_string(), ab);
					}
				}
				0 => {
					tracer.ev(json!({"ev": "Fault", "f": "sendErr"}));
					rig.faults.send_err.store(true, std::sync::atomic::Ordering::SeqCst);
				}
				1 => {
					tracer.ev(json!({"ev": "Fault", "f": "recvErr"}));
					let _ = rig.peer_tx.send(PeerItem::Fail("recvErr".into()));
				}
				_ => {
					tracer.ev(json!({"ev": "Fault", "f": "peerClose"}));
					let _ = rig.peer_tx.send(PeerItem::Fail("peerClose".into()));
				}
			}
		} else if roll < 93 {
			// back-pressure on the transport: the send task stays inside `send().await`, the front->back queue fills up
			let now = !rig.faults.hold.load(std::sync::atomic::Ordering::SeqCst);
			rig.faults.hold.store(now, std::sync::atomic::Ordering::SeqCst);
			tracer.ev(json!({"ev": if now { "Hold" } else { "Release" }}));
		} else if roll < 96 {
			quiet(&rig, &tracer).await;
		} else {
			tracer.ev(json!({"ev": "Connected", "b": rig.client.is_connected()}));
		}
		settle(rng.random_range(0..4)).await;
	}
	wind_down(&rig, &tracer, tasks, &slots, panics).await;
	drop(abandon);
	tracer.take()
}

async fn wind_down(rig: &Rig, tracer: &Tracer, tasks: Vec<tokio::task::JoinHandle<()>>, slots: &BTreeMap<String, SubSlot>, panics: &Arc<parking_lot::Mutex<Vec<String>>>) {
	// ---- wind down: the application lets go of the ended handles it still has; let everything run, look at the tables, then end
	// the connection if anything is still open
	while drop_ended(None, tracer) {}
	quiet(rig, tracer).await;
	if rig.client.is_connected() {
		// (an armed send fault that never fired leaves the connection up: end it from the peer's side)
		tracer.ev(json!({"ev": "Fault", "f": "peerClose"}));
		let _ = rig.peer_tx.send(PeerItem::Fail("peerClose".into()));
	}
	settle(80).await;
	// every started operation must be finished by now (bounded real-time wait only to catch a stall)
	for t in tasks {
		if tokio::time::timeout(Duration::from_secs(6), t).await.is_err() {
			tracer.ev(json!({"ev": "Timeout", "what": "front-end future still pending 6 s after the connection ended"}));
		}
	}
	for (h, slot) in slots {
		let mut gd = slot.lock();
		if let Some(s) = gd.as_mut() {
			// drain what is buffered, then the stream must report its end
			loop {
				match s.next().now_or_never() {
					Some(Some(Ok(v))) => tracer.ev(json!({"ev": "SubNext", "h": h, "n": v})),
					Some(Some(Err(_))) => tracer.ev(json!({"ev": "SubNext", "h": h, "n": -1})),
					Some(None) => {
						let lagged = matches!(s.close_reason(), Some(jsonrpsee_core::client::SubscriptionCloseReason::Lagged));
						tracer.ev(json!({"ev": "SubEnd", "h": h, "lagged": lagged}));
						break;
					}
					None => {
						tracer.ev(json!({"ev": "Timeout", "what": "stream still open after the connection ended"}));
						break;
					}
				}
			}
			*gd = None;
		}
	}
	tracer.ev(json!({"ev": "Connected", "b": rig.client.is_connected()}));
	let od = tokio::time::timeout(Duration::from_secs(3), rig.client.on_disconnect()).await;
	match od {
		Ok(e) => tracer.ev(json!({"ev": "OnDisconnect", "res": err_class(&e)})),
		Err(_) => tracer.ev(json!({"ev": "Timeout", "what": "on_disconnect pending"})),
	}
	for p in panics.lock().drain(..) {
		tracer.ev(json!({"ev": "Panic", "where": p}));
	}
	set_observer(None);
	tracer.ev(json!({"ev": "End"}));
}

/// One application step on a held stream (shared by the random and the scripted driver).  `what`: "next" | "unsub" | "drop".
fn stream_step(what: &str, h: &str, slots: &BTreeMap<String, SubSlot>, tracer: &Tracer, tasks: &mut Vec<tokio::task::JoinHandle<()>>) {
	let Some(slot) = slots.get(h).cloned() else { return };
	if slot.lock().is_none() {
		return;
	}
	match what {
		"next" => {
			let mut gd = slot.lock();
			let s = gd.as_mut().unwrap();
			match s.next().now_or_never() {
				Some(Some(Ok(v))) => tracer.ev(json!({"ev": "SubNext", "h": h, "n": v})),
				Some(Some(Err(e))) => tracer.ev(json!({"ev": "SubNext", "h": h, "n": -1, "err": e.to_string()})),
				Some(None) => {
					let lagged = matches!(s.close_reason(), Some(jsonrpsee_core::client::SubscriptionCloseReason::Lagged));
					tracer.ev(json!({"ev": "SubEnd", "h": h, "lagged": lagged}));
					keep_ended(h, gd.take());
				}
				None => {}
			}
		}
		"unsub" => {
			let s = slot.lock().take().unwrap();
			let t2 = tracer.clone();
			let h2 = h.to_string();
			tracer.ev(json!({"ev": "SubUnsub", "h": h}));
			tasks.push(tokio::spawn(async move {
				let _ = s.unsubscribe().await;
				t2.ev(json!({"ev": "SubUnsubDone", "h": h2}));
			}));
		}
		_ => {
			let s = slot.lock().take().unwrap();
			drop(s);
			tracer.ev(json!({"ev": "SubDrop", "h": h}));
		}
	}
}

fn inject(f: &str, rig: &Rig, tracer: &Tracer) {
	tracer.ev(json!({"ev": "Fault", "f": f}));
	match f {
		"sendErr" => rig.faults.send_err.store(true, std::sync::atomic::Ordering::SeqCst),
		other => {
			let _ = rig.peer_tx.send(PeerItem::Fail(other.into()));
		}
	}
}

// ------------------------------------------------------------------------------------------------------------------
/// Scripts generated by TLC from Client.tla (spec/Gen_Client.tla): the environment's steps of a simulated behaviour, replayed
/// against the real client.  The client's own steps happen as the runtime schedules them (a seeded number of scheduler turns
/// is granted between two steps, sometimes none); the recorded execution is validated against Trace_Client.tla afterwards.
pub fn run_scripts(gname: &str, scripts_path: &str, out_path: &str) {
	let g = group(gname);
	let scripts = crate::common::read_cases(scripts_path);
	let rts = runtimes();
	let mut outf = crate::common::Out::create(out_path);
	let prev = std::panic::take_hook();
	let panics: Arc<parking_lot::Mutex<Vec<String>>> = Default::default();
	{
		let p = panics.clone();
		std::panic::set_hook(Box::new(move |info| {
			p.lock().push(info.to_string());
		}));
	}
	for (sc, script) in scripts.iter().enumerate() {
		let mut rng = rng_for(sc, 77 + gname.len());
		let evs = rts[(sc / 3) % rts.len()].block_on(scripted(&g, &mut rng, sc, script, &panics));
		for e in evs {
			outf.raw(&e);
		}
	}
	std::panic::set_hook(prev);
	outf.finish();
}

/// the ids (model numbering = wire numbering: both count 0,1,2,.. in the order the operations start) a text refers to
fn ids_of(m: &Value) -> Vec<i64> {
	match m["t"].as_str().unwrap_or("") {
		"resp" => vec![m["id"].as_i64().unwrap()],
		"array" => m["elems"].as_array().unwrap().iter().flat_map(ids_of).collect(),
		_ => vec![],
	}
}

async fn scripted(g: &Group, rng: &mut StdRng, sc: usize, script: &Value, panics: &Arc<parking_lot::Mutex<Vec<String>>>) -> Vec<Value> {
	let string_ids = sc % 3 == 2;
	let rig = build(g.max_queue, g.buf_cap, string_ids, Duration::from_secs(4), sc as u64 + seed());
	let tracer = rig.tracer.clone();
	ENDED.with(|e| e.borrow_mut().clear());
	unstarve_all();
	tracer.ev(json!({"ev": "Reset", "sc": sc, "group": g.name, "string_ids": string_ids, "scripted": true}));
	set_observer(Some((rig.client.clone(), tracer.clone())));
	let mut slots: BTreeMap<String, SubSlot> = BTreeMap::new();
	for (h, k, _) in &g.ops {
		if *k == "sub" {
			slots.insert(h.to_string(), Default::default());
		}
	}
	let mut peer = Peer { ntok: 0, pushed: BTreeMap::new(), max_arr: 3, string_ids };
	let mut tasks = vec![];
	let mut started: Vec<String> = vec![];
	let mut abandon: BTreeMap<String, tokio::sync::oneshot::Sender<()>> = BTreeMap::new();
	let mut faulted = false;
	let mut nfaults = 0;
	// how eagerly the client is allowed to run between two steps of this script
	// (goal-directed scripts ask for the pace of their model: the environment acts when the client has come to rest)
	let pace = script["pace"].as_u64().unwrap_or_else(|| rng.random_range(0..3));
	for step in script["script"].as_array().unwrap() {
		match step["op"].as_str().unwrap() {
			"start" => {
				let h = step["h"].as_str().unwrap();
				if let Some((h, k, n)) = g.ops.iter().find(|o| o.0 == h) {
					if !started.iter().any(|x| x == h) {
						started.push(h.to_string());
						let (jh, ab) = start_op_abandonable(&rig, h, k, *n, &slots);
						tasks.push(jh);
						abandon.insert(h.to_string(), ab);
						// the wire ids follow the order in which the futures are first polled: let this one take its id
						settle(1).await;
					}
				}
			}
			"peer" if !faulted => {
				let m0 = step["m"].clone();
				// the model's peer answers what the model's client has sent; give the real client the turns it needs to get there
				let want = ids_of(&m0);
				for _ in 0..40 {
					let seen: Vec<i64> = rig.wire.lock().iter().flat_map(|o| o.ids.iter().map(id_as_num).collect::<Vec<_>>()).collect();
					if want.iter().all(|w| seen.contains(w)) {
						break;
					}
					settle(1).await;
				}
				let m = peer.number(m0);
				let text = peer.text(&m);
				tracer.ev(json!({"ev": "PeerSend", "m": m}));
				let _ = rig.peer_tx.send(PeerItem::Text(text, m));
			}
			"next" | "unsub" | "drop" => {
				// the model polls a stream that holds an item: give the real one the turns to receive it
				if step["op"] == "next" {
					settle(6).await;
				}
				stream_step(step["op"].as_str().unwrap(), step["h"].as_str().unwrap(), &slots, &tracer, &mut tasks);
			}
			"fault" if nfaults < 2 => {
				nfaults += 1;
				faulted = true;
				inject(step["f"].as_str().unwrap(), &rig, &tracer);
			}
			"dropEnded" => {
				drop_ended(step["h"].as_str(), &tracer);
			}
			"abandon" => {
				if let Some(ab) = abandon.remove(step["h"].as_str().unwrap()) {
					let _ = ab.send(());
					settle(2).await;
				}
			}
			"hold" => {
				rig.faults.hold.store(true, std::sync::atomic::Ordering::SeqCst);
				tracer.ev(json!({"ev": "Hold"}));
			}
			"release" => {
				rig.faults.hold.store(false, std::sync::atomic::Ordering::SeqCst);
				tracer.ev(json!({"ev": "Release"}));
			}
			_ => {}
		}
		match pace {
			0 => settle(rng.random_range(0..3)).await,
			1 => settle(rng.random_range(0..12)).await,
			_ => settle(40).await,
		}
		if rng.random_range(0..12) == 0 && !rig.faults.hold.load(std::sync::atomic::Ordering::SeqCst) {
			quiet(&rig, &tracer).await;
		}
	}
	wind_down(&rig, &tracer, tasks, &slots, panics).await;
	drop(abandon);
	tracer.take()
}

/// Let the client run until it has nothing left to do (current_thread runtime, in-memory transport, no timers involved: after
/// this many scheduler turns every task is parked), then look at it.  The trace spec demands at `Quiet` that the model has
/// no enabled step of the client left either - which is how "eventually" obligations (an unsubscribe is sent, a noticed
/// fault shuts the client down) are checked on a finite trace.
async fn quiet(rig: &Rig, tracer: &Tracer) {
	unstarve_all();
	if rig.faults.hold.swap(false, std::sync::atomic::Ordering::SeqCst) {
		tracer.ev(json!({"ev": "Release"}));
	}
	settle(120).await;
	tracer.ev(json!({"ev": "Quiet"}));
	tracer.ev(json!({"ev": "Connected", "b": rig.client.is_connected()}));
	sizes(rig, tracer);
}

fn sizes(rig: &Rig, tracer: &Tracer) {
	// the accessor takes the manager's mutex: if a background task panicked while holding it, the lock is poisoned and the
	// accessor panics too - that is an observation about the code under test, not a harness failure
	let r = std::panic::catch_unwind(std::panic::AssertUnwindSafe(|| rig.client.verif_table_sizes()));
	let r = match r {
		Ok(r) => r,
		Err(_) => {
			tracer.ev(json!({"ev": "Panic", "where": "request manager mutex poisoned"}));
			return;
		}
	};
	match r {
		Some([r, s, b, n]) => tracer.ev(json!({"ev": "Sizes", "r": r, "s": s, "b": b, "n": n})),
		None => tracer.ev(json!({"ev": "Sizes", "r": -1, "s": -1, "b": -1, "n": -1})),
	}
}

// ------------------------------------------------------------------------------------------------------------------
/// C09 robustness (supplementary, outside the specification's alphabet): arbitrary / mutated / extreme server bytes are fed
/// to a client with pending work.  Afterwards the client must be healthy (a barrier call is answered) or cleanly
/// disconnected with a recorded cause; nothing may panic, stall past its timeout or report the placeholder.
pub fn fuzz(n: usize, out_path: &str) {
	let rt = tokio::runtime::Builder::new_current_thread().enable_all().build().unwrap();
	let mut outf = crate::common::Out::create(out_path);
	let panics: Arc<parking_lot::Mutex<Vec<String>>> = Default::default();
	let prev = std::panic::take_hook();
	{
		let p = panics.clone();
		std::panic::set_hook(Box::new(move |info| p.lock().push(info.to_string())));
	}
	for i in 0..n {
		let mut rng = rng_for(i, 99);
		let (key, detail) = rt.block_on(fuzz_one(&mut rng, i));
		let ps: Vec<String> = panics.lock().drain(..).collect();
		let key = if !ps.is_empty() { Some("fuzz:panic".to_string()) } else { key };
		outf.verdict(i, 0, key, json!({"detail": detail, "panics": ps}));
	}
	std::panic::set_hook(prev);
	outf.finish();
}

fn fuzz_text(rng: &mut StdRng, seen_ids: &[Value]) -> Vec<u8> {
	let id = if seen_ids.is_empty() { json!(0) } else { seen_ids[rng.random_range(0..seen_ids.len())].clone() };
	let base: Vec<String> = vec![
		format!(r#"{{"jsonrpc":"2.0","id":{id},"result":{{"tok":1}}}}"#),
		format!(r#"{{"jsonrpc":"2.0","id":{id},"error":{{"code":-32000,"message":"e"}}}}"#),
		format!(r#"[{{"jsonrpc":"2.0","id":{id},"result":1}},{{"jsonrpc":"2.0","id":18446744073709551615,"result":2}}]"#),
		format!(r#"[{{"jsonrpc":"2.0","id":0,"result":1}},{{"jsonrpc":"2.0","id":18446744073709551614,"result":2}}]"#),
		r#"{"jsonrpc":"2.0","method":"sub","params":{"subscription":1,"result":5}}"#.to_string(),
		r#"{"jsonrpc":"2.0","method":"sub","params":{"subscription":"1","error":"x"}}"#.to_string(),
		r#"{"jsonrpc":"2.0","method":"m","params":[1]}"#.to_string(),
		format!(r#"{{"jsonrpc":"2.0","id":"{}","result":1}}"#, "9".repeat(30)),
		format!(r#"{{"jsonrpc":"2.0","id":-1,"result":1}}"#),
		format!(r#"{{"jsonrpc":"2.0","id":1.5e300,"result":1}}"#),
		format!("[{}]", vec![r#"{"jsonrpc":"2.0","method":"m"}"#; 5000].join(",")),
		format!("[{}]", (0..3000).map(|k| format!(r#"{{"jsonrpc":"2.0","id":{k},"result":{k}}}"#)).collect::<Vec<_>>().join(",")),
		format!("{}1{}", "[".repeat(200), "]".repeat(200)),
		"[]".to_string(),
		"[[]]".to_string(),
		"null".to_string(),
		"".to_string(),
		"   ".to_string(),
		r#"{"jsonrpc":"2.0","id":null,"result":null}"#.to_string(),
		r#"{"jsonrpc":"2.0","id":{},"result":null}"#.to_string(),
	];
	let mut t = base[rng.random_range(0..base.len())].clone().into_bytes();
	match rng.random_range(0..6) {
		0 if !t.is_empty() => {
			let cut = rng.random_range(0..t.len());
			t.truncate(cut);
		}
		1 if !t.is_empty() => {
			for _ in 0..rng.random_range(1..4) {
				let p = rng.random_range(0..t.len());
				t[p] = rng.random::<u8>();
			}
		}
		2 if !t.is_empty() => {
			let p = rng.random_range(0..t.len());
			let extra: Vec<u8> = t[p..].to_vec();
			t.extend(extra);
		}
		_ => {}
	}
	t
}

async fn fuzz_one(rng: &mut StdRng, i: usize) -> (Option<String>, Value) {
	let string_ids = i % 2 == 1;
	let rig = build(8, 2, string_ids, Duration::from_secs(3), i as u64);
	let slots: BTreeMap<String, SubSlot> = [("s".to_string(), SubSlot::default())].into_iter().collect();
	let mut tasks = vec![start_op(&rig, "a", "call", 1, &slots), start_op(&rig, "b", "batch", 2, &slots), start_op(&rig, "s", "sub", 1, &slots)];
	settle(20).await;
	let seen: Vec<Value> = rig.wire.lock().iter().flat_map(|o| o.ids.clone()).collect();
	let mut texts = vec![];
	for _ in 0..rng.random_range(1..4) {
		let t = fuzz_text(rng, &seen);
		texts.push(String::from_utf8_lossy(&t).chars().take(160).collect::<String>());
		let item = match String::from_utf8(t.clone()) {
			Ok(s) => PeerItem::Text(s, json!({"t": "fuzz"})),
			Err(_) => PeerItem::Text(String::from_utf8_lossy(&t).into_owned(), json!({"t": "fuzz"})),
		};
		let _ = rig.peer_tx.send(item);
		settle(10).await;
	}
	// barrier: a fresh call; if the client is still connected the peer answers it
	let barrier = start_op(&rig, "z", "call", 1, &slots);
	settle(20).await;
	if rig.client.is_connected() {
		let zid = rig.wire.lock().iter().rev().find(|o| o.kind == "call").map(|o| o.ids[0].clone());
		if let Some(zid) = zid {
			let _ = rig.peer_tx.send(PeerItem::Text(format!(r#"{{"jsonrpc":"2.0","id":{zid},"result":{{"tok":77}}}}"#), json!({"t": "barrier"})));
		}
		settle(20).await;
		// then the peer goes away: everything still pending must fail with that cause
		let _ = rig.peer_tx.send(PeerItem::Fail("peerClose".into()));
	}
	settle(40).await;
	tasks.push(barrier);
	let mut stalled = 0;
	for t in tasks {
		if tokio::time::timeout(Duration::from_secs(5), t).await.is_err() {
			stalled += 1;
		}
	}
	let evs = rig.tracer.take();
	let dones: Vec<&Value> = evs.iter().filter(|e| e["ev"] == "FeDone").collect();
	let placeholder = dones.iter().any(|e| e["res"]["k"] == "placeholder");
	let timeouts = dones.iter().filter(|e| e["res"]["k"] == "timeout").count();
	let od = tokio::time::timeout(Duration::from_secs(3), rig.client.on_disconnect()).await;
	let od_class = match &od {
		Ok(e) => err_class(e),
		Err(_) => json!({"k": "pending"}),
	};
	let key = if stalled > 0 {
		Some("fuzz:future-stalled".to_string())
	} else if placeholder || od_class["k"] == "placeholder" {
		Some("fuzz:placeholder-cause".to_string())
	} else if timeouts > 0 {
		Some("fuzz:call-timed-out-instead-of-failing-with-the-cause".to_string())
	} else if od_class["k"] == "pending" {
		Some("fuzz:on_disconnect-pending-after-the-peer-left".to_string())
	} else {
		None
	};
	(key, json!({"texts": texts, "on_disconnect": od_class, "done": dones.iter().map(|e| e["res"].clone()).collect::<Vec<_>>()}))
}
