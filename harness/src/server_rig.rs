//! In-process server rigs (no sockets): HTTP by calling the TowerService with explicit body frames, WebSocket by
//! `serve_with_graceful_shutdown` over `tokio::io::duplex` with a soketto client as the raw peer.
use bytes::Bytes;
use futures_util::io::{BufReader, BufWriter};
use http_body_util::{BodyExt, StreamBody};
use jsonrpsee_server::{
	BatchRequestConfig, ConnectionGuard, Extensions, RpcModule, ServerConfig, ServerHandle, StopHandle, SubscriptionMessage,
	TowerServiceBuilder, serve_with_graceful_shutdown, stop_channel,
};
use jsonrpsee_types::ErrorObjectOwned;
use parking_lot::Mutex;
use serde_json::{Value, json};
use std::sync::Arc;
use std::time::Duration;
use tokio_util::compat::{Compat, TokioAsyncReadCompatExt};
use tower::Service;

pub type Log = Arc<Mutex<Vec<Value>>>;

#[derive(Clone, Debug)]
pub struct RigCfg {
	pub max_req: u32,
	pub max_resp: u32,
	pub batch: BatchRequestConfig,
	pub max_subs: u32,
	pub buf_cap: u32,
	pub max_conns: u32,
	/// WebSocket ping (interval ms, inactive limit ms); None = pings disabled
	pub ping_ms: Option<(u64, u64)>,
	/// what the server serves: "both" (default), "httpOnly", "wsOnly"
	pub mode: &'static str,
}
impl Default for RigCfg {
	fn default() -> Self {
		RigCfg { max_req: 10 * 1024 * 1024, max_resp: 10 * 1024 * 1024, batch: BatchRequestConfig::Unlimited, max_subs: 1024, buf_cap: 1024, max_conns: 100, ping_ms: None, mode: "both" }
	}
}
impl RigCfg {
	pub fn server_config(&self) -> ServerConfig {
		let b = ServerConfig::builder();
		let b = match self.ping_ms {
			Some((i, l)) => b.enable_ws_ping(
				jsonrpsee_server::PingConfig::new().ping_interval(Duration::from_millis(i)).inactive_limit(Duration::from_millis(l)).max_failures(1),
			),
			None => b,
		};
		let b = match self.mode {
			"httpOnly" => b.http_only(),
			"wsOnly" => b.ws_only(),
			_ => b,
		};
		b.max_request_body_size(self.max_req)
			.max_response_body_size(self.max_resp)
			.set_batch_request_config(self.batch)
			.max_subscriptions_per_connection(self.max_subs)
			.set_message_buffer_capacity(self.buf_cap)
			.max_connections(self.max_conns)
			.build()
	}
}

/// What the echo handlers answer: the params they saw (absent = null), or a genuine decode failure when the
/// params carry the marker "bad" (first array element / member name).
fn echo(name: &str, params: &jsonrpsee_types::Params<'_>, log: &Log) -> Result<Value, ErrorObjectOwned> {
	let v: Value = params.parse()?;
	log.lock().push(json!({"h": name, "params": v}));
	let bad = match &v {
		Value::Array(a) => a.first() == Some(&json!("bad")),
		Value::Object(o) => o.contains_key("bad"),
		_ => false,
	};
	if bad {
		// a real typed decode that fails => the library's own -32602
		params.parse::<[u64; 1]>()?;
	}
	Ok(json!({"echo": v}))
}

#[derive(Clone)]
pub struct Live {
	n: usize,
	passes: Arc<std::sync::atomic::AtomicUsize>,
}
impl serde::Serialize for Live {
	fn serialize<S: serde::Serializer>(&self, ser: S) -> Result<S::Ok, S::Error> {
		let pass = self.passes.fetch_add(1, std::sync::atomic::Ordering::SeqCst);
		ser.serialize_str(&"x".repeat(self.n + 64 * pass))
	}
}

/// The module every server-side G3 check registers.
pub fn module(log: Log) -> RpcModule<Log> {
	let mut m = RpcModule::new(log);
	m.register_method("echo", |p, log, _| echo("echo", &p, log)).unwrap();
	m.register_async_method("echo_async", |p, log, _| async move { echo("echo_async", &p, &log) }).unwrap();
	m.register_blocking_method("echo_blocking", |p, log, _| echo("echo_blocking", &p, &log)).unwrap();
	m.register_blocking_method("boom", |p, log, _| -> Result<Value, ErrorObjectOwned> {
		let v: Value = p.parse().unwrap_or(Value::Null);
		log.lock().push(json!({"h": "boom", "params": v}));
		panic!("handler panics on purpose");
	})
	.unwrap();
	// an async call that stays in flight for a while (other messages of the connection are handled meanwhile)
	m.register_async_method("slow", |_, log, _| async move {
		log.lock().push(json!({"h": "slow", "params": ["probe"]}));
		tokio::time::sleep(Duration::from_millis(25)).await;
		"slow-done"
	})
	.unwrap();
	// result of exactly `n` bytes of string payload (C08): params [n, kind]
	m.register_method("big", |p, log, _| -> Result<Value, ErrorObjectOwned> {
		let (n, kind): (usize, String) = p.parse()?;
		log.lock().push(json!({"h": "big", "n": n}));
		Ok(Value::String(crate::limits_payload(n, &kind)))
	})
	.unwrap();
	// a result that is a live view of shared state which grows while it is being written: the first serialisation pass yields
	// `n` bytes of string payload, every further pass 64 more (C08: what is checked must be what is sent)
	m.register_method("live", |p, log, _| -> Result<Live, ErrorObjectOwned> {
		let (n, _kind): (usize, String) = p.parse()?;
		log.lock().push(json!({"h": "live", "n": n}));
		Ok(Live { n, passes: Arc::new(std::sync::atomic::AtomicUsize::new(0)) })
	})
	.unwrap();
	m.register_method("fail_with_data", |p, log, _| -> Result<Value, ErrorObjectOwned> {
		let (n, kind): (usize, String) = p.parse()?;
		log.lock().push(json!({"h": "fail_with_data", "n": n}));
		Err(ErrorObjectOwned::owned(7, "app error", Some(crate::limits_payload(n, &kind))))
	})
	.unwrap();
	m.register_subscription("sub", "notif", "unsub", |p, pending, log, _| async move {
		let v: Value = p.parse().unwrap_or(Value::Null);
		log.lock().push(json!({"h": "sub", "params": v}));
		let sink = match pending.accept().await {
			Ok(s) => s,
			Err(_) => return,
		};
		sink.closed().await;
	})
	.unwrap();
	// a subscription that pushes `n` items right after accepting, then returns
	m.register_subscription("sub_n", "notif_n", "unsub_n", |p, pending, log, _| async move {
		let n: u64 = p.one().unwrap_or(0);
		log.lock().push(json!({"h": "sub_n", "n": n}));
		let sink = match pending.accept().await {
			Ok(s) => s,
			Err(_) => return,
		};
		for i in 0..n {
			let raw = serde_json::value::to_raw_value(&i).unwrap();
			if sink.send(SubscriptionMessage::from(raw)).await.is_err() {
				break;
			}
		}
	})
	.unwrap();
	m
}

pub type Svc = jsonrpsee_server::TowerService<tower::layer::util::Identity, tower::layer::util::Identity>;

pub struct Rig {
	pub cfg: RigCfg,
	pub log: Log,
	pub methods: jsonrpsee_server::Methods,
	pub builder: TowerServiceBuilder<tower::layer::util::Identity, tower::layer::util::Identity>,
	/// keeps the HTTP-side stop channel alive
	pub http_stop: (StopHandle, ServerHandle),
}

impl Rig {
	pub fn new(cfg: RigCfg) -> Rig {
		let log: Log = Arc::new(Mutex::new(vec![]));
		let methods: jsonrpsee_server::Methods = module(log.clone()).into();
		Self::with_methods(cfg, log, methods)
	}
	pub fn with_methods(cfg: RigCfg, log: Log, methods: jsonrpsee_server::Methods) -> Rig {
		let builder = jsonrpsee_server::Server::builder().set_config(cfg.server_config()).to_service_builder();
		Rig { cfg, log, methods, builder, http_stop: stop_channel() }
	}

	pub fn take_log(&self) -> Vec<Value> {
		std::mem::take(&mut *self.log.lock())
	}

	pub fn svc(&self, stop: StopHandle) -> Svc {
		self.builder.clone().build(self.methods.clone(), stop)
	}

	/// one HTTP exchange through the tower service with an explicit frame sequence as the body
	pub async fn http(&self, method: &str, headers: &[(String, String)], frames: Vec<Vec<u8>>) -> HttpReply {
		let mut svc = self.svc(self.http_stop.0.clone());
		http_call(&mut svc, method, "/", headers, frames).await
	}

	pub async fn http_json(&self, body: &[u8]) -> HttpReply {
		self.http("POST", &[("content-type".into(), "application/json".into())], vec![body.to_vec()]).await
	}

	pub async fn ws(&self) -> Result<WsPeer, String> {
		let (stop, handle) = stop_channel();
		let svc = self.svc(stop.clone());
		WsPeer::connect(svc, stop, handle, &[]).await
	}
}

#[derive(Debug, Clone)]
pub struct HttpReply {
	pub status: u16,
	pub body: Vec<u8>,
	pub content_type: Option<String>,
}
impl HttpReply {
	pub fn json(&self) -> Option<Value> {
		serde_json::from_slice(&self.body).ok()
	}
}

pub async fn http_call<S, B>(svc: &mut S, method: &str, uri: &str, headers: &[(String, String)], frames: Vec<Vec<u8>>) -> HttpReply
where
	S: Service<http::Request<BoxedBody>, Response = http::Response<B>>,
	S::Error: std::fmt::Debug,
	B: http_body::Body<Data = Bytes>,
	B::Error: std::fmt::Debug,
{
	let mut rb = http::Request::builder().method(method).uri(uri);
	for (k, v) in headers {
		rb = rb.header(k.as_str(), v.as_str());
	}
	let req = rb.body(frames_body(frames)).expect("harness builds a valid request");
	// the HTTP path runs the library's code inside the caller's task: a panic in it is an observation about the code under test
	// (status 599 stands for it), not a reason for the harness to die
	use futures_util::FutureExt;
	let resp = match std::panic::AssertUnwindSafe(svc.call(req)).catch_unwind().await {
		Ok(r) => r.expect("tower service is infallible here"),
		Err(_) => return HttpReply { status: 599, body: b"the server's code panicked while handling the request".to_vec(), content_type: None },
	};
	let (parts, body) = resp.into_parts();
	let bytes = body.collect().await.map(|c| c.to_bytes().to_vec()).unwrap_or_default();
	HttpReply {
		status: parts.status.as_u16(),
		body: bytes,
		content_type: parts.headers.get("content-type").and_then(|v| v.to_str().ok()).map(|s| s.to_string()),
	}
}

pub type BoxedBody = http_body_util::combinators::UnsyncBoxBody<Bytes, std::convert::Infallible>;

pub fn frames_body(frames: Vec<Vec<u8>>) -> BoxedBody {
	let s = futures_util::stream::iter(frames.into_iter().map(|f| Ok::<_, std::convert::Infallible>(http_body::Frame::data(Bytes::from(f)))));
	StreamBody::new(s).boxed_unsync()
}

type Io = BufReader<BufWriter<Compat<tokio::io::DuplexStream>>>;

/// Copies bytes between an in-process pipe and a TCP connection to `addr` until either side ends, then drops both.
pub async fn bridge(pipe: tokio::io::DuplexStream, addr: std::net::SocketAddr) {
	use tokio::io::{AsyncReadExt, AsyncWriteExt};
	let Ok(tcp) = tokio::net::TcpStream::connect(addr).await else { return };
	let _ = tcp.set_nodelay(true);
	let (mut pr, mut pw) = tokio::io::split(pipe);
	let (mut tr, mut tw) = tcp.into_split();
	let up = async {
		let mut buf = vec![0u8; 16384];
		loop {
			match pr.read(&mut buf).await {
				Ok(n) if n > 0 => {
					if tw.write_all(&buf[..n]).await.is_err() {
						break;
					}
				}
				_ => break,
			}
		}
	};
	let down = async {
		let mut buf = vec![0u8; 16384];
		loop {
			match tr.read(&mut buf).await {
				Ok(n) if n > 0 => {
					if pw.write_all(&buf[..n]).await.is_err() {
						break;
					}
				}
				_ => break,
			}
		}
	};
	tokio::select! {
		_ = up => {}
		_ = down => {}
	}
}

/// A raw WebSocket peer talking to one in-process connection with its own stop channel.
pub struct WsPeer {
	pub tx: soketto::Sender<Io>,
	pub rx: soketto::Receiver<Io>,
	pub stop: Option<StopHandle>,
	pub handle: ServerHandle,
	pub conn: tokio::task::JoinHandle<()>,
}

#[derive(Debug, Clone, PartialEq)]
pub enum Frame {
	Text(String),
	Binary(Vec<u8>),
	Eof,
	Timeout,
}

impl WsPeer {
	pub async fn connect<S, B>(svc: S, stop: StopHandle, handle: ServerHandle, headers: &[(&str, &str)]) -> Result<WsPeer, String>
	where
		S: tower::Service<http::Request<hyper::body::Incoming>, Response = http::Response<B>> + Clone + Send + 'static,
		S::Future: Send,
		S::Response: Send,
		S::Error: Into<jsonrpsee_core::BoxError>,
		B: http_body::Body<Data = Bytes> + Send + 'static,
		B::Error: Into<jsonrpsee_core::BoxError>,
	{
		Self::connect_with_pipe(svc, stop, handle, headers, 1 << 22).await
	}

	/// as `connect`, over an in-process pipe of `pipe` bytes (a small pipe plus a peer that does not read = back-pressure
	/// on the connection's writer)
	pub async fn connect_with_pipe<S, B>(svc: S, stop: StopHandle, handle: ServerHandle, headers: &[(&str, &str)], pipe: usize) -> Result<WsPeer, String>
	where
		S: tower::Service<http::Request<hyper::body::Incoming>, Response = http::Response<B>> + Clone + Send + 'static,
		S::Future: Send,
		S::Response: Send,
		S::Error: Into<jsonrpsee_core::BoxError>,
		B: http_body::Body<Data = Bytes> + Send + 'static,
		B::Error: Into<jsonrpsee_core::BoxError>,
	{
		let (client_io, server_io) = tokio::io::duplex(pipe);
		let stopped = stop.clone().shutdown();
		let conn = tokio::spawn(async move {
			let _ = serve_with_graceful_shutdown(server_io, svc, stopped).await;
		});
		Self::handshake(client_io, stop, handle, conn, headers).await
	}

	/// the same peer, talking to a real `Server::start` listener: the in-process pipe is bridged to a TCP connection
	/// (when the peer's end of the pipe goes away the TCP connection is closed, and vice versa)
	pub async fn connect_tcp(addr: std::net::SocketAddr, headers: &[(&str, &str)]) -> Result<WsPeer, String> {
		let (client_io, server_io) = tokio::io::duplex(1 << 22);
		let conn = tokio::spawn(bridge(server_io, addr));
		let (stop, handle) = jsonrpsee_server::stop_channel(); // unused: the listener has one stop channel of its own
		Self::handshake(client_io, stop, handle, conn, headers).await
	}

	async fn handshake(
		client_io: tokio::io::DuplexStream,
		stop: StopHandle,
		handle: ServerHandle,
		conn: tokio::task::JoinHandle<()>,
		headers: &[(&str, &str)],
	) -> Result<WsPeer, String> {
		let mut client = soketto::handshake::Client::new(BufReader::new(BufWriter::new(client_io.compat())), "localhost", "/");
		let hs: Vec<soketto::handshake::client::Header> =
			headers.iter().map(|(k, v)| soketto::handshake::client::Header { name: k, value: v.as_bytes() }).collect();
		client.set_headers(&hs);
		match client.handshake().await {
			Ok(soketto::handshake::ServerResponse::Accepted { .. }) => {}
			Ok(soketto::handshake::ServerResponse::Rejected { status_code }) => return Err(format!("rejected:{status_code}")),
			Ok(soketto::handshake::ServerResponse::Redirect { status_code, .. }) => return Err(format!("redirect:{status_code}")),
			Err(e) => return Err(format!("handshake:{e}")),
		}
		let mut b = client.into_builder();
		b.set_max_message_size(usize::MAX / 2);
		let (tx, rx) = b.finish();
		Ok(WsPeer { tx, rx, stop: Some(stop), handle, conn })
	}

	pub async fn send_text(&mut self, s: &str) -> bool {
		self.tx.send_text(s).await.is_ok() && self.tx.flush().await.is_ok()
	}
	pub async fn send_binary(&mut self, b: &[u8]) -> bool {
		self.tx.send_binary(b).await.is_ok() && self.tx.flush().await.is_ok()
	}

	pub async fn recv(&mut self, wait: Duration) -> Frame {
		let mut data = Vec::new();
		loop {
			match tokio::time::timeout(wait, self.rx.receive(&mut data)).await {
				Err(_) => return Frame::Timeout,
				Ok(Ok(soketto::Incoming::Data(soketto::Data::Text(_)))) => return Frame::Text(String::from_utf8_lossy(&data).into_owned()),
				Ok(Ok(soketto::Incoming::Data(soketto::Data::Binary(_)))) => return Frame::Binary(data),
				Ok(Ok(soketto::Incoming::Pong(_))) => continue,
				Ok(Ok(soketto::Incoming::Closed(_))) | Ok(Err(_)) => return Frame::Eof,
			}
		}
	}

	/// read text frames until one satisfies `pred` (inclusive); returns everything read
	pub async fn recv_until(&mut self, wait: Duration, pred: impl Fn(&Value) -> bool) -> (Vec<String>, bool) {
		let mut got = vec![];
		loop {
			match self.recv(wait).await {
				Frame::Text(t) => {
					let hit = serde_json::from_str::<Value>(&t).map(|v| pred(&v)).unwrap_or(false);
					got.push(t);
					if hit {
						return (got, true);
					}
				}
				Frame::Binary(b) => got.push(format!("<binary {} bytes>", b.len())),
				Frame::Eof | Frame::Timeout => return (got, false),
			}
		}
	}

	/// stop this connection's own stop channel and read to EOF: graceful shutdown waits for every dispatched
	/// message task and the writer drains its queue, so the frames returned are *all* remaining frames.
	pub async fn stop_and_drain(mut self, wait: Duration) -> (Vec<String>, bool) {
		let _ = self.handle.stop();
		drop(self.stop.take());
		let mut got = vec![];
		let clean = loop {
			match self.recv(wait).await {
				Frame::Text(t) => got.push(t),
				Frame::Binary(b) => got.push(format!("<binary {} bytes>", b.len())),
				Frame::Eof => break true,
				Frame::Timeout => break false,
			}
		};
		let _ = self.tx.close().await;
		let _ = tokio::time::timeout(wait, self.conn).await;
		(got, clean)
	}
}

#[allow(unused)]
fn _assert(_: ConnectionGuard, _: Extensions) {}

// ------------------------------------------------------------------------------------------------------------------
/// A hand-rolled WebSocket peer over an in-process pipe: control over what `soketto`'s client hides - fragments, control frames
/// between them, half-closing the connection.  Client frames are masked with the all-zero key (legal, and the payload stays
/// readable in a dump).
pub struct RawWs {
	pub io: tokio::io::DuplexStream,
	buf: Vec<u8>,
}

impl RawWs {
	/// upgrade request through `svc`; Err(status) when the server answers anything but 101
	pub async fn connect<S, B>(svc: S, stop: StopHandle, pipe: usize) -> Result<RawWs, u16>
	where
		S: tower::Service<http::Request<hyper::body::Incoming>, Response = http::Response<B>> + Clone + Send + 'static,
		S::Future: Send,
		S::Response: Send,
		S::Error: Into<jsonrpsee_core::BoxError>,
		B: http_body::Body<Data = Bytes> + Send + 'static,
		B::Error: Into<jsonrpsee_core::BoxError>,
	{
		use tokio::io::{AsyncReadExt, AsyncWriteExt};
		let (mut client_io, server_io) = tokio::io::duplex(pipe);
		let stopped = stop.clone().shutdown();
		tokio::spawn(async move {
			let _ = serve_with_graceful_shutdown(server_io, svc, stopped).await;
			drop(stop);
		});
		let req = "GET / HTTP/1.1\r\nHost: localhost\r\nConnection: Upgrade\r\nUpgrade: websocket\r\nSec-WebSocket-Version: 13\r\nSec-WebSocket-Key: dGhlIHNhbXBsZSBub25jZQ==\r\n\r\n";
		client_io.write_all(req.as_bytes()).await.map_err(|_| 0u16)?;
		let mut buf = vec![];
		let mut chunk = [0u8; 1024];
		let head_end = loop {
			if let Some(p) = buf.windows(4).position(|w| w == b"\r\n\r\n") {
				break p + 4;
			}
			match tokio::time::timeout(Duration::from_secs(5), client_io.read(&mut chunk)).await {
				Ok(Ok(n)) if n > 0 => buf.extend_from_slice(&chunk[..n]),
				_ => return Err(0),
			}
		};
		let status: u16 = String::from_utf8_lossy(&buf[..head_end]).split_whitespace().nth(1).and_then(|s| s.parse().ok()).unwrap_or(0);
		if status != 101 {
			return Err(status);
		}
		Ok(RawWs { io: client_io, buf: buf[head_end..].to_vec() })
	}

	/// one frame: opcode 0x1 text, 0x0 continuation, 0x9 ping, 0xA pong, 0x8 close
	pub async fn send_frame(&mut self, fin: bool, opcode: u8, payload: &[u8]) -> bool {
		use tokio::io::AsyncWriteExt;
		let mut f = vec![(if fin { 0x80 } else { 0 }) | opcode];
		match payload.len() {
			n if n < 126 => f.push(0x80 | n as u8),
			n if n < 65536 => {
				f.push(0x80 | 126);
				f.extend_from_slice(&(n as u16).to_be_bytes());
			}
			n => {
				f.push(0x80 | 127);
				f.extend_from_slice(&(n as u64).to_be_bytes());
			}
		}
		f.extend_from_slice(&[0, 0, 0, 0]);
		f.extend_from_slice(payload);
		self.io.write_all(&f).await.is_ok() && self.io.flush().await.is_ok()
	}

	/// the next frame the server sent (opcode, payload); None on end of stream or after `wait`
	pub async fn read_frame(&mut self, wait: Duration) -> Option<(u8, Vec<u8>)> {
		use tokio::io::AsyncReadExt;
		let mut chunk = [0u8; 16384];
		loop {
			if self.buf.len() >= 2 {
				let (l0, mut off) = ((self.buf[1] & 0x7f) as usize, 2usize);
				let len = match l0 {
					126 if self.buf.len() >= 4 => {
						off = 4;
						Some(u16::from_be_bytes([self.buf[2], self.buf[3]]) as usize)
					}
					127 if self.buf.len() >= 10 => {
						off = 10;
						Some(u64::from_be_bytes(self.buf[2..10].try_into().unwrap()) as usize)
					}
					126 | 127 => None,
					n => Some(n),
				};
				if let Some(len) = len {
					if self.buf.len() >= off + len {
						let op = self.buf[0] & 0x0f;
						let payload = self.buf[off..off + len].to_vec();
						self.buf.drain(..off + len);
						return Some((op, payload));
					}
				}
			}
			match tokio::time::timeout(wait, self.io.read(&mut chunk)).await {
				Ok(Ok(n)) if n > 0 => self.buf.extend_from_slice(&chunk[..n]),
				_ => return None,
			}
		}
	}

	/// the peer is done sending (FIN) but keeps the connection and may go on reading
	pub async fn shutdown_write(&mut self) {
		use tokio::io::AsyncWriteExt;
		let _ = self.io.shutdown().await;
	}
}
