//! The four ways a jsonrpsee server can be assembled (C07): `Server::start` on loopback TCP, the `TowerService`,
//! the low-level `ws::connect`, and `http::call_with_service_builder`.  One uniform "send this body / this frame"
//! interface over all of them.
use crate::server_rig::*;
use bytes::Bytes;
use futures_util::io::{BufReader, BufWriter};
use jsonrpsee_core::middleware::RpcServiceBuilder;
use jsonrpsee_server::{ConnectionGuard, ConnectionState, ServerHandle, StopHandle, stop_channel};
use serde_json::Value;
use std::time::Duration;
use tokio::io::{AsyncReadExt, AsyncWriteExt};
use tokio_util::compat::TokioAsyncReadCompatExt;

pub const WAIT: Duration = Duration::from_secs(10);

pub enum Endpoint {
	Tower(Rig),
	Server { rig_log: Log, addr: std::net::SocketAddr, handle: ServerHandle },
	Low { rig: Rig, guard: ConnectionGuard },
}

/// frames a WebSocket exchange produced (probe reply removed), and whether the probe was answered
pub struct WsOutcome {
	pub frames: Vec<String>,
	pub probe_ok: bool,
	pub connect_err: Option<String>,
}

impl Endpoint {
	pub async fn new(entry: &str, cfg: RigCfg) -> Endpoint {
		match entry {
			"tower" => Endpoint::Tower(Rig::new(cfg)),
			"server" => {
				let log: Log = Default::default();
				let server = jsonrpsee_server::Server::builder().set_config(cfg.server_config()).build("127.0.0.1:0").await.expect("bind loopback");
				let addr = server.local_addr().unwrap();
				let handle = server.start(module(log.clone()));
				Endpoint::Server { rig_log: log, addr, handle }
			}
			_ => {
				let guard = ConnectionGuard::new(cfg.max_conns as usize);
				Endpoint::Low { rig: Rig::new(cfg), guard }
			}
		}
	}

	pub fn take_log(&self) -> Vec<Value> {
		match self {
			Endpoint::Tower(r) => r.take_log(),
			Endpoint::Server { rig_log, .. } => std::mem::take(&mut *rig_log.lock()),
			Endpoint::Low { rig, .. } => rig.take_log(),
		}
	}

	pub async fn shutdown(self) {
		if let Endpoint::Server { handle, .. } = self {
			let _ = handle.stop();
			let _ = tokio::time::timeout(WAIT, handle.stopped()).await;
		}
	}

	/// HTTP POST with the given body frames; `content_length` adds the header
	pub async fn http(&self, frames: Vec<Vec<u8>>, content_length: bool) -> HttpReply {
		let total: usize = frames.iter().map(|f| f.len()).sum();
		let mut hs = vec![("content-type".to_string(), "application/json".to_string())];
		if content_length {
			hs.push(("content-length".into(), total.to_string()));
		}
		match self {
			Endpoint::Tower(rig) => rig.http("POST", &hs, frames).await,
			Endpoint::Low { rig, guard } => {
				// http::call_with_service_builder, the way a custom hyper service would use it
				let permit = guard.try_acquire().expect("free slot");
				let conn = ConnectionState::new(rig.http_stop.0.clone(), 7, permit);
				let mut rb = http::Request::builder().method("POST").uri("/");
				for (k, v) in &hs {
					rb = rb.header(k.as_str(), v.as_str());
				}
				let req = rb.body(frames_body(frames)).unwrap();
				let resp = jsonrpsee_server::http::call_with_service_builder(req, rig.cfg.server_config(), conn, rig.methods.clone(), RpcServiceBuilder::new()).await;
				let (parts, body) = resp.into_parts();
				use http_body_util::BodyExt;
				let bytes = body.collect().await.map(|c| c.to_bytes().to_vec()).unwrap_or_default();
				HttpReply { status: parts.status.as_u16(), body: bytes, content_type: None }
			}
			Endpoint::Server { addr, .. } => raw_http(*addr, &hs, frames, content_length).await,
		}
	}

	/// as `ws_exchange`, but `msg` arrives while the connection's outbound side is saturated: a small pipe, a message buffer
	/// of one, and three calls with large results that the peer has not read yet (tower / low-level entry points only)
	pub async fn ws_exchange_backpressure(&self, msg: &[u8], probe_id: &str) -> WsOutcome {
		let probe = format!(r#"{{"jsonrpc":"2.0","id":"{probe_id}","method":"echo"}}"#);
		let pid = serde_json::json!(probe_id);
		let peer = match self {
			Endpoint::Tower(rig) => {
				let (stop, handle) = stop_channel();
				let svc = rig.svc(stop.clone());
				WsPeer::connect_with_pipe(svc, stop, handle, &[], 32 * 1024).await
			}
			Endpoint::Low { rig, guard } => {
				let (stop, handle) = stop_channel();
				let svc = LowSvc { cfg: rig.cfg.clone(), methods: rig.methods.clone(), guard: guard.clone(), stop: stop.clone() };
				WsPeer::connect_with_pipe(svc, stop, handle, &[], 32 * 1024).await
			}
			_ => return self.ws_exchange(msg, probe_id).await,
		};
		let mut ws = match peer {
			Ok(w) => w,
			Err(e) => return WsOutcome { frames: vec![], probe_ok: false, connect_err: Some(e) },
		};
		for j in 0..3 {
			ws.send_text(&format!(r#"{{"jsonrpc":"2.0","id":{},"method":"big","params":[150000,"ascii"]}}"#, 900 + j)).await;
		}
		// let the three results pile up against the unread pipe (a shorter wait only makes the case milder, never wrong)
		tokio::time::sleep(Duration::from_millis(40)).await;
		let _ = match std::str::from_utf8(msg) {
			Ok(t) => ws.send_text(t).await,
			Err(_) => ws.send_binary(msg).await,
		};
		ws.send_text(&probe).await;
		let (mut frames, hit) = ws.recv_until(WAIT, |v| v["id"] == pid).await;
		let (rest, _clean) = ws.stop_and_drain(WAIT).await;
		frames.extend(rest);
		let frames = frames
			.into_iter()
			.filter(|f| serde_json::from_str::<Value>(f).map(|v| v["id"] != pid && !(900..903).contains(&v["id"].as_u64().unwrap_or(0))).unwrap_or(true))
			.collect();
		WsOutcome { frames, probe_ok: hit, connect_err: None }
	}

	/// one WebSocket connection: send `msg` (text if valid UTF-8 else binary), then a probe call, stop, drain to EOF
	pub async fn ws_exchange(&self, msg: &[u8], probe_id: &str) -> WsOutcome {
		let probe = format!(r#"{{"jsonrpc":"2.0","id":"{probe_id}","method":"echo"}}"#);
		let pid = serde_json::json!(probe_id);
		let strip = |frames: Vec<String>| -> Vec<String> {
			frames.into_iter().filter(|f| serde_json::from_str::<Value>(f).map(|v| v["id"] != pid).unwrap_or(true)).collect()
		};
		match self {
			Endpoint::Tower(_) | Endpoint::Low { .. } => {
				let peer = match self {
					Endpoint::Tower(rig) => rig.ws().await,
					Endpoint::Low { rig, guard } => {
						let (stop, handle) = stop_channel();
						let svc = LowSvc { cfg: rig.cfg.clone(), methods: rig.methods.clone(), guard: guard.clone(), stop: stop.clone() };
						WsPeer::connect(svc, stop, handle, &[]).await
					}
					_ => unreachable!(),
				};
				let mut ws = match peer {
					Ok(w) => w,
					Err(e) => return WsOutcome { frames: vec![], probe_ok: false, connect_err: Some(e) },
				};
				let _ = match std::str::from_utf8(msg) {
					Ok(t) => ws.send_text(t).await,
					Err(_) => ws.send_binary(msg).await,
				};
				ws.send_text(&probe).await;
				let (mut frames, hit) = ws.recv_until(WAIT, |v| v["id"] == pid).await;
				let (rest, _clean) = ws.stop_and_drain(WAIT).await;
				frames.extend(rest);
				WsOutcome { frames: strip(frames), probe_ok: hit, connect_err: None }
			}
			Endpoint::Server { addr, .. } => {
				let sock = match tokio::net::TcpStream::connect(addr).await {
					Ok(s) => s,
					Err(e) => return WsOutcome { frames: vec![], probe_ok: false, connect_err: Some(e.to_string()) },
				};
				let mut client = soketto::handshake::Client::new(BufReader::new(BufWriter::new(sock.compat())), "localhost", "/");
				match client.handshake().await {
					Ok(soketto::handshake::ServerResponse::Accepted { .. }) => {}
					o => return WsOutcome { frames: vec![], probe_ok: false, connect_err: Some(format!("{:?}", o.map(|_| ()))) },
				}
				let mut b = client.into_builder();
				b.set_max_message_size(usize::MAX / 2);
				let (mut tx, mut rx) = b.finish();
				let _ = match std::str::from_utf8(msg) {
					Ok(t) => tx.send_text(t).await,
					Err(_) => tx.send_binary(msg).await,
				};
				let _ = tx.flush().await;
				let _ = tx.send_text(&probe).await;
				let _ = tx.flush().await;
				let mut frames = vec![];
				let mut hit = false;
				let mut other = false;
				// no per-connection stop here: read until both the probe's reply and one other frame (the message's
				// reply or its rejection) have been seen; message tasks run concurrently, so either order is possible
				loop {
					let mut data = Vec::new();
					match tokio::time::timeout(if hit { Duration::from_secs(3) } else { WAIT }, rx.receive_data(&mut data)).await {
						Ok(Ok(_)) => {
							let t = String::from_utf8_lossy(&data).into_owned();
							let is_probe = serde_json::from_str::<Value>(&t).map(|v| v["id"] == pid).unwrap_or(false);
							frames.push(t);
							if is_probe {
								hit = true;
							} else {
								other = true;
							}
							if hit && other {
								break;
							}
						}
						_ => break,
					}
				}
				let _ = tx.close().await;
				WsOutcome { frames: strip(frames), probe_ok: hit, connect_err: None }
			}
		}
	}
}

/// tower service over the low-level API: `ws::connect` for upgrade requests, `http::call_with_service_builder` otherwise
#[derive(Clone)]
pub struct LowSvc {
	pub cfg: RigCfg,
	pub methods: jsonrpsee_server::Methods,
	pub guard: ConnectionGuard,
	pub stop: StopHandle,
}

impl tower::Service<http::Request<hyper::body::Incoming>> for LowSvc {
	type Response = jsonrpsee_server::HttpResponse;
	type Error = jsonrpsee_core::BoxError;
	type Future = std::pin::Pin<Box<dyn std::future::Future<Output = Result<Self::Response, Self::Error>> + Send>>;
	fn poll_ready(&mut self, _: &mut std::task::Context<'_>) -> std::task::Poll<Result<(), Self::Error>> {
		std::task::Poll::Ready(Ok(()))
	}
	fn call(&mut self, req: http::Request<hyper::body::Incoming>) -> Self::Future {
		let this = self.clone();
		Box::pin(async move {
			let Some(permit) = this.guard.try_acquire() else {
				return Ok(jsonrpsee_server::http::response::too_many_requests());
			};
			let conn = ConnectionState::new(this.stop.clone(), 9, permit);
			if jsonrpsee_server::ws::is_upgrade_request(&req) {
				match jsonrpsee_server::ws::connect(req, this.cfg.server_config(), this.methods.clone(), conn, RpcServiceBuilder::new()).await {
					Ok((rp, fut)) => {
						tokio::spawn(fut);
						Ok(rp)
					}
					Err(rp) => Ok(rp),
				}
			} else {
				Ok(jsonrpsee_server::http::call_with_service_builder(req, this.cfg.server_config(), conn, this.methods.clone(), RpcServiceBuilder::new()).await)
			}
		})
	}
}

/// a hand-written HTTP/1.1 exchange over TCP (Content-Length or chunked transfer encoding, body written piecewise)
pub async fn raw_http(addr: std::net::SocketAddr, headers: &[(String, String)], frames: Vec<Vec<u8>>, content_length: bool) -> HttpReply {
	let mut s = match tokio::net::TcpStream::connect(addr).await {
		Ok(s) => s,
		Err(_) => return HttpReply { status: 0, body: vec![], content_type: None },
	};
	let _ = s.set_nodelay(true);
	let mut head = String::from("POST / HTTP/1.1\r\nHost: localhost\r\nConnection: close\r\n");
	for (k, v) in headers {
		head += &format!("{k}: {v}\r\n");
	}
	if !content_length {
		head += "Transfer-Encoding: chunked\r\n";
	}
	head += "\r\n";
	let _ = s.write_all(head.as_bytes()).await;
	for f in &frames {
		let r = if content_length {
			s.write_all(f).await
		} else if f.is_empty() {
			Ok(()) // an empty chunk would terminate a chunked body
		} else {
			let mut c = format!("{:x}\r\n", f.len()).into_bytes();
			c.extend_from_slice(f);
			c.extend_from_slice(b"\r\n");
			s.write_all(&c).await
		};
		if r.is_err() {
			break;
		}
		let _ = s.flush().await;
		tokio::task::yield_now().await;
	}
	if !content_length {
		let _ = s.write_all(b"0\r\n\r\n").await;
	}
	let _ = s.flush().await;
	let mut buf = vec![];
	let _ = tokio::time::timeout(WAIT, s.read_to_end(&mut buf)).await;
	parse_http_response(&buf)
}

pub fn parse_http_response(buf: &[u8]) -> HttpReply {
	let text = String::from_utf8_lossy(buf);
	let status = text.split_whitespace().nth(1).and_then(|s| s.parse::<u16>().ok()).unwrap_or(0);
	let (head, body) = match buf.windows(4).position(|w| w == b"\r\n\r\n") {
		Some(p) => (String::from_utf8_lossy(&buf[..p]).to_ascii_lowercase(), buf[p + 4..].to_vec()),
		None => (String::new(), vec![]),
	};
	let body = if head.contains("transfer-encoding: chunked") { dechunk(&body) } else { body };
	HttpReply { status, body, content_type: None }
}

fn dechunk(mut b: &[u8]) -> Vec<u8> {
	let mut out = vec![];
	loop {
		let Some(p) = b.windows(2).position(|w| w == b"\r\n") else { break };
		let n = usize::from_str_radix(String::from_utf8_lossy(&b[..p]).trim(), 16).unwrap_or(0);
		if n == 0 || b.len() < p + 2 + n {
			break;
		}
		out.extend_from_slice(&b[p + 2..p + 2 + n]);
		b = &b[(p + 2 + n + 2).min(b.len())..];
	}
	out
}

#[allow(unused)]
fn _b(_: Bytes) {}
