//! C17: replay of RpcMacro.tla calls through the real `#[rpc(server, client)]` expansion.
//!
//! One loop-back for the whole run: `apis_generated::merged()` (every shape's `into_rpc()` merged into one module)
//! behind a real jsonrpsee async `Client` whose transport hands each request text to `Methods::raw_json_request` and
//! feeds the response and every subscription notification back to the client.
//!
//! Per case (one call of the spec): concretise a value for every present slot, perform the call the way the variant
//! says (generated stub, or a raw request whose params are built from the spec's abstract `wire`), then compare
//!   * the server log: exactly one invocation, of the handler the spec resolved, with JSON-equal arguments;
//!   * the value the client got back (`Echo { method, args }`, for subscriptions the first item);
//!   * in the marker case (first argument 666) the exact error object (42, "boom", data = args);
//!   * for expected -32602: `Error::Call` with that code and no invocation at all;
//!   * for the stub variant additionally the shape of the params text the generated client put on the wire.
use vh_apis::generated as apis_generated;
use crate::common::*;
use jsonrpsee::core::client::{
	Client, ClientBuilder, ClientT, Error, ReceivedMessage, SubscriptionClientT, TransportReceiverT,
	TransportSenderT,
};
use jsonrpsee::core::params::{ArrayParams, ObjectParams};
use jsonrpsee::core::traits::ToRpcParams;
use jsonrpsee_core::server::Methods;
use rand::Rng;
use rand::rngs::StdRng;
use serde_json::value::RawValue;
use serde_json::{Value, json};
use std::future::Future;
use std::sync::{Arc, Mutex};
use std::time::Duration;
use tokio::sync::mpsc;

pub use vh_apis::{BOOM_CODE, BOOM_MSG, Echo, Kind, Log, MARKER, Nested, Stub, first_item, jv};

// ---------------------------------------------------------------------------------------------------------- transport

#[derive(Debug)]
pub struct TErr(String);
impl std::fmt::Display for TErr {
	fn fmt(&self, f: &mut std::fmt::Formatter<'_>) -> std::fmt::Result {
		write!(f, "{}", self.0)
	}
}
impl std::error::Error for TErr {}

struct LoopTx {
	methods: Methods,
	back: mpsc::UnboundedSender<String>,
	sent: Arc<Mutex<Vec<String>>>,
}
struct LoopRx(mpsc::UnboundedReceiver<String>);

impl TransportSenderT for LoopTx {
	type Error = TErr;
	fn send(&mut self, msg: String) -> impl Future<Output = Result<(), TErr>> + Send {
		self.sent.lock().unwrap().push(msg.clone());
		let (methods, back) = (self.methods.clone(), self.back.clone());
		// one send in four behaves like a transport with write acknowledgement: it completes only after the peer's answer is
		// already on its way back (and a few scheduler turns later) - the client must have the call on its books before it writes
		let late = {
			let mut n = self.sent.lock().unwrap().len();
			n = n.wrapping_mul(2654435761) >> 5;
			n % 4 == 1
		};
		let (ack_tx, ack_rx) = tokio::sync::oneshot::channel::<()>();
		tokio::spawn(async move {
			match methods.raw_json_request(&msg, 16).await {
				Ok((resp, mut notifs)) => {
					// the answer first, then whatever the subscription sink produces until the handler drops it
					let _ = back.send(resp.get().to_string());
					let _ = ack_tx.send(());
					while let Some(n) = notifs.recv().await {
						let _ = back.send(n.get().to_string());
					}
				}
				Err(e) => {
					let _ = back.send(
						json!({"jsonrpc":"2.0","id":null,"error":{"code":-32700,"message":format!("loop-back: {e}")}}).to_string(),
					);
				}
			}
		});
		async move {
			if late {
				let _ = tokio::time::timeout(Duration::from_secs(2), ack_rx).await;
				for _ in 0..3 {
					tokio::task::yield_now().await;
				}
			}
			Ok(())
		}
	}
}
impl TransportReceiverT for LoopRx {
	type Error = TErr;
	fn receive(&mut self) -> impl Future<Output = Result<ReceivedMessage, TErr>> + Send {
		async {
			match self.0.recv().await {
				Some(t) => Ok(ReceivedMessage::Text(t)),
				None => Err(TErr("loop-back closed".into())),
			}
		}
	}
}

/// params of a raw call: the real builders when there is at least one entry, literal text for `[]` / `{}` (an empty
/// builder serialises to *no* params, core/src/params.rs:123-126) and None for absent
enum RawP {
	Arr(ArrayParams),
	Obj(ObjectParams),
	Text(&'static str),
	Absent,
}
impl ToRpcParams for RawP {
	fn to_rpc_params(self) -> Result<Option<Box<RawValue>>, serde_json::Error> {
		match self {
			RawP::Arr(a) => a.to_rpc_params(),
			RawP::Obj(o) => o.to_rpc_params(),
			RawP::Text(t) => RawValue::from_string(t.to_string()).map(Some),
			RawP::Absent => Ok(None),
		}
	}
}

// ------------------------------------------------------------------------------------------------------ concretisation

/// (declared spelling, other-case spelling) per slot - RpcMacro.tla OtherSpelling; gen_c17_apis.py SLOTS
const NAMES: [(&str, &str); 4] = [("p0", "p0"), ("second_param", "secondParam"), ("thirdArg", "third_arg"), ("d", "d")];
/// wire names of the "odd" family (gen_c17_apis.py ODD): there is no other-case spelling
const ODD_NAMES: [(&str, &str); 4] = [("_limit", "_limit"), ("type_", "type_"), ("chainID", "chainID"), ("block-hash", "block-hash")];
fn names_of(ns: &str) -> &'static [(&'static str, &'static str); 4] {
	if ns == "odd" { &ODD_NAMES } else { &NAMES }
}

fn gen_u64(rng: &mut StdRng) -> u64 {
	match rng.random_range(0..8) {
		0 => 0,
		1 => u64::MAX,
		2 => 1,
		3 => 9007199254740993,
		4 => i64::MAX as u64 + 1,
		5 => u32::MAX as u64,
		_ => {
			let v = rng.random::<u64>();
			if v == MARKER { 7 } else { v }
		}
	}
}
fn gen_nested(rng: &mut StdRng) -> Nested {
	let a = match rng.random_range(0..6) {
		0 => i64::MIN,
		1 => i64::MAX,
		2 => 0,
		3 => -1,
		_ => rng.random::<i64>(),
	};
	let nb = [0usize, 0, 1, 2, 5][rng.random_range(0..5)];
	let b = (0..nb).map(|_| gen_string(rng)).collect();
	let c = [None, Some(true), Some(false)][rng.random_range(0..3)];
	let e = match rng.random_range(0..4) {
		0 => Kind::Unit,
		1 => Kind::Tuple([0u8, 255, 7][rng.random_range(0..3)]),
		_ => Kind::Struct { x: gen_string(rng) },
	};
	Nested { a, b, c, e }
}
fn gen_vec(rng: &mut StdRng) -> Vec<u32> {
	match rng.random_range(0..6) {
		0 => vec![],
		1 => vec![0],
		2 => vec![u32::MAX, 0, u32::MAX],
		3 => (0..300).map(|_| rng.random::<u32>()).collect(),
		_ => {
			let n = rng.random_range(1..6);
			(0..n).map(|_| rng.random::<u32>()).collect()
		}
	}
}
/// canonical JSON (what serde produces for the typed value) of a fresh value for slot `i`
fn gen_slot(i: usize, rng: &mut StdRng) -> Value {
	match i {
		0 => jv(&gen_u64(rng)),
		1 => jv(&gen_string(rng)),
		2 => jv(&gen_nested(rng)),
		3 => jv(&gen_vec(rng)),
		_ => unreachable!("4 typed slots"),
	}
}

fn shape_id(flags: &[&str], pk: &str, ns: &str) -> String {
	let mut f: String = flags.iter().map(|x| if *x == "req" { 'r' } else { 'o' }).collect();
	if f.is_empty() {
		f.push('z');
	}
	format!("{f}_{}{}", if pk == "array" { 'a' } else { 'm' }, match ns {
		"none" => 'n',
		"under" => 'u',
		"odd" => 'x',
		_ => 'd',
	})
}
/// ns + separator + base (rpc_macro.rs:419-426); for ns "none" the generator made the id part of the declared name
fn wire_name(id: &str, ns: &str, base: &str) -> String {
	if ns == "dot" { format!("{id}.{base}") } else { format!("{id}_{base}") }
}

fn strs(v: &Value) -> Vec<&str> {
	v.as_array().map(|a| a.iter().map(|x| x.as_str().unwrap()).collect()).unwrap_or_default()
}

/// abstract view of a params text, comparable with the spec's `wire`
fn abstract_params(p: Option<&Value>) -> Value {
	let tok = |v: &Value| if v.is_null() { "null" } else { "v" };
	match p {
		None => json!({"form": "absent"}),
		Some(Value::Array(a)) => json!({"form": "arr", "toks": a.iter().map(tok).collect::<Vec<_>>()}),
		Some(Value::Object(o)) => json!({"form": "obj", "members": o.iter().map(|(k, v)| json!([k, tok(v)])).collect::<Vec<_>>()}),
		Some(other) => json!({"form": "scalar", "text": other}),
	}
}
fn abstract_wire(w: &Value) -> Value {
	match w["form"].as_str().unwrap() {
		"absent" => json!({"form": "absent"}),
		"arr" => json!({"form": "arr", "toks": w["toks"].as_array().cloned().unwrap_or_default()}),
		_ => json!({"form": "obj", "members": w["members"].as_array().map(|ms| ms.iter().map(|m| {
			let (decl, other) = names_of("none")[m["slot"].as_u64().unwrap() as usize - 1];
			json!([if m["sp"] == "decl" { decl } else { other }, m["tok"]])
		}).collect::<Vec<_>>()).unwrap_or_default()}),
	}
}

fn err_code(e: &Error) -> String {
	match e {
		Error::Call(o) => o.code().to_string(),
		Error::ParseError(_) => "client-parse".into(),
		Error::RequestTimeout => "request-timeout".into(),
		Error::RestartNeeded(_) => "restart-needed".into(),
		Error::Transport(_) => "transport".into(),
		_ => "other".into(),
	}
}

// --------------------------------------------------------------------------------------------------------------- replay

pub fn replay(cases: &[Value], out: &mut Out) {
	let rt = tokio::runtime::Builder::new_multi_thread().worker_threads(4).enable_all().build().unwrap();
	rt.block_on(async {
		let log: Log = Arc::new(Mutex::new(vec![]));
		let methods: Methods = apis_generated::merged(&log).into();
		let sent = Arc::new(Mutex::new(vec![]));
		let (back, rx) = mpsc::unbounded_channel();
		let connect = |back, rx| -> Client {
			ClientBuilder::default().request_timeout(Duration::from_secs(20)).build_with_tokio(LoopTx { methods: methods.clone(), back, sent: sent.clone() }, LoopRx(rx))
		};
		let mut client: Client = connect(back, rx);
		for (i, c) in cases.iter().enumerate() {
			for k in 0..k_concretisations() {
				let mut rng = rng_for(i, k);
				// One case in nine follows a call of the same stub that its caller gave up right after sending it (a timeout
				// around the call, a select!) and that the server answers anyway: the calls after it are ordinary calls.
				if (i + k) % 9 == 4 && c["kind"] != "sub" {
					abandoned_call_first(c, &client, &log, &mut rng_for(i, k + 1000)).await;
				}
				one_case(i, k, c, &client, &log, &sent, &mut rng, out).await;
				if !client.is_connected() {
					// (reported by the case that found it gone; the cases after it get a connection of their own)
					let (back, rx) = mpsc::unbounded_channel();
					client = connect(back, rx);
				}
			}
		}
	});
}

/// Start the case's call through the generated stub, give the future up as soon as the request is on its way, and wait until
/// the server has run the method (or, where none runs, a moment) so that its late answer has reached the client.
async fn abandoned_call_first(c: &Value, client: &Client, log: &Log, rng: &mut StdRng) {
	let flags = strs(&c["flags"]);
	let pres = strs(&c["pres"]);
	let (pk, ns, kind) = (c["pk"].as_str().unwrap(), c["ns"].as_str().unwrap(), c["kind"].as_str().unwrap());
	if kind == "alias" {
		return;
	}
	let id = shape_id(&flags, pk, ns);
	let vals: Vec<Option<Value>> = (0..flags.len()).map(|s| if pres[s] == "value" { Some(gen_slot(s, rng)) } else { None }).collect();
	log.lock().unwrap().clear();
	{
		let fut = apis_generated::dispatch(&id, client, kind, &vals);
		tokio::pin!(fut);
		// polled until the request has left the front end (a few turns), then dropped
		for _ in 0..3 {
			if futures_util::poll!(fut.as_mut()).is_ready() {
				break;
			}
			tokio::task::yield_now().await;
		}
	}
	let t0 = std::time::Instant::now();
	while log.lock().unwrap().is_empty() && t0.elapsed() < Duration::from_millis(if c["ok"] == json!(true) { 2000 } else { 20 }) {
		tokio::time::sleep(Duration::from_millis(1)).await;
	}
	tokio::time::sleep(Duration::from_millis(3)).await;
}

#[allow(clippy::too_many_arguments)]
async fn one_case(i: usize, k: usize, c: &Value, client: &Client, log: &Log, sent: &Arc<Mutex<Vec<String>>>, rng: &mut StdRng, out: &mut Out) {
	let flags = strs(&c["flags"]);
	let pres = strs(&c["pres"]);
	let (pk, ns, kind, variant) =
		(c["pk"].as_str().unwrap(), c["ns"].as_str().unwrap(), c["kind"].as_str().unwrap(), c["variant"].as_str().unwrap());
	let id = shape_id(&flags, pk, ns);
	if let Some(given) = c.get("id").and_then(|v| v.as_str()) {
		assert_eq!(given, id, "shape id of the driver and of the harness disagree");
	}
	let n = flags.len();
	let expect_ok = c["ok"].as_bool().unwrap();
	let handler = c["handler"].as_str().unwrap();
	let tag = format!("{kind}:{pk}:{variant}");

	// ---- values
	let mut vals: Vec<Option<Value>> = (0..n).map(|s| if pres[s] == "value" { Some(gen_slot(s, rng)) } else { None }).collect();
	let marker = expect_ok && n > 0 && vals[0].is_some() && rng.random_range(0..4) == 0;
	if marker {
		vals[0] = Some(json!(MARKER));
	}
	// what the server method must see: slot by slot as the spec's decoded vector says
	let spec_args = strs(&c["args"]);
	let want_args: Vec<Value> =
		(0..spec_args.len()).map(|s| if spec_args[s] == "value" { vals[s].clone().unwrap_or(json!("<spec says value, caller sent none>")) } else { Value::Null }).collect();
	let want_method = format!("{id}/{handler}");

	// ---- the call
	let use_stub = variant == "stub" && kind != "alias";
	let name = match kind {
		"alias" => format!("{id}_alias"), // verbatim, never namespaced (render_server.rs:264-285)
		"sub" => wire_name(&id, ns, "sub"),
		k => wire_name(&id, ns, &format!("m_{k}")),
	};
	log.lock().unwrap().clear();
	sent.lock().unwrap().clear();
	let fut = async {
		if use_stub {
			apis_generated::dispatch(&id, client, kind, &vals).await
		} else {
			let params = raw_params(&c["wire"], c["ns"].as_str().unwrap_or("none"), &vals, rng);
			if kind == "sub" {
				first_item(client.subscribe::<Echo, _>(&name, params, &wire_name(&id, ns, "unsub")).await).await
			} else {
				client.request::<Value, _>(&name, params).await
			}
		}
	};
	let res = match tokio::time::timeout(Duration::from_secs(30), fut).await {
		Ok(r) => r,
		Err(_) => {
			out.verdict(i, k, Some(format!("timeout:{tag}")), json!({"case": c, "name": name}));
			return;
		}
	};
	let entries: Vec<(String, Vec<Value>)> = log.lock().unwrap().clone();
	let sent_now: Vec<String> = sent.lock().unwrap().clone();
	let res_json = match &res {
		Ok(v) => json!({"ok": v}),
		Err(Error::Call(e)) => json!({"call_error": {"code": e.code(), "message": e.message(), "data": e.data().map(|d| serde_json::from_str::<Value>(d.get()).unwrap())}}),
		Err(e) => json!({"error": e.to_string()}),
	};
	let detail = |what: &str| json!({"case": c, "what": what, "name": name, "values": vals, "marker": marker, "server_log": entries, "client_got": res_json, "sent": sent_now});
	let mut probs: Vec<(String, Value)> = vec![];

	// ---- the text the generated client produced (stub only): shape must be the spec's wire
	if use_stub {
		let mine: Vec<Value> = sent_now.iter().filter_map(|t| serde_json::from_str::<Value>(t).ok()).filter(|v| v["method"] == json!(name)).collect();
		if mine.len() != 1 {
			probs.push((format!("stub-sent-{}-requests-named-as-expected:{kind}:{ns}", mine.len()), detail("the stub did not put exactly one request with the namespaced name on the wire")));
		}
		// (The shape of the stub's params text is NOT compared with the spec's Encode: the property is about the arguments
		// the server method receives; a client that, say, omits trailing `None`s is a different but equally valid encoding.)
	}

	if expect_ok {
		// ---- exactly one invocation, right handler, equal arguments
		if entries.len() != 1 {
			let why = match &res {
				Err(e) => format!("unexpected-error:{}", err_code(e)),
				Ok(_) => format!("invocations-{}:{tag}", entries.len()),
			};
			probs.push((why, detail("expected exactly one invocation of the server method")));
		} else {
			if entries[0].0 != want_method {
				probs.push((format!("wrong-handler:{kind}:{ns}"), detail("another trait method ran")));
			}
			if entries[0].1 != want_args {
				probs.push((format!("args-differ:{tag}"), detail("server method saw other arguments than the caller passed")));
			}
			// ---- what came back
			match &res {
				Ok(v) if !marker => {
					if *v != json!({"method": want_method, "args": want_args}) {
						probs.push((format!("result-differs:{tag}"), detail("client did not receive the value the server method returned")));
					}
				}
				Ok(_) => probs.push(("error-object-differs".into(), detail("server method returned an error object, client got a value"))),
				Err(Error::Call(e)) if marker => {
					let data: Option<Value> = e.data().and_then(|d| serde_json::from_str(d.get()).ok());
					if e.code() != BOOM_CODE || e.message() != BOOM_MSG || data != Some(Value::Array(want_args.clone())) {
						probs.push(("error-object-differs".into(), detail("client did not receive exactly the error object the server method returned")));
					}
				}
				Err(e) => probs.push((format!("unexpected-error:{}", err_code(e)), detail("server method ran and answered, client reports an error"))),
			}
		}
	} else {
		match &res {
			Err(Error::Call(e)) if e.code() == -32602 => {}
			Err(e) => probs.push((format!("unexpected-error:{}", err_code(e)), detail("expected error -32602"))),
			Ok(_) => probs.push(("expected-32602-got-ok".into(), detail("a required argument was missing, yet the call succeeded"))),
		}
		if !entries.is_empty() {
			probs.push((format!("handler-called-on-32602:{kind}"), detail("server method ran although a required argument was missing")));
		}
	}
	out.problems(i, k, probs, json!({"id": id, "marker": marker}));
}

/// concrete params of a raw call from the spec's abstract wire text
fn raw_params(w: &Value, ns: &str, vals: &[Option<Value>], rng: &mut StdRng) -> RawP {
	// a raw caller need not send the canonical serde form: sometimes leave out Nested.c when it is None
	let mut val = |slot: usize| -> Value {
		let mut v = vals[slot].clone().expect("token v only for present slots");
		if slot == 2 && v["c"].is_null() && rng.random_bool(0.5) {
			v.as_object_mut().unwrap().remove("c");
		}
		v
	};
	match w["form"].as_str().unwrap() {
		"absent" => RawP::Absent,
		"arr" => {
			let toks = strs(&w["toks"]);
			if toks.is_empty() {
				return RawP::Text(if rng.random_bool(0.5) { "[]" } else { " [ ] " });
			}
			let mut a = ArrayParams::new();
			for (j, t) in toks.iter().enumerate() {
				if *t == "v" { a.insert(val(j)).unwrap() } else { a.insert(Value::Null).unwrap() }
			}
			RawP::Arr(a)
		}
		"obj" => {
			let ms = w["members"].as_array().unwrap();
			if ms.is_empty() {
				return RawP::Text(if rng.random_bool(0.5) { "{}" } else { " { } " });
			}
			let mut o = ObjectParams::new();
			for m in ms {
				let slot = m["slot"].as_u64().unwrap() as usize - 1;
				let name = if m["sp"] == "decl" { names_of(ns)[slot].0 } else { names_of(ns)[slot].1 };
				if m["tok"] == "v" { o.insert(name, val(slot)).unwrap() } else { o.insert(name, Value::Null).unwrap() }
			}
			RawP::Obj(o)
		}
		f => panic!("wire form {f}"),
	}
}
