//! C07 / C08: replay of Limits.tla cases (request-size gate on four entry points; response-size accounting).
use crate::common::*;
use crate::endpoints::*;
use crate::server_rig::*;
use serde_json::{Value, json};
use std::collections::HashMap;

/// a valid echo call of exactly `size` bytes (padding inside a string param; sometimes part of it as leading whitespace)
fn padded_call(size: usize, lead_ws: usize) -> Vec<u8> {
	let base = r#"{"jsonrpc":"2.0","id":1,"method":"echo","params":[""]}"#.len();
	assert!(size >= base + lead_ws, "size {size} too small");
	let pad = size - base - lead_ws;
	let mut v = vec![b' '; lead_ws];
	v.extend_from_slice(format!(r#"{{"jsonrpc":"2.0","id":1,"method":"echo","params":["{}"]}}"#, "a".repeat(pad)).as_bytes());
	assert_eq!(v.len(), size);
	v
}

fn split(body: &[u8], n: usize) -> Vec<Vec<u8>> {
	if n <= 1 {
		return vec![body.to_vec()];
	}
	let step = body.len() / n;
	let mut out = vec![];
	for i in 0..n {
		let a = i * step;
		let b = if i + 1 == n { body.len() } else { (i + 1) * step };
		out.push(body[a..b].to_vec());
	}
	out
}

pub fn replay(cases: &[Value], out: &mut Out) {
	std::panic::set_hook(Box::new(|_| {}));
	let rt = tokio::runtime::Builder::new_multi_thread().worker_threads(8).enable_all().build().unwrap();
	rt.block_on(async {
		let mut eps: HashMap<String, Endpoint> = HashMap::new();
		for (i, c) in cases.iter().enumerate() {
			for k in 0..k_concretisations() {
				match c["mode"].as_str().unwrap() {
					"req" => req_case(i, k, c, &mut eps, out).await,
					"single" => single_case(i, k, c, &mut eps, out).await,
					_ => batch_case(i, k, c, &mut eps, out).await,
				}
			}
		}
		for (_, e) in eps {
			e.shutdown().await;
		}
		// ---- a fragmented message with a control frame between its fragments (hand-rolled peer), request mode only
		if cases.iter().any(|c| c["mode"] == "req") {
			let probs = fragment_then_pong().await;
			if !probs.is_empty() {
				out.raw(&json!({"i": 0, "k": 0, "extra": true, "key": probs[0].0, "detail": probs[0].1}));
			}
		}
	});
}

/// max_request_body_size = 100.  A request of 180 bytes, sent as: its first 80 bytes as a non-final fragment, a PONG, then its
/// last 100 bytes as a message of their own.  No message on the wire is above the limit - and no request above the limit may be
/// put together from them and dispatched; the connection keeps serving.
async fn fragment_then_pong() -> Vec<(String, Value)> {
	let rig = Rig::new(RigCfg { max_req: 100, max_resp: 10240, ..Default::default() });
	let (stop, _handle) = jsonrpsee_server::stop_channel();
	let Ok(mut ws) = RawWs::connect(rig.svc(stop.clone()), stop.clone(), 1 << 20).await else {
		return vec![("req:tower:ws:fragment-then-pong:connect-failed".into(), Value::Null)];
	};
	let marker = "f".repeat(120);
	let request = format!(r#"{{"jsonrpc":"2.0","id":1,"method":"echo","params":["{marker}"]}}"#);
	let (head, tail) = request.as_bytes().split_at(80);
	rig.take_log();
	let _ = ws.send_frame(false, 0x1, head).await;
	let _ = ws.send_frame(true, 0xA, b"").await;
	let _ = ws.send_frame(true, 0x1, tail).await;
	let _ = ws.send_frame(true, 0x1, br#"{"jsonrpc":"2.0","id":"probe","method":"echo","params":["probe"]}"#).await;
	let mut frames = vec![];
	let mut probe_answered = false;
	while let Some((op, payload)) = ws.read_frame(std::time::Duration::from_secs(3)).await {
		if op == 0x1 || op == 0x2 {
			let t = String::from_utf8_lossy(&payload).into_owned();
			probe_answered |= t.contains("\"probe\"") && t.contains("result");
			frames.push(t);
			if probe_answered {
				break;
			}
		} else if op == 0x8 {
			break;
		}
	}
	let log = rig.take_log();
	let mut probs = vec![];
	if log.iter().any(|e| e["h"] == "echo" && e["params"].to_string().contains(&marker)) {
		probs.push((
			"req:tower:ws:fragment-then-pong:request-above-the-limit-dispatched".to_string(),
			json!({"limit": 100, "request_len": request.len(), "frames": frames, "log": log}),
		));
	} else if !probe_answered {
		probs.push(("req:tower:ws:fragment-then-pong:connection-not-serving-later-messages".to_string(), json!({"frames": frames})));
	}
	probs
}

async fn endpoint_bp<'a>(eps: &'a mut HashMap<String, Endpoint>, entry: &str, req: u32) -> &'a Endpoint {
	let key = format!("{entry}:{req}:bp");
	if !eps.contains_key(&key) {
		let e = Endpoint::new(if entry == "wsconnect" { "low" } else { entry }, RigCfg { max_req: req, max_resp: 8 << 20, buf_cap: 1, ..Default::default() }).await;
		eps.insert(key.clone(), e);
	}
	&eps[&key]
}

async fn endpoint<'a>(eps: &'a mut HashMap<String, Endpoint>, entry: &str, req: u32, resp: u32) -> &'a Endpoint {
	let key = format!("{entry}:{req}:{resp}");
	if !eps.contains_key(&key) {
		let e = Endpoint::new(if entry == "wsconnect" || entry == "httpcall" { "low" } else { entry }, RigCfg { max_req: req, max_resp: resp, ..Default::default() }).await;
		eps.insert(key.clone(), e);
	}
	&eps[&key]
}

async fn req_case(i: usize, k: usize, c: &Value, eps: &mut HashMap<String, Endpoint>, out: &mut Out) {
	let x = &c["case"];
	let (entry, tr, framing) = (x["entry"].as_str().unwrap(), x["tr"].as_str().unwrap(), x["framing"].as_str().unwrap());
	let (req, resp, size) = (x["req"].as_u64().unwrap() as u32, x["resp"].as_u64().unwrap() as u32, x["size"].as_u64().unwrap() as usize);
	// "frameBp": the message arrives while the connection's outbound side is saturated (needs room for the priming calls in the
	// request limit and an in-process entry point; otherwise it is the plain frame case)
	let bp = framing == "frameBp" && req >= 80 && entry != "server";
	let ep = if bp { endpoint_bp(eps, entry, req).await } else { endpoint(eps, entry, req, resp).await };
	let lead = [0usize, 0, 3][(i + k) % 3];
	let body = padded_call(size, lead);
	ep.take_log();
	let mut probs: Vec<(String, Value)> = vec![];
	let want = c["expect"].as_str().unwrap();
	let rel = if size as u32 <= req { "within-request-limit" } else { "above-request-limit" };
	if tr == "ws" {
		let o = if bp { ep.ws_exchange_backpressure(&body, &format!("p{i}")).await } else { ep.ws_exchange(&body, &format!("p{i}")).await };
		let log: Vec<Value> = ep.take_log().into_iter().filter(|e| e["params"] != Value::Null).collect();
		if let Some(e) = o.connect_err {
			probs.push((format!("req:{entry}:ws:connect-failed"), json!({"err": e})));
		} else {
			if !o.probe_ok {
				probs.push((format!("req:{entry}:ws:{rel}:connection-not-serving-later-messages"), json!({"frames": o.frames})));
			}
			let processed = !log.is_empty();
			let got = if processed { "processed" } else { "rejected" };
			if got != want {
				probs.push((format!("req:{entry}:ws:{rel}:exp-{want}-got-{got}"), json!({"frames": o.frames.iter().map(|f| f.chars().take(160).collect::<String>()).collect::<Vec<_>>()})));
			} else if want == "rejected" {
				let ok = o.frames.len() == 1
					&& serde_json::from_str::<Value>(&o.frames[0]).map(|v| v["error"]["code"] == json!(-32007) && v["id"].is_null()).unwrap_or(false);
				if !ok {
					probs.push((format!("req:{entry}:ws:rejection-is-not-one-32007"), json!({"frames": o.frames})));
				}
			} else {
				let ok = o.frames.len() == 1 && serde_json::from_str::<Value>(&o.frames[0]).map(|v| v["id"] == json!(1)).unwrap_or(false);
				if !ok {
					probs.push((format!("req:{entry}:ws:processed-but-reply-missing"), json!({"frames": o.frames.len()})));
				}
			}
		}
	} else {
		let (cl, n) = match framing {
			"cl1" => (true, 1),
			"nocl1" => (false, 1),
			"cl2" => (true, 2),
			"nocl2" => (false, 2),
			_ => (false, 3),
		};
		let r = ep.http(split(&body, n), cl).await;
		let log = ep.take_log();
		let processed = !log.is_empty();
		let got = if processed { "processed" } else { "rejected" };
		if got != want {
			probs.push((format!("req:{entry}:http:{rel}:exp-{want}-got-{got}"), json!({"status": r.status})));
		} else if want == "rejected" && r.status < 400 {
			probs.push((format!("req:{entry}:http:rejected-with-status-{}", r.status), json!({"body": String::from_utf8_lossy(&r.body)})));
		} else if want == "processed" && (r.status != 200 || r.json().map(|v| v["id"] != json!(1)).unwrap_or(true)) {
			probs.push((format!("req:{entry}:http:processed-but-status-{}", r.status), json!({"body": String::from_utf8_lossy(&r.body).chars().take(200).collect::<String>()})));
		}
	}
	let d = json!({"case": c, "problems": probs.iter().map(|p| p.1.clone()).collect::<Vec<_>>()});
	out.problems(i, k, probs.into_iter().map(|(k2, _)| (k2, d.clone())).collect(), Value::Null);
}

// ---------------------------------------------------------------------------------------------- C08

fn id_text(idw: &str) -> String {
	match idw {
		"d1" => "1".into(),
		"d20" => "18446744073709551615".into(),
		_ => "\"id-\\u00e9\"".into(),
	}
}

/// length of the response envelope around a payload of serialised length 0, measured with the harness' own serialisation
fn envelope(idt: &str, kind: &str) -> usize {
	let id: Value = serde_json::from_str(idt).unwrap();
	let v = if kind == "result" {
		json!({"jsonrpc": "2.0", "id": id, "result": ""})
	} else {
		json!({"jsonrpc": "2.0", "id": id, "error": {"code": 7, "message": "app error", "data": ""}})
	};
	serde_json::to_string(&v).unwrap().len() - 2
}

fn call_for(idt: &str, kind: &str, payload_len: usize, content: &str) -> String {
	let m = if kind == "result" { "big" } else { "fail_with_data" };
	format!(r#"{{"jsonrpc":"2.0","id":{idt},"method":"{m}","params":[{payload_len},"{content}"]}}"#)
}

async fn exchange(ep: &Endpoint, tr: &str, text: &str, tag: &str) -> Result<Vec<String>, String> {
	if tr == "http" {
		let r = ep.http(vec![text.as_bytes().to_vec()], true).await;
		Ok(if r.body.is_empty() { vec![] } else { vec![String::from_utf8_lossy(&r.body).into_owned()] })
	} else {
		let o = ep.ws_exchange(text.as_bytes(), tag).await;
		if let Some(e) = o.connect_err {
			return Err(e);
		}
		if !o.probe_ok {
			return Err("probe unanswered".into());
		}
		Ok(o.frames)
	}
}

async fn single_case(i: usize, k: usize, c: &Value, eps: &mut HashMap<String, Endpoint>, out: &mut Out) {
	let x = &c["case"];
	let m = x["m"].as_u64().unwrap() as usize;
	let total = c["total"].as_u64().unwrap() as usize;
	let (idw, content, kind) = (x["idw"].as_str().unwrap(), x["content"].as_str().unwrap(), x["kind"].as_str().unwrap());
	let idt = id_text(idw);
	let env = envelope(&idt, kind);
	let mut probs: Vec<(String, Value)> = vec![];
	if total < env + 2 {
		out.verdict(i, k, None, json!({"skipped": "envelope larger than the requested total"}));
		return;
	}
	let plen = total - env;
	let ep = endpoint(eps, "tower", 1 << 20, m as u32).await;
	let want = c["expect"].as_str().unwrap();
	let rel = if total <= m { "fits" } else { "exceeds" };
	for tr in ["http", "ws"] {
		let frames = match exchange(ep, tr, &call_for(&idt, kind, plen, content), &format!("p{i}")).await {
			Ok(f) => f,
			Err(e) => {
				probs.push((format!("resp:{tr}:exchange-failed"), json!({"err": e})));
				continue;
			}
		};
		if frames.len() != 1 {
			probs.push((format!("resp:{tr}:single:{}-frames", frames.len()), json!({})));
			continue;
		}
		let f = &frames[0];
		let v: Value = serde_json::from_str(f).unwrap_or(Value::Null);
		let own_id: Value = serde_json::from_str(&idt).unwrap();
		let is_too_big = v["error"]["code"] == json!(-32008);
		if f.len() > m && !is_too_big {
			probs.push((format!("resp:{tr}:single:oversize-frame-on-wire"), json!({"len": f.len(), "limit": m})));
		}
		let got = if is_too_big { "e32008" } else { "unchanged" };
		if got != want {
			probs.push((format!("resp:{tr}:single:{rel}:exp-{want}-got-{got}:{kind}"), json!({"len": f.len(), "limit": m, "total": total})));
		} else if v["id"] != own_id {
			probs.push((format!("resp:{tr}:single:id-not-the-calls"), json!({"frame": f.chars().take(200).collect::<String>()})));
		} else if want == "unchanged" {
			let payload = crate::limits_payload(plen, content);
			let good = if kind == "result" { v["result"] == json!(payload) } else { v["error"]["data"] == json!(payload) && v["error"]["code"] == json!(7) };
			if !good || f.len() != total {
				probs.push((format!("resp:{tr}:single:fitting-reply-altered"), json!({"len": f.len(), "total": total})));
			}
		}
	}
	// the same reply once more from a result that is a live view of growing state (`live`): whatever the writer measured, what
	// goes out must be within the limit (or the -32008 replacement)
	if kind == "result" && content == "ascii" && total <= m {
		for tr in ["http", "ws"] {
			let text = format!(r#"{{"jsonrpc":"2.0","id":{idt},"method":"live","params":[{plen},"ascii"]}}"#);
			if let Ok(frames) = exchange(ep, tr, &text, &format!("q{i}")).await {
				for f in &frames {
					let v: Value = serde_json::from_str(f).unwrap_or(Value::Null);
					if f.len() > m && v["error"]["code"] != json!(-32008) {
						probs.push((format!("resp:{tr}:single:oversize-frame-on-wire:result-changed-while-written"), json!({"len": f.len(), "limit": m})));
					}
				}
			}
		}
	}
	let d = json!({"case": c, "problems": probs.iter().map(|p| p.1.clone()).collect::<Vec<_>>()});
	out.problems(i, k, probs.into_iter().map(|(k2, _)| (k2, d.clone())).collect(), Value::Null);
}

async fn batch_case(i: usize, k: usize, c: &Value, eps: &mut HashMap<String, Endpoint>, out: &mut Out) {
	let m = c["case"]["m"].as_u64().unwrap() as usize;
	let lens: Vec<usize> = c["lens"].as_array().unwrap().iter().map(|l| l.as_u64().unwrap() as usize).collect();
	let ep = endpoint(eps, "tower", 1 << 20, m as u32).await;
	let mut probs: Vec<(String, Value)> = vec![];
	// entry j has a one-digit id j+1 and a payload sized so that its response is exactly lens[j] bytes
	let contents = ["ascii", "esc", "multi"];
	let mut calls = vec![];
	for (j, l) in lens.iter().enumerate() {
		if *l == 0 {
			// a notification entry: it runs, and contributes nothing to the reply
			calls.push(format!(r#"{{"jsonrpc":"2.0","method":"echo","params":["{}"]}}"#, "n".repeat(5 + 7 * j)));
			continue;
		}
		let idt = format!("{}", j + 1);
		let env = envelope(&idt, "result");
		if *l < env + 2 {
			out.verdict(i, k, None, json!({"skipped": "entry shorter than its envelope"}));
			return;
		}
		calls.push(call_for(&idt, "result", l - env, contents[(i + j + k) % 3]));
	}
	let text = format!("[{}]", calls.join(","));
	let want = c["expect"].as_str().unwrap();
	let ncalls = lens.iter().filter(|l| **l > 0).count();
	let total = 1 + ncalls + lens.iter().sum::<usize>();
	let rel = if total <= m { "fits" } else { "exceeds" };
	for tr in ["http", "ws"] {
		let frames = match exchange(ep, tr, &text, &format!("p{i}")).await {
			Ok(f) => f,
			Err(e) => {
				probs.push((format!("resp:{tr}:exchange-failed"), json!({"err": e})));
				continue;
			}
		};
		if frames.len() != 1 {
			probs.push((format!("resp:{tr}:batch:{}-frames", frames.len()), json!({})));
			continue;
		}
		let f = &frames[0];
		let v: Value = serde_json::from_str(f).unwrap_or(Value::Null);
		let is_too_big = v["error"]["code"] == json!(-32011) && v["id"].is_null();
		if f.len() > m && !is_too_big {
			probs.push((format!("resp:{tr}:batch:oversize-frame-on-wire"), json!({"len": f.len(), "limit": m})));
		}
		let got = if is_too_big { "e32011" } else if v.is_array() { "unchanged" } else { "other" };
		if got != want {
			probs.push((format!("resp:{tr}:batch:{rel}:exp-{want}-got-{got}"), json!({"len": f.len(), "limit": m, "lens": lens, "frame": f.chars().take(200).collect::<String>()})));
		} else if want == "unchanged" && (f.len() != total || v.as_array().map(|a| a.len()) != Some(ncalls)) {
			probs.push((format!("resp:{tr}:batch:fitting-reply-altered"), json!({"len": f.len(), "total": total})));
		}
	}
	let d = json!({"case": c, "problems": probs.iter().map(|p| p.1.clone()).collect::<Vec<_>>()});
	out.problems(i, k, probs.into_iter().map(|(k2, _)| (k2, d.clone())).collect(), Value::Null);
}
